import socket, threading, time, sys
from easynetwork.lowlevel.api_sync.transports.socket import SocketStreamTransport
from easynetwork.serializers.json import JSONSerializer
from easynetwork.exceptions import DeserializeError
# C06: deep JSON
s = JSONSerializer()
for depth in (500, 5000, 30000):
    try:
        s.deserialize(b"["*depth + b"]"*depth)
        print("depth", depth, "ok")
    except DeserializeError as e:
        print("depth", depth, "DeserializeError")
    except BaseException as e:
        print("depth", depth, type(e).__name__)
# C04: empty trailing chunk via sendmsg
a, b = socket.socketpair()
t = SocketStreamTransport(a, 1.0)
def run():
    t.send_all_from_iterable([b"abc", b""], 5.0)
    print("send returned")
th = threading.Thread(target=run, daemon=True); th.start(); th.join(2.0)
print("C04 hang with trailing empty chunk:", th.is_alive())
