import asyncio
from unittest.mock import MagicMock
from easynetwork.lowlevel.api_async.backend._asyncio.stream.socket import StreamReaderBufferedProtocol

async def scenario(order):
    loop = asyncio.get_running_loop()
    proto = StreamReaderBufferedProtocol(loop=loop)
    tr = MagicMock(); tr.get_extra_info.return_value=None; tr.is_closing.return_value=False
    proto.connection_made(tr)
    user = bytearray(16)
    async def reader():
        return await proto.receive_data_into(user)
    task = asyncio.ensure_future(reader())
    await asyncio.sleep(0)  # reader parks
    def deliver(data):
        buf = proto.get_buffer(-1); mv = memoryview(buf); mv[:len(data)] = data; proto.buffer_updated(len(data))
    if order == "cancel-then-data":
        task.cancel(); deliver(b"hello")
    else:
        deliver(b"hello"); task.cancel()
    try:
        print(order, "-> reader got", await task)
    except asyncio.CancelledError:
        print(order, "-> reader cancelled; user buffer holds", bytes(user[:5]))
    deliver(b"world")
    user2 = bytearray(16)
    n = await proto.receive_data_into(user2)
    print(order, "-> next read:", bytes(user2[:n]), "(expected b'helloworld' or b'hello' first if nothing was lost)")

asyncio.run(scenario("cancel-then-data"))
asyncio.run(scenario("data-then-cancel"))
