import sys
from easynetwork.serializers.line import StringLineSerializer
from easynetwork.serializers.json import JSONSerializer
from easynetwork.protocol import StreamProtocol, BufferedStreamProtocol
from easynetwork.lowlevel._stream import StreamDataConsumer, BufferedStreamDataConsumer
from easynetwork.exceptions import *

def run_copy(ser, chunks):
    c = StreamDataConsumer(StreamProtocol(ser)); out=[]
    for ch in chunks:
        data = ch
        while True:
            try:
                out.append(('P', c.next(data)))
            except StopIteration:
                break
            except StreamProtocolParseError as e:
                out.append(('E', type(e.error).__name__))
            data=None
    return out, bytes(c.get_buffer())

def run_buf(ser, chunks):
    c = BufferedStreamDataConsumer(BufferedStreamProtocol(ser), 8); out=[]
    for ch in chunks:
        ch = memoryview(ch)
        while ch:
            try:
                buf = memoryview(c.get_write_buffer())
            except Exception as e:
                out.append(('X', repr(e))); return out, None
            n = min(len(buf), len(ch)); buf[:n]=ch[:n]; ch=ch[n:]
            nb = n
            while True:
                try:
                    out.append(('P', c.next(nb)))
                except StopIteration:
                    break
                except StreamProtocolParseError as e:
                    out.append(('E', type(e.error).__name__))
                nb=None
    return out, c.get_value()

# C02: CRLF, limit 10; frame of  9 bytes + '\r' cut then '\n' ...
ser = StringLineSerializer("CRLF", limit=10)
stream = b"a"*9 + b"\r\n" + b"hello\r\n"
for cut in range(1, len(stream)):
    chunks=[stream[:cut], stream[cut:]]
    a=run_copy(StringLineSerializer("CRLF", limit=10), chunks); b=run_buf(StringLineSerializer("CRLF", limit=10), chunks)
    if a[0]!=b[0]:
        print("cut",cut,"copy",a,"buf",b)
