# F1: buffered path, limit=10, CRLF separator; stream b"aaaaaaaa\r" | b"\nhello\r\n"
# The frame "aaaaaaaa" (8 bytes) + CRLF needs 10 bytes: with the 10-byte buffer the first read fills 9 bytes and the
# limit error fires; its remainder must keep the half-received separator b"\r" (a stale byte beyond the 9 received
# bytes must not influence it).
from easynetwork.serializers import StringLineSerializer
from easynetwork.protocol import BufferedStreamProtocol
from easynetwork.lowlevel._stream import BufferedStreamDataConsumer
from easynetwork.exceptions import StreamProtocolParseError

def run(stale: bytes):
    s = StringLineSerializer("CRLF", limit=10)
    c = BufferedStreamDataConsumer(BufferedStreamProtocol(s), 1024)
    out = []
    # pre-fill the buffer with stale content (as left by an earlier, longer frame)
    buf = c.get_write_buffer()
    mv = memoryview(buf); n0 = len(stale); mv[:n0] = stale
    try: out.append(("P", c.next(n0)))
    except StopIteration: pass
    except StreamProtocolParseError as e: out.append(("E", type(e.error).__name__))
    for chunk in (b"aaaaaaaa\r", b"\nhello\r\n"):
        while chunk:
            buf = memoryview(c.get_write_buffer()); n = min(len(buf), len(chunk)); buf[:n] = chunk[:n]; chunk = chunk[n:]
            nb = n
            while True:
                try:
                    out.append(("P", c.next(nb)))
                except StopIteration:
                    break
                except StreamProtocolParseError as e:
                    out.append(("E", type(e.error).__name__))
                nb = None
    return out

a = run(b"zzzzzzzz\r\n")   # stale tail: the 10th byte of the buffer holds "\n"
print(a)
pk = [x for k, x in a if k == "P"]
import sys
if "hello" not in pk or any(p.startswith("\n") for p in pk):
    print("FAIL: delivery did not resume intact after the rejected frame:", pk); sys.exit(1)
print("OK")
