import asyncio, socket
from easynetwork.lowlevel.api_async.backend._asyncio.backend import AsyncIOBackend
async def main():
    srv = socket.socket(); srv.bind(("127.0.0.1", 0)); srv.listen()
    c = socket.socket(); c.connect(srv.getsockname()); s, _ = srv.accept()
    tr = await AsyncIOBackend().wrap_stream_socket(c)
    at = tr._AsyncioTransportStreamSocketAdapter__transport
    t = asyncio.ensure_future(tr.send_all_from_iterable([b"x"*50_000_000]))
    await asyncio.sleep(0.3)
    print("send_all_from_iterable done:", t.done(), "write buffer size:", at.get_write_buffer_size(), at.get_write_buffer_limits())
    t2 = asyncio.ensure_future(tr.send_all(b"x"*50_000_000))
    await asyncio.sleep(0.3)
    print("send_all done:", t2.done(), "write buffer size:", at.get_write_buffer_size())
    for x in (t,t2): x.cancel()
    at.abort()
asyncio.run(main())
