"""F9 (C19 / C14): AsyncTLSStreamTransport.wrap() ran ssl_context.wrap_bio() before the try block that owns the transport: when it raises
(a server_hostname that starts with a dot, an invalid IDNA name, ...) the connected transport - the winner of the connection race - was
neither returned nor closed.  Exit 0 = the transport is closed when wrap() fails that way."""
import asyncio
import ssl
import sys

from easynetwork.lowlevel.api_async.backend.utils import ensure_backend
from easynetwork.lowlevel.api_async.transports.tls import AsyncTLSStreamTransport


async def main():
    backend = ensure_backend("asyncio")
    srv = await asyncio.start_server(lambda r, w: None, "127.0.0.1", 0)
    port = srv.sockets[0].getsockname()[1]
    transport = await backend.create_tcp_connection("127.0.0.1", port)
    ctx = ssl.create_default_context()
    ctx.check_hostname = False
    ctx.verify_mode = ssl.CERT_NONE
    try:
        await AsyncTLSStreamTransport.wrap(transport, ctx, server_side=False, server_hostname=".not-a-hostname")
    except ValueError:
        pass
    else:
        print("wrap() unexpectedly succeeded")
        return 2
    await asyncio.sleep(0.05)
    closing = transport.is_closing()
    srv.close()
    if not closing:
        print("wrap() failed before the handshake and left the connected transport open (nobody owns it any more)")
        await transport.aclose()
        return 1
    return 0


sys.exit(asyncio.run(main()))
