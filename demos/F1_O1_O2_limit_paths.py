from _limit_harness import *
for name, runner in (("copy", run_copy), ("buf", run_buf)):
    for stream, cuts in ((b"a"*30 + b"\r\n" + b"hello\r\n", [15]), (b"a"*30 + b"\r\n" + b"hello\r\n", []), (b"a"*11 + b"\r\n" + b"hello\r\n", [12]),(b"a"*10 + b"\r\n" + b"hello\r\n", [11]), (b"a"*10 + b"\r\n" + b"hello\r\n", [10]), (b"a"*10 + b"\r\n" + b"hello\r\n", [5]),(b"a"*8 + b"\r\n" + b"hello\r\n", [9]),(b"a"*8 + b"\r\n" + b"hello\r\n", [3]),(b"a"*7 + b"\r\n" + b"hello\r\n", [3]),(b"a"*7 + b"\r\n" + b"hello\r\n", [8])):
        chunks=[]; prev=0
        for c in cuts: chunks.append(stream[prev:c]); prev=c
        chunks.append(stream[prev:])
        print(name, len(stream)-9, cuts, runner(StringLineSerializer("CRLF", limit=10), chunks))
