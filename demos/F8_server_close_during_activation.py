"""F8 (C18): server_close() issued while serve_forever() is creating its listeners returned normally, but the listeners were
installed afterwards and the server kept serving (before commit "fix: close the listeners created while server_close() was
requested during activation").  Exit 0 = server_close() is honoured at every start-up step."""
import asyncio
import sys

from easynetwork.protocol import StreamProtocol
from easynetwork.serializers import StringLineSerializer
from easynetwork.servers.async_tcp import AsyncTCPNetworkServer
from easynetwork.servers.handlers import AsyncStreamRequestHandler


class H(AsyncStreamRequestHandler):
    async def handle(self, client):
        while True:
            r = yield
            await client.send_packet(r)


async def one(steps):
    srv = AsyncTCPNetworkServer("127.0.0.1", 0, StreamProtocol(StringLineSerializer()), H(), "asyncio")
    t = asyncio.ensure_future(srv.serve_forever())
    for _ in range(steps):
        await asyncio.sleep(0)
    err = None
    try:
        await asyncio.wait_for(srv.server_close(), 3)
    except BaseException as e:  # noqa: BLE001
        err = e
    await asyncio.sleep(0.3)
    bad = err is None and (srv.is_listening() or srv.is_serving())
    if not t.done():
        t.cancel()
    try:
        await t
    except BaseException:  # noqa: BLE001
        pass
    try:
        await srv.server_close()
    except BaseException:  # noqa: BLE001
        pass
    return bad


async def main():
    bad = [s for s in range(0, 10) if await one(s)]
    if bad:
        print(f"server_close() returned normally at start-up step(s) {bad} but the server is still listening / serving")
        return 1
    return 0


sys.exit(asyncio.run(main()))
