import asyncio, ssl, collections
from easynetwork.lowlevel.api_async.backend._asyncio.backend import AsyncIOBackend
from easynetwork.lowlevel.api_async.transports.abc import AsyncStreamTransport
from easynetwork.lowlevel.api_async.transports.tls import AsyncTLSStreamTransport

class Mem(AsyncStreamTransport):
    def __init__(self, backend):
        self._b=backend; self.inbox=bytearray(); self.ev=asyncio.Event(); self.peer=None; self.closing=False
        self.gate=asyncio.Event(); self.gate.set()
    async def aclose(self): self.closing=True; self.peer.ev.set()
    def is_closing(self): return self.closing
    def backend(self): return self._b
    @property
    def extra_attributes(self): return {}
    async def recv_into(self, buffer):
        while not self.inbox:
            if self.peer.closing: return 0
            self.ev.clear(); await self.ev.wait()
        mv=memoryview(buffer); n=min(len(mv),len(self.inbox)); mv[:n]=self.inbox[:n]; del self.inbox[:n]; return n
    async def send_all(self, data):
        await self.gate.wait()
        self.peer.inbox+=bytes(data); self.peer.ev.set()
    async def send_eof(self): pass

async def main():
    backend=AsyncIOBackend()
    a,b=Mem(backend),Mem(backend); a.peer=b; b.peer=a
    sctx=ssl.SSLContext(ssl.PROTOCOL_TLS_SERVER); import os; H=os.path.dirname(os.path.abspath(__file__)); sctx.load_cert_chain(os.path.join(H,"tls_test_cert.pem"),os.path.join(H,"tls_test_key.pem"))
    cctx=ssl.SSLContext(ssl.PROTOCOL_TLS_CLIENT); cctx.check_hostname=False; cctx.verify_mode=ssl.CERT_NONE
    srv_t=asyncio.ensure_future(AsyncTLSStreamTransport.wrap(b,sctx,server_side=True))
    cli=await AsyncTLSStreamTransport.wrap(a,cctx,server_hostname="localhost")
    srv=await srv_t
    await srv.send_all(b"hello"); await srv.send_all(b"world")   # two records, delivered together
    await asyncio.sleep(0.05)
    print("R1:", await cli.recv(5))        # pulls both records into the read BIO, returns first
    a.gate.clear()                          # the wire stops accepting: a sender will park holding the TLS send lock
    w=asyncio.ensure_future(cli.send_all(b"x"*10))
    await asyncio.sleep(0.05)
    # (since the F10 fix the reader only waits for the send lock when the write BIO holds pending output: a second sender,
    # queued behind the first one, has produced its record but cannot flush it yet)
    w2=asyncio.ensure_future(cli.send_all(b"y"*10))
    await asyncio.sleep(0.05)
    with backend.move_on_after(0.1) as scope:
        print("R2:", await cli.recv(5))
    print("R2 timed out:", scope.cancelled_caught())
    a.gate.set(); await w; await w2
    await srv.send_all(b"!end!")
    await asyncio.sleep(0.05)
    print("R3:", await cli.recv(100), " (stream sent was hello world !end!)")
asyncio.run(main())
