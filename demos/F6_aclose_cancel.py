import asyncio, socket
from easynetwork.clients.async_tcp import AsyncTCPNetworkClient
from easynetwork.protocol import StreamProtocol
from easynetwork.serializers.line import StringLineSerializer
async def c14():
    srv = socket.socket(); srv.bind(("127.0.0.1", 0)); srv.listen()
    c = socket.socket(); c.connect(srv.getsockname()); s, _ = srv.accept()
    client = AsyncTCPNetworkClient(c, StreamProtocol(StringLineSerializer()))
    await client.wait_connected()
    lock = client._AsyncTCPNetworkClient__send_lock
    await lock.acquire()     # stands for a sender suspended inside send_packet
    ct = asyncio.ensure_future(client.aclose())
    await asyncio.sleep(0.05)
    ct.cancel()
    try: await ct
    except asyncio.CancelledError: print("aclose() cancelled while waiting for the send lock")
    lock.release()
    await asyncio.sleep(0.05)
    print("is_closing:", client.is_closing(), "socket fileno:", client.socket.fileno())
    await client.aclose(); s.close(); srv.close()
asyncio.run(c14())
