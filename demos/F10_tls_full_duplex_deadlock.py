"""F10 (C08): AsyncTLSStreamTransport deadlocks when both peers send more than the wrapped transport buffers while both read.

Each side runs one writer and one reader task (what any full-duplex protocol does).  The wrapped transport is an in-memory pipe that
holds at most 64 KiB per direction, like a socket buffer.  _retry_ssl_method() took the transport send lock on every SSLWantReadError,
also when the write BIO was empty: the reader then waits behind its own side's writer, which is parked in send_all() until the peer
reads - and the peer's reader waits behind the peer's writer in the same way.  Nothing moves any more.

Run from /verif/demos with the repository on sys.path:  /venv/bin/python F10_tls_full_duplex_deadlock.py
exit 0: 1 MiB each way completed; exit 1: no progress for 10 s (the deadlock).
"""
import asyncio
import os
import ssl
import sys

from easynetwork.lowlevel.api_async.backend._asyncio.backend import AsyncIOBackend
from easynetwork.lowlevel.api_async.transports.abc import AsyncStreamTransport
from easynetwork.lowlevel.api_async.transports.tls import AsyncTLSStreamTransport

HERE = os.path.dirname(os.path.abspath(__file__))
CAP = 64 * 1024
N = 1024 * 1024


class Pipe(AsyncStreamTransport):
    """one end of a bounded in-memory duplex pipe: send_all() suspends while the peer's inbox is full"""

    def __init__(self, backend):
        self._backend = backend
        self.inbox = bytearray()
        self.readable = asyncio.Event()
        self.drained = asyncio.Event()
        self.peer = None
        self.closing = False

    async def aclose(self):
        self.closing = True
        self.peer.readable.set()

    def is_closing(self):
        return self.closing

    def backend(self):
        return self._backend

    @property
    def extra_attributes(self):
        return {}

    async def recv_into(self, buffer):
        while not self.inbox:
            if self.peer.closing:
                return 0
            self.readable.clear()
            await self.readable.wait()
        mv = memoryview(buffer)
        n = min(len(mv), len(self.inbox))
        mv[:n] = self.inbox[:n]
        del self.inbox[:n]
        self.drained.set()
        return n

    async def send_all(self, data):
        data = bytes(data)
        while data:
            while len(self.peer.inbox) >= CAP:
                self.peer.drained.clear()
                await self.peer.drained.wait()
            room = CAP - len(self.peer.inbox)
            self.peer.inbox += data[:room]
            data = data[room:]
            self.peer.readable.set()
            await asyncio.sleep(0)

    async def send_eof(self):
        pass


async def main():
    backend = AsyncIOBackend()
    a, b = Pipe(backend), Pipe(backend)
    a.peer, b.peer = b, a
    sctx = ssl.SSLContext(ssl.PROTOCOL_TLS_SERVER)
    sctx.load_cert_chain(os.path.join(HERE, "tls_test_cert.pem"), os.path.join(HERE, "tls_test_key.pem"))
    cctx = ssl.SSLContext(ssl.PROTOCOL_TLS_CLIENT)
    cctx.check_hostname = False
    cctx.verify_mode = ssl.CERT_NONE
    server, client = await asyncio.gather(
        AsyncTLSStreamTransport.wrap(a, sctx, server_side=True),
        AsyncTLSStreamTransport.wrap(b, cctx, server_hostname="localhost"),
    )

    async def reader(t, expect):
        got = 0
        while got < N:
            chunk = await t.recv(65536)
            assert chunk and set(chunk) == {expect}, "corrupted stream"
            got += len(chunk)
        return got

    try:
        r = await asyncio.wait_for(asyncio.gather(server.send_all(b"a" * N), client.send_all(b"b" * N), reader(server, ord("b")), reader(client, ord("a"))), 10)
    except asyncio.TimeoutError:
        print("FAIL: full duplex, 1 MiB each way over a 64 KiB-bounded transport: no completion within 10 s (deadlock)")
        return 1
    print("OK: both directions completed", r[2:])
    return 0


sys.exit(asyncio.run(main()))
