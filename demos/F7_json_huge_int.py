"""F7 (C06): a JSON number of more than sys.get_int_max_str_digits() digits makes json's scanner raise a *plain* ValueError
(CPython >= 3.11 integer string conversion limit), which is not a JSONDecodeError.  Before the fix it escaped
JSONSerializer.deserialize / incremental_deserialize, so the stream consumer reported RuntimeError('... crashed') instead of a
parse error and the receive path died.  Not part of any check (dynamic reproduction of a statically found escape).

usage: PYTHONPATH=/repo/src /venv/bin/python demos/F7_json_huge_int.py   -> exit 0 when the error is reported as a parse error
"""
import sys

from easynetwork.exceptions import DeserializeError, IncrementalDeserializeError
from easynetwork.serializers.json import JSONSerializer

s = JSONSerializer()
payload = b"1" * (sys.get_int_max_str_digits() + 700)
ok = True
try:
    s.deserialize(payload)
except DeserializeError as exc:
    print("one-shot: DeserializeError:", str(exc)[:70])
except Exception as exc:  # noqa: BLE001
    ok = False
    print("one-shot: ESCAPED", type(exc).__name__, str(exc)[:70])
gen = s.incremental_deserialize()
next(gen)
try:
    gen.send(b"[" + payload + b"]\n")
except IncrementalDeserializeError as exc:
    print("incremental: IncrementalDeserializeError:", str(exc)[:70])
except StopIteration:
    ok = False
    print("incremental: accepted?")
except Exception as exc:  # noqa: BLE001
    ok = False
    print("incremental: ESCAPED", type(exc).__name__, str(exc)[:70])
sys.exit(0 if ok else 1)
