#!/bin/bash
# Re-validate every filed seed (demo passes pristine / fails patched / strict pinned suite still passes) against /repo HEAD, 3 at a time.
cd /verif
one() {
  id=$1; pid=${id%%-*}; i=${id##*-}
  out=$(tools/validate_seed.py $pid $i --filed --props=$pid 2>&1 | grep -v WARNING | /venv/bin/python -c '
import sys,json
t=sys.stdin.read()
try:
    d=json.loads(t[t.index("{"):]); print("valid=",d["valid"],"demo",d["demo_pristine_exit"],d["demo_patched_exit"],"applies",d["patch_applies"],"baseline",d.get("baseline_ok"), (d.get("baseline_tail") or [""])[0][-40:])
except Exception as e: print("PARSE-ERROR",e,t[-300:])
')
  echo "=== $id $out"
}
export -f one
ls seeded | ${FILTER:-cat} | xargs -P ${JOBS:-3} -I{} bash -c 'one {}'
echo DONE
