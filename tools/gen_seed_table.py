#!/venv/bin/python
"""Write /verif/SEEDED.md: one row per filed seeded change with what it needs to manifest and which checks catch it."""
import json, os
V = os.path.dirname(os.path.dirname(os.path.abspath(__file__)))
rows = []
for sid in sorted(os.listdir(os.path.join(V, "seeded"))):
    mp = os.path.join(V, "seeded", sid, "meta.json")
    if not os.path.exists(mp):
        continue
    m = json.load(open(mp))
    cb = m.get("caught_by")
    caught = "patch no longer applies" if cb is None else (", ".join(f"{r}" for p in sorted(cb) for r in cb[p]) or "**missed**")
    fn = m.get("function", "")
    if isinstance(fn, list):
        fn = ", ".join(fn)
    rows.append((sid, m.get("property", sid[:3]), (m.get("summary", "") or "").replace("\n", " ").replace("|", "/")[:230], (m.get("needs", "") or "").replace("\n", " ").replace("|", "/")[:200], caught))
n = len(rows)
missed = [r for r in rows if r[4] == "**missed**"]
with open(os.path.join(V, "SEEDED.md"), "w") as f:
    f.write("# Seeded changes (written by independent sub-agents, validated here) and the checks that catch them\n\n")
    f.write("Each change compiles, keeps all 6710 pinned tests passing, and comes with a demonstration that passes on the pristine tree and fails with the change (see `seeded/<id>/meta.json` for what was run). ")
    f.write(f"`caught by` is recomputed by `tools/recheck_seeds.py` (engine overlay, nothing written to /repo).\n\n**{n} changes, {n - len(missed)} caught, {len(missed)} missed.**\n\n")
    f.write("| id | property | change | needs, to manifest | caught by |\n|---|---|---|---|---|\n")
    for r in rows:
        f.write("| " + " | ".join(r) + " |\n")
print(f"{n} seeds, {len(missed)} missed: {[r[0] for r in missed]}")
