#!/venv/bin/python
"""Benign stress test: one private member name at a time (a method, attribute or dataclass field whose name starts with an
underscore, dunders excluded) is renamed consistently in the whole package (definitions, attribute accesses, keyword arguments,
`__slots__` strings).  Every check must report the same findings; an analysis error (vanished anchor) is listed separately:
it is the designed fail-closed answer when a role that is located by its name disappears, not a VIOLATION."""
import ast, importlib, os, sys, collections
from concurrent.futures import ProcessPoolExecutor
V = os.path.dirname(os.path.dirname(os.path.abspath(__file__)))
sys.path.insert(0, V)
SRC = "/repo/src"
PROPS = sorted(f[:-3].upper() for f in os.listdir(os.path.join(V, "rules")) if f.startswith("c") and f[1:-3].isdigit())


def sources():
    out = {}
    for root, _, files in os.walk(os.path.join(SRC, "easynetwork")):
        for f in files:
            if f.endswith(".py"):
                p = os.path.join(root, f)
                out["src/" + os.path.relpath(p, SRC)] = open(p).read()
    return out


def private_names(srcs):
    """units to rename: ("__x", "<relpath>:<Class>") for name-mangled members - they are class-private, so one unit per defining
    class - and ("_x", None) for single-underscore names (renamed everywhere)"""
    units = set()
    for rel, s in srcs.items():
        t = ast.parse(s)
        for c in [n for n in ast.walk(t) if isinstance(n, ast.ClassDef)]:
            names = set()
            for n in c.body:
                if isinstance(n, (ast.FunctionDef, ast.AsyncFunctionDef)):
                    names.add(n.name)
                    for x in ast.walk(n):
                        if isinstance(x, ast.Attribute) and isinstance(x.ctx, ast.Store) and isinstance(x.value, ast.Name) and x.value.id == "self":
                            names.add(x.attr)
                elif isinstance(n, ast.AnnAssign) and isinstance(n.target, ast.Name):
                    names.add(n.target.id)
            for nm in names:
                if not nm.startswith("_") or (nm.startswith("__") and nm.endswith("__")):
                    continue
                units.add((nm, f"{rel}:{c.name}") if nm.startswith("__") else (nm, None))
    return sorted(units, key=lambda u: (u[0], u[1] or ""))


class _Scoped(ast.NodeTransformer):
    """rename `old` inside one class body only (name-mangled members)"""

    def __init__(self, cls, old, new):
        self.cls, self.old, self.new, self.hit = cls, old, new, False

    def visit_ClassDef(self, node):
        if node.name != self.cls:
            return self.generic_visit(node)
        for n in ast.walk(node):
            self.hit |= _rename_node(n, self.old, self.new)
        return node


def _rename_node(n, old, new):
    if isinstance(n, ast.Attribute) and n.attr == old:
        n.attr = new; return True
    if isinstance(n, (ast.FunctionDef, ast.AsyncFunctionDef)) and n.name == old:
        n.name = new; return True
    if isinstance(n, ast.keyword) and n.arg == old:
        n.arg = new; return True
    if isinstance(n, ast.AnnAssign) and isinstance(n.target, ast.Name) and n.target.id == old:
        n.target.id = new; return True
    if isinstance(n, ast.Assign) and any(isinstance(x, ast.Name) and x.id == "__slots__" for x in n.targets):
        hit = False
        for c in ast.walk(n.value):
            if isinstance(c, ast.Constant) and c.value == old:
                c.value = new; hit = True
        return hit
    if isinstance(n, ast.Name) and n.id == old:
        n.id = new; return True
    return False


def rename(src, old, new, cls=None):
    t = ast.parse(src)
    if cls is not None:
        tr = _Scoped(cls, old, new)
        tr.visit(t)
        hit = tr.hit
    else:
        hit = False
        for n in ast.walk(t):
            hit |= _rename_node(n, old, new)
    return (ast.unparse(t) + "\n") if hit else None


def findings(prop, overlay):
    from sa.engine import Engine
    from sa.report import Run
    mod = importlib.import_module(f"rules.{prop.lower()}")
    eng = Engine(None, overlay)
    run = Run(prop, "twin"); run.quiet = True
    mod.run(eng, run)
    return {(f.rule, f.function.replace("_rn", "")) for f in run.findings}


def job(args):
    (name, owner), prop, base = args
    srcs = sources()
    ov = {}
    for rel, s in srcs.items():
        if name not in s or (owner is not None and rel != owner.split(":")[0]):
            continue
        r = rename(s, name, name + "_rn", owner.split(":")[1] if owner else None)
        if r is not None:
            ov[rel] = r
    try:
        got = findings(prop, ov)
    except Exception as e:  # noqa: BLE001
        return (name, owner), prop, "ERROR", f"{type(e).__name__}: {str(e)[:160]}"
    if got != base:
        return (name, owner), prop, "DIFF", f"+{sorted(got - base)[:3]} -{sorted(base - got)[:3]}"
    return (name, owner), prop, "same", ""


def main():
    srcs = sources()
    # the printed form of the unchanged tree is the reference (ast.unparse drops comments)
    base = {}
    ov0 = {rel: ast.unparse(ast.parse(s)) + "\n" for rel, s in srcs.items()}
    for p in PROPS:
        base[p] = findings(p, ov0)
    names = private_names(srcs)
    write = "--write" in sys.argv
    sel = [a for a in sys.argv[1:] if not a.startswith("--")]
    if sel:
        names = [n for n in names if n[0] in sel]
    jobs = [(n, p, base[p]) for n in names for p in PROPS]
    res = collections.Counter()
    byname = collections.defaultdict(list)
    with ProcessPoolExecutor(int(os.environ.get("JOBS", "14"))) as ex:
        for name, prop, st, msg in ex.map(job, jobs, chunksize=4):
            res[st] += 1
            if st != "same":
                byname[(st, name)].append((prop, msg))
    if write and not sel:
        import json
        table = collections.defaultdict(list)
        for (st, name), lst in sorted(byname.items()):
            for prop, _ in lst:
                table[prop].append(list(name))
        json.dump({k: sorted(map(list, {tuple(x) for x in v}), key=lambda u: (u[0], u[1] or "")) for k, v in sorted(table.items())}, open(os.path.join(V, "anchor_names.json"), "w"), indent=1)
        print("wrote anchor_names.json:", {k: len({tuple(x) for x in v}) for k, v in sorted(table.items())})
    for (st, name), lst in sorted(byname.items()):
        print(st, name[0], name[1] or "*", " ".join(p for p, _ in lst), "|", lst[0][1][:200])
    print(f"{len(names)} private names x {len(PROPS)} checks: {dict(res)}")


if __name__ == "__main__":
    main()
