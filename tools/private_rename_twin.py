#!/venv/bin/python
"""Benign stress test: one private member name at a time (a method, attribute or dataclass field whose name starts with an
underscore, dunders excluded) is renamed consistently in the whole package (definitions, attribute accesses, keyword arguments,
`__slots__` strings).  Every check must report the same findings; an analysis error (vanished anchor) is listed separately:
it is the designed fail-closed answer when a role that is located by its name disappears, not a VIOLATION."""
import ast, importlib, os, sys, collections
from concurrent.futures import ProcessPoolExecutor
V = os.path.dirname(os.path.dirname(os.path.abspath(__file__)))
sys.path.insert(0, V)
SRC = "/repo/src"
PROPS = sorted(f[:-3].upper() for f in os.listdir(os.path.join(V, "rules")) if f.startswith("c") and f[1:-3].isdigit())


def sources():
    out = {}
    for root, _, files in os.walk(os.path.join(SRC, "easynetwork")):
        for f in files:
            if f.endswith(".py"):
                p = os.path.join(root, f)
                out["src/" + os.path.relpath(p, SRC)] = open(p).read()
    return out


def private_names(srcs):
    names = collections.Counter()
    for rel, s in srcs.items():
        t = ast.parse(s)
        for c in [n for n in ast.walk(t) if isinstance(n, ast.ClassDef)]:
            for n in c.body:
                if isinstance(n, (ast.FunctionDef, ast.AsyncFunctionDef)):
                    names[n.name] += 1
                    for x in ast.walk(n):
                        if isinstance(x, ast.Attribute) and isinstance(x.ctx, ast.Store) and isinstance(x.value, ast.Name) and x.value.id == "self":
                            names[x.attr] += 1
                elif isinstance(n, ast.AnnAssign) and isinstance(n.target, ast.Name):
                    names[n.target.id] += 1
    return sorted(n for n in names if n.startswith("_") and not (n.startswith("__") and n.endswith("__")))


def rename(src, old, new):
    t = ast.parse(src)
    hit = False
    for n in ast.walk(t):
        if isinstance(n, ast.Attribute) and n.attr == old:
            n.attr = new; hit = True
        elif isinstance(n, (ast.FunctionDef, ast.AsyncFunctionDef)) and n.name == old:
            n.name = new; hit = True
        elif isinstance(n, ast.keyword) and n.arg == old:
            n.arg = new; hit = True
        elif isinstance(n, ast.AnnAssign) and isinstance(n.target, ast.Name) and n.target.id == old:
            n.target.id = new; hit = True
        elif isinstance(n, ast.Assign) and any(isinstance(x, ast.Name) and x.id == "__slots__" for x in n.targets):
            for c in ast.walk(n.value):
                if isinstance(c, ast.Constant) and c.value == old:
                    c.value = new; hit = True
        elif isinstance(n, ast.Name) and n.id == old:  # class-body references to a renamed method (decorators, aliases)
            n.id = new; hit = True
    return (ast.unparse(t) + "\n") if hit else None


def findings(prop, overlay):
    from sa.engine import Engine
    from sa.report import Run
    mod = importlib.import_module(f"rules.{prop.lower()}")
    eng = Engine(None, overlay)
    run = Run(prop, "twin"); run.quiet = True
    mod.run(eng, run)
    return {(f.rule, f.function.replace("_rn", "")) for f in run.findings}


def job(args):
    name, prop, base = args
    srcs = sources()
    ov = {}
    for rel, s in srcs.items():
        if name in s:
            r = rename(s, name, name + "_rn")
            if r is not None:
                ov[rel] = r
    try:
        got = findings(prop, ov)
    except Exception as e:  # noqa: BLE001
        return name, prop, "ERROR", f"{type(e).__name__}: {str(e)[:160]}"
    if got != base:
        return name, prop, "DIFF", f"+{sorted(got - base)[:3]} -{sorted(base - got)[:3]}"
    return name, prop, "same", ""


def main():
    srcs = sources()
    # the printed form of the unchanged tree is the reference (ast.unparse drops comments)
    base = {}
    ov0 = {rel: ast.unparse(ast.parse(s)) + "\n" for rel, s in srcs.items()}
    for p in PROPS:
        base[p] = findings(p, ov0)
    names = private_names(srcs)
    write = "--write" in sys.argv
    sel = [a for a in sys.argv[1:] if not a.startswith("--")]
    if sel:
        names = [n for n in names if n in sel]
    jobs = [(n, p, base[p]) for n in names for p in PROPS]
    res = collections.Counter()
    byname = collections.defaultdict(list)
    with ProcessPoolExecutor(int(os.environ.get("JOBS", "14"))) as ex:
        for name, prop, st, msg in ex.map(job, jobs, chunksize=4):
            res[st] += 1
            if st != "same":
                byname[(st, name)].append((prop, msg))
    if write and not sel:
        import json
        table = collections.defaultdict(list)
        for (st, name), lst in sorted(byname.items()):
            for prop, _ in lst:
                table[prop].append(name)
        json.dump({k: sorted(set(v)) for k, v in sorted(table.items())}, open(os.path.join(V, "anchor_names.json"), "w"), indent=1)
        print("wrote anchor_names.json:", {k: len(set(v)) for k, v in sorted(table.items())})
    for (st, name), lst in sorted(byname.items()):
        print(st, name, " ".join(p for p, _ in lst), "|", lst[0][1][:200])
    print(f"{len(names)} private names x {len(PROPS)} checks: {dict(res)}")


if __name__ == "__main__":
    main()
