#!/bin/bash
# copy round-N deliveries (/tmp/seed_outN/<PID>/<i>) into /tmp/seed_out/<PID>/<i + 3*(N-1)> so that the validation tools see them
n=${1:-2}; shift
# usage: import_round.sh N PID [PID...]   (only properties whose agent has reported completion)
for pidsel in "$@"; do for d in /tmp/seed_out$n/$pidsel/[0-9]; do
  pid=$(basename $(dirname $d)); i=$(basename $d); j=$((i + 3*(n-1)))
  [ -f $d/patch.diff ] && [ -f $d/meta.json ] || continue
  [ -d /tmp/seed_out/$pid/$j ] && continue
  mkdir -p /tmp/seed_out/$pid/$j && cp $d/patch.diff $d/meta.json /tmp/seed_out/$pid/$j/ && cp $d/demo.py /tmp/seed_out/$pid/$j/ 2>/dev/null; cp $d/test_demo.py /tmp/seed_out/$pid/$j/ 2>/dev/null
  echo "imported $pid/$i -> $pid/$j"
done; done
