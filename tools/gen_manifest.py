#!/venv/bin/python
"""Regenerate /verif/MANIFEST.json from the rule modules that exist (rules/cNN.py with a CLAIM dict)."""
import importlib, json, os, sys
HERE = os.path.dirname(os.path.dirname(os.path.abspath(__file__)))
sys.path.insert(0, HERE)
props = [json.loads(l) for l in open(os.path.join(HERE, "properties.jsonl"))]
NA = {
    "C13": "operational semantics of nested cancel scopes composed with CPython's Task cancel/uncancel counters, _must_cancel and event-loop callback order, over arbitrary nested programs: a relation between runtime counters and message strings with no sound static abstraction in reach of an AST/CFG analysis (DESIGN.md section 4)",
}
checks = []
na = []
for p in props:
    pid = p["id"]
    path = os.path.join(HERE, "rules", pid.lower() + ".py")
    claim = None
    if os.path.exists(path) and pid not in NA:
        mod = importlib.import_module(f"rules.{pid.lower()}")
        claim = getattr(mod, "CLAIM", None)
    if claim is None:
        na.append({"property_id": pid, "reason": NA.get(pid, "no static rule set built for this property (yet); not claimed")})
        continue
    checks.append({
        "property_id": pid,
        "quick_cmd": f"/venv/bin/python /verif/check {pid} --tier quick",
        "thorough_cmd": f"/venv/bin/python /verif/check {pid} --tier thorough",
        "evidence_file": f"/verif/evidence/{pid}.json",
        "replay_cmd_template": "/venv/bin/python /verif/check --replay {path}",
        "engine": "sa",
        "level_claimed": {"category": "other", "text": claim["text"], "design_ref": f"DESIGN.md section 3, {pid}"},
        "level_note": claim["note"],
        "technique": claim["technique"],
    })
man = {
    "version": 1,
    "setup_cmd": "true",
    "hooks": {
        "guard": "EASYNETWORK_VERIF",
        "enable": "no hooks are inserted into /repo: the checks read /repo's working tree through ast only and never import or run it",
        "baseline_off_cmd": "cd /repo && /venv/bin/python -m pytest -ra -q -p no:cacheprovider --timeout=900 --continue-on-collection-errors",
        "source_commits": [],
        "add_only": True,
    },
    "engines": [{
        "name": "sa", "path": "/verif/sa",
        "serves_properties": [c["property_id"] for c in checks],
        "kind_free_text": "repository-specific static analysis: ast program database with name mangling and MRO, annotation-driven type/call resolution, exception-class lattice, structured exception-aware abstract interpreter (typestate/ownership/ordering/atomic-section rules), interprocedural may-suspend/may-raise summaries; self-tested on AST-computed mutants and benign twins of the current tree in the thorough tier",
    }],
    "checks": checks,
    "notes": "All claimed checks decide structural clauses that are necessary conditions of the property (see each level_claimed.text and the not_decided list in the evidence); exit 2 + ANALYSIS-ERROR means the analysis could not run (anchor vanished), never a verdict.",
    "not_applicable": na,
}
json.dump(man, open(os.path.join(HERE, "MANIFEST.json"), "w"), indent=1)
print("claimed:", [c["property_id"] for c in checks]); print("not_applicable:", [n["property_id"] for n in na])
