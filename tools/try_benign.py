#!/venv/bin/python
"""try_benign.py [DIR ...]: overlay each behaviour-preserving refactoring (DIR/patch.diff, default: every /tmp/benign_out/C*/[0-9]) on /repo and run
ALL checks; prints every new finding or analysis error - each one is a false alarm of the machinery (or a refactoring that is not benign)."""
import glob, json, os, sys
from concurrent.futures import ProcessPoolExecutor
here = os.path.dirname(os.path.abspath(__file__))
sys.path.insert(0, os.path.dirname(here))
src = open(os.path.join(here, "recheck_seeds.py")).read().replace("\nmain()\n", "\n")
ns = {"__file__": os.path.join(here, "recheck_seeds.py"), "__name__": "rc"}
exec(compile(src, "rc", "exec"), ns)
PROPS = [f"C{i:02d}" for i in range(1, 21) if i != 13]


def one(args):
    d, p = args
    ov, err = ns["overlay_for"](f"{d}/patch.diff")
    if err:
        return d, p, None, f"patch: {err}"
    import importlib
    from sa.engine import Engine
    from sa.report import Run, load_known, _match_known
    try:
        mod = importlib.import_module(f"rules.{p.lower()}")
        run = Run(p, "benign"); run.quiet = True
        mod.run(Engine(None, ov), run)
        known = load_known()
        new = [f for f in run.findings if _match_known(known, f) is None]
        # a recorded defect that the refactoring merely moved (same property, rule and function, another statement) is still a true
        # report about that code, not a false alarm
        moved = [f for f in new if any(k.get("property") == f.prop and k.get("rule") == f.rule and k.get("function") == f.function for k in known)]
        new = [f for f in new if f not in moved]
        return d, p, [(f.rule, f.function.split(":")[-1], f.statement[:50], f.message[:160]) for f in new], None
    except Exception as exc:  # noqa: BLE001
        return d, p, None, f"{type(exc).__name__}: {exc}"


def main():
    dirs = sys.argv[1:] or sorted(glob.glob("/verif/benign/C*"))
    dirs = [os.path.abspath(d) for d in dirs if os.path.exists(f"{d}/patch.diff")]
    jobs = [(d, p) for d in dirs for p in PROPS]
    bad = 0
    with ProcessPoolExecutor(max_workers=int(os.environ.get("JOBS", "8"))) as ex:
        for d, p, new, err in ex.map(one, jobs):
            if err:
                bad += 1
                print(f"{d} {p} ERROR {err[:300]}")
            elif new:
                bad += 1
                for f in new:
                    print(f"{d} {p} FINDING {f}")
    print(f"{len(dirs)} refactorings x {len(PROPS)} checks: {bad} (refactoring, check) pairs alarmed")


main()
