#!/venv/bin/python
"""Print the prompt given to a seeding sub-agent for one property (only the property text + its worktree)."""
import json, sys
pid = sys.argv[1]; n = sys.argv[2] if len(sys.argv) > 2 else "2"
hint = sys.argv[3] if len(sys.argv) > 3 else ""
for l in open('/verif/properties.jsonl'):
    p = json.loads(l)
    if p['id'] == pid: break
wt = f"/tmp/seed_wt_{pid}"
print(f"""You are helping evaluate a verification effort for the Python library EasyNetwork (francis-clairicia/EasyNetwork): a pure-Python TCP/UDP client/server library with incremental packet serializers, TLS transports, and an asyncio/trio backend abstraction.

You have your own scratch git worktree of the repository at {wt} (source under {wt}/src/easynetwork, tests under {wt}/tests). Work ONLY inside {wt} and /tmp/seed_out/{pid}/ . Do NOT read, list or touch /verif or /repo. Python to use: /venv/bin/python (3.12; the package is installed editable from another checkout, so ALWAYS run with PYTHONPATH={wt}/src so that your worktree's code is what is imported). There is no network. `trio`, `cbor2`, `msgpack` are not installed.

Here is a behavioural property of the library that must hold:

  id: {p['id']}
  title: {p['title']}
  statement: {p['statement']}
  quantifier: {p['quantifier']['text']}
  relevant files: {', '.join(p['anchors']['files'])}

YOUR TASK: produce {n} DIFFERENT, independent source changes (each a separate small patch against the pristine worktree) to src/easynetwork that each BREAK this property, while (a) the package still imports/compiles, and (b) the existing test suite still passes. Each change must look like a plausible, realistic regression a maintainer could introduce (a refactor slip, an over-eager optimisation, a dropped branch, a wrong ordering, a narrowed except clause, ...), NOT sabotage that ordinary use would expose at once. Prefer changes that need something specific to manifest: a particular interleaving or cancellation point, a fault at a particular moment, a multi-step sequence of operations, an unusual input or chunking, or two cooperating sites that each look fine alone. {hint}

For each change i (1..{n}) deliver in /tmp/seed_out/{pid}/<i>/ :
  - patch.diff : `git diff` of the change against the pristine worktree (apply-able with `git apply` at the repo root; only files under src/).
  - demo.py (or test_demo.py): a small self-contained program that exercises the REAL library code (no mocking of the code under test; fake sockets/transports are fine) and exits non-zero / fails WITH the change applied and exits 0 / passes WITHOUT it. It must take the source dir from PYTHONPATH, run in well under 60 s, and print a one-line explanation on failure.
  - meta.json : {{"property": "{pid}", "summary": "<what was changed, 1-2 sentences>", "needs": "<what specific input/schedule/fault/sequence is needed for it to manifest>", "files": [...], "function": "<qualified function(s) changed>"}}

How to validate (you MUST do all of this for each change, from a pristine tree each time: `git -C {wt} checkout -- . && git -C {wt} clean -fdq src`):
  1. without the patch: `PYTHONPATH={wt}/src /venv/bin/python demo.py` exits 0.
  2. apply the patch; the demo now fails.
  3. with the patch applied, the pinned test-suite still passes: run `/venv/bin/python /tmp/seedtools/baseline.py {wt} -n 6` (about 1-2 minutes; it runs pytest in {wt} and compares with the recorded list of 6710 stable-passing tests; the last line must say `missing=0`. Many other tests error/skip in this sandbox on the pristine tree too - that is expected and irrelevant; only `missing=0` matters). If some stable tests fail, the change is not acceptable: rework it or pick another one.
  4. restore the pristine tree before starting the next change, and leave the worktree pristine when you finish.

Do not commit anything. Do not modify tests. Keep each patch small (typically 1-15 changed lines). When done, reply with a short list: for each change the summary, the `needs`, and the validation results (demo without/with patch, baseline missing count). If you cannot find {n} valid changes, deliver fewer and say why.""")
