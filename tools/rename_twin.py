#!/venv/bin/python
"""Benign stress test: in one module at a time, every function's assigned locals are renamed consistently (x -> x_r).
Every check must report the same findings and must not fail with an analysis error."""
import ast, importlib, os, sys
from concurrent.futures import ProcessPoolExecutor
V = os.path.dirname(os.path.dirname(os.path.abspath(__file__)))
sys.path.insert(0, V)

PROPS = sorted(f[:-3].upper() for f in os.listdir(os.path.join(V, "rules")) if f.startswith("c") and f[1:-3].isdigit())


def rename_locals(tree):
    for fn in [n for n in ast.walk(tree) if isinstance(n, (ast.FunctionDef, ast.AsyncFunctionDef))]:
        params = {a.arg for a in fn.args.posonlyargs + fn.args.args + fn.args.kwonlyargs} | ({fn.args.vararg.arg} if fn.args.vararg else set()) | ({fn.args.kwarg.arg} if fn.args.kwarg else set())
        declared = set()
        own = []
        todo = list(fn.body)
        while todo:
            n = todo.pop()
            own.append(n)
            if isinstance(n, (ast.FunctionDef, ast.AsyncFunctionDef, ast.ClassDef, ast.Lambda)):
                continue
            todo.extend(ast.iter_child_nodes(n))
        for n in own:
            if isinstance(n, (ast.Global, ast.Nonlocal)):
                declared |= set(n.names)
        locs = set()
        for n in own:
            if isinstance(n, ast.Name) and isinstance(n.ctx, ast.Store):
                locs.add(n.id)
            elif isinstance(n, ast.ExceptHandler) and n.name:
                locs.add(n.name)
            elif isinstance(n, (ast.MatchAs, ast.MatchStar)) and n.name:
                locs.add(n.name)
        locs -= params | declared | {"_", "__class__"}
        locs = {l for l in locs if not l.endswith("_r") and not l.startswith("__")}
        if not locs:
            continue
        def shadows(sub):
            """names re-bound as parameters / plain locals by a nested function (not declared nonlocal there)"""
            ps = {a.arg for a in sub.args.posonlyargs + sub.args.args + sub.args.kwonlyargs} if not isinstance(sub, ast.Lambda) else {a.arg for a in sub.args.args}
            if isinstance(sub, ast.Lambda):
                return ps
            nl = {x for n in ast.walk(sub) if isinstance(n, ast.Nonlocal) for x in n.names}
            st = {n.id for n in ast.walk(sub) if isinstance(n, ast.Name) and isinstance(n.ctx, ast.Store)}
            return ps | (st - nl)

        def visit(node, active):
            for n in ast.iter_child_nodes(node):
                if isinstance(n, (ast.FunctionDef, ast.AsyncFunctionDef, ast.Lambda)):
                    visit(n, active - shadows(n))
                    continue
                if isinstance(n, ast.Name) and n.id in active:
                    n.id += "_r"
                elif isinstance(n, ast.ExceptHandler) and n.name in active:
                    n.name += "_r"
                elif isinstance(n, (ast.MatchAs, ast.MatchStar)) and n.name in active:
                    n.name += "_r"
                elif isinstance(n, ast.Nonlocal):
                    n.names = [x + "_r" if x in active else x for x in n.names]
                visit(n, active)

        visit(fn, set(locs))
    return tree


def findings(prop, overlay):
    from sa.engine import Engine
    from sa.report import Run
    mod = importlib.import_module(f"rules.{prop.lower()}")
    eng = Engine(None, overlay)
    run = Run(prop, "twin"); run.quiet = True
    mod.run(eng, run)
    return {(f.rule, f.function) for f in run.findings}


def job(args):
    rel, src, prop, base = args
    try:
        new = ast.unparse(rename_locals(ast.parse(src))) + "\n"
        compile(new, rel, "exec")
        got = findings(prop, {rel: new})
        return rel, prop, None if got == base else f"DIFF +{sorted(got - base)} -{sorted(base - got)}"
    except Exception as exc:  # noqa: BLE001
        return rel, prop, f"{type(exc).__name__}: {str(exc)[:160]}"


def main():
    from sa.engine import Engine
    eng = Engine()
    base = {p: findings(p, None) for p in PROPS}
    work = [(m.relpath, m.source, p, base[p]) for m in eng.db.modules.values() if len(m.source) > 1500 for p in PROPS]
    bad = 0
    with ProcessPoolExecutor(max_workers=16) as ex:
        for rel, prop, err in ex.map(job, work, chunksize=8):
            if err:
                bad += 1
                print(prop, rel.replace("src/easynetwork/", ""), err)
    print(f"{len(work)} (module, check) pairs, {bad} differ")

main()
