#!/venv/bin/python
"""Global benign twin: every module re-printed by ast.unparse (all comments, blank lines and line numbers change).
Every check must report exactly the same findings (by rule, function, statement) as on the real tree."""
import ast, importlib, os, sys
V = os.path.dirname(os.path.dirname(os.path.abspath(__file__)))
sys.path.insert(0, V)
from sa.engine import Engine
from sa.report import Run

def findings(prop, overlay):
    mod = importlib.import_module(f"rules.{prop.lower()}")
    eng = Engine(None, overlay)
    run = Run(prop, "twin"); run.quiet = True
    mod.run(eng, run)
    return {(f.rule, f.function, f.statement) for f in run.findings}, len(run.obligations)

base = Engine()
overlay = {m.relpath: ast.unparse(ast.parse(m.source)) + "\n" for m in base.db.modules.values()}
bad = 0
for f in sorted(os.listdir(os.path.join(V, "rules"))):
    if not (f.startswith("c") and f[1:-3].isdigit()):
        continue
    p = f[:-3].upper()
    try:
        a, na = findings(p, None)
        b, nb = findings(p, overlay)
        same = a == b and na == nb
        print(p, "same" if same else f"DIFF only-real={sorted(a-b)} only-twin={sorted(b-a)} obligations {na}/{nb}")
        bad += not same
    except Exception as exc:
        print(p, "ERROR", type(exc).__name__, exc); bad += 1
sys.exit(1 if bad else 0)
