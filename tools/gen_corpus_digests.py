#!/venv/bin/python
"""Record the sha256 of every source file of the pinned tree (/repo HEAD working tree) in /verif/corpus_digests.json.
The self-test corpora (MUTANTS / BENIGN in rules/*.py, seeded/, benign/) are defined relative to these files: on a tree where a
file differs, the variants touching it are skipped instead of being reported as machinery errors (sa/selftest.py).
Re-run after every `fix:` commit in /repo."""
import hashlib, json, os, subprocess
root = "/repo/src/easynetwork"
out = {}
for d, _, fs in os.walk(root):
    for f in fs:
        if f.endswith(".py"):
            p = os.path.join(d, f)
            out[os.path.relpath(p, "/repo")] = hashlib.sha256(open(p, "rb").read()).hexdigest()
head = subprocess.run(["git", "-C", "/repo", "log", "-1", "--format=%h"], capture_output=True, text=True).stdout.strip()
json.dump({"repo_head": head, "files": out}, open("/verif/corpus_digests.json", "w"), indent=0, sort_keys=True)
print(len(out), "files at", head)
