#!/venv/bin/python
"""try_seed.py PID I [PROP ...]: overlay /tmp/seed_out/PID/I/patch.diff (or seeded/PID-I) on /repo and print which rules fire."""
import json, os, sys
here = os.path.dirname(os.path.abspath(__file__))
src = open(os.path.join(here, "recheck_seeds.py")).read().replace("\nmain()\n", "\n")
ns = {"__file__": os.path.join(here, "recheck_seeds.py"), "__name__": "rc"}
exec(compile(src, "rc", "exec"), ns)
pid, i = sys.argv[1], sys.argv[2]
props = sys.argv[3:] or [pid]
d = f"/tmp/seed_out/{pid}/{i}"
if not os.path.isdir(d):
    d = f"/verif/seeded/{pid}-{i}"
ov, err = ns["overlay_for"](f"{d}/patch.diff")
if err:
    print("overlay error", err); sys.exit(2)
print(json.load(open(f"{d}/meta.json")).get("summary", "")[:160])
verbose = os.environ.get("V")
for p in props:
    if verbose:
        import importlib
        sys.path.insert(0, "/verif")
        from sa.engine import Engine
        from sa.report import Run
        mod = importlib.import_module(f"rules.{p.lower()}")
        run = Run(p, "seed"); run.quiet = True
        mod.run(Engine(None, ov), run)
        for f in run.findings:
            print("   ", f.rule, f.function.split(":")[-1], "|", f.statement[:60], "|", f.message[:200])
        continue
    sid, prop, rules, e = ns["job"]((f"{pid}-{i}", p, ov))
    print(" ", p, "->", rules or e or "-")
