#!/venv/bin/python
"""Validate a seeded change delivered by a sub-agent and file it under /verif/seeded/<PID>-<i>/.

usage: validate_seed.py PID I [--props C01,C02,...] [--no-baseline]
Steps (all in a scratch worktree under /tmp, removed afterwards):
  1. demo on the pristine tree must exit 0;  2. patch applies; demo must now fail;
  3. pinned suite with the patch: every stable_pass test still passes (tools/baseline.py);
  4. run /verif/check for the given properties (default: the seeded property) on the patched tree.
"""
import json, os, shutil, subprocess, sys

def sh(cmd, **kw):
    return subprocess.run(cmd, shell=True, text=True, stdout=subprocess.PIPE, stderr=subprocess.STDOUT, **kw)

def main():
    pid, i = sys.argv[1], sys.argv[2]
    props = [pid]
    baseline = True
    for a in sys.argv[3:]:
        if a.startswith("--props"):
            props = a.split("=", 1)[1].split(",")
        if a == "--no-baseline":
            baseline = False
    filed = "--filed" in sys.argv  # re-validate an already filed seed in place (strict baseline, current HEAD)
    src = f"/tmp/seed_out/{pid}/{i}"
    if filed or not os.path.isdir(src):
        src = f"/verif/seeded/{pid}-{i}"
    wt = f"/tmp/val_wt_{pid}_{i}"
    sh(f"git -C /repo worktree remove --force {wt}")
    r = sh(f"git -C /repo worktree add --detach {wt} HEAD")
    assert r.returncode == 0, r.stdout
    try:
        shutil.copy("/repo/src/easynetwork/version.py", f"{wt}/src/easynetwork/version.py")
        demo = "demo.py" if os.path.exists(f"{src}/demo.py") else "test_demo.py"
        env = dict(os.environ, PYTHONPATH=f"{wt}/src")
        runner = f"/venv/bin/python {src}/{demo}" if demo == "demo.py" else f"/venv/bin/python -m pytest -q -p no:cacheprovider {src}/{demo}"
        r0 = sh(f"timeout 120 {runner}", env=env, cwd=wt)
        ap = sh(f"git -C {wt} apply {src}/patch.diff")
        r1 = sh(f"timeout 120 {runner}", env=env, cwd=wt)
        res = {"demo_pristine_exit": r0.returncode, "patch_applies": ap.returncode == 0, "demo_patched_exit": r1.returncode,
               "demo_patched_tail": r1.stdout.strip().splitlines()[-3:]}
        if baseline:
            rb = sh(f"/venv/bin/python /verif/tools/baseline.py {wt} -n 5")
            res["baseline_tail"] = rb.stdout.strip().splitlines()[-1:]
            res["baseline_ok"] = rb.returncode == 0
        caught = {}
        for p in props:
            rc = sh(f"/venv/bin/python /verif/check {p} --repo {wt} --no-evidence")
            viol = [l for l in rc.stdout.splitlines() if l.startswith("VIOLATION") or "ANALYSIS-ERROR" in l]
            rules = sorted({l.split()[1] for l in rc.stdout.splitlines() if l.startswith("src/") and len(l.split()) > 1})
            caught[p] = {"exit": rc.returncode, "violations": len(viol), "rules": rules}
        res["checks"] = caught
        valid = res["demo_pristine_exit"] == 0 and res["patch_applies"] and res["demo_patched_exit"] != 0 and res.get("baseline_ok", True)
        res["valid"] = valid
        res["strict_baseline"] = True
        res["base"] = sh("git -C /repo log -1 --format=%h").stdout.strip()
        print(json.dumps(res, indent=1))
        if filed:
            mp = f"{src}/meta.json"
            meta = json.load(open(mp))
            meta["validation"] = {k: v for k, v in res.items() if k != "checks"}
            json.dump(meta, open(mp, "w"), indent=1)
        elif valid and src.startswith("/tmp/seed_out"):
            dst = f"/verif/seeded/{pid}-{i}"
            os.makedirs(dst, exist_ok=True)
            for f in os.listdir(src):
                if os.path.isfile(f"{src}/{f}"):
                    shutil.copy(f"{src}/{f}", dst)
            meta = json.load(open(f"{dst}/meta.json")) if os.path.exists(f"{dst}/meta.json") else {}
            meta["validation"] = {k: v for k, v in res.items() if k != "checks"}
            meta["validation"]["commands"] = [f"{runner} (pristine worktree)", "git apply patch.diff", f"{runner} (patched)", "tools/baseline.py <worktree> -n 5 (6710 stable tests)"]
            json.dump(meta, open(f"{dst}/meta.json", "w"), indent=1)
    finally:
        sh(f"git -C /repo worktree remove --force {wt}")
        shutil.rmtree(wt, ignore_errors=True)

main()
