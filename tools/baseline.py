#!/venv/bin/python
"""Run the pinned test-suite of a checkout and compare with /root/.vp/BASELINE.json stable_pass.

usage: baseline.py [repo_dir] [-n JOBS] [-k EXPR]
Exit 0 iff every stable_pass test passed (or, with -k, every selected stable_pass test).
Not part of any registered check (running tests is not static analysis); used to validate fix: commits
and seeded changes.
"""
import json, subprocess, sys, tempfile, os, xml.etree.ElementTree as ET

def main():
    args = sys.argv[1:]
    repo = "/repo"
    jobs = "12"
    extra = []
    i = 0
    while i < len(args):
        if args[i] == "-n":
            jobs = args[i + 1]; i += 2
        elif args[i] == "-k":
            extra += ["-k", args[i + 1]]; i += 2
        elif args[i] == "--":
            extra += args[i + 1:]; break
        else:
            repo = args[i]; i += 1
    base = json.load(open("/root/.vp/BASELINE.json"))
    stable = set(base["stable_pass"])
    fd, xml = tempfile.mkstemp(suffix=".xml"); os.close(fd)
    cmd = ["/venv/bin/python", "-m", "pytest", "-q", "-p", "no:cacheprovider", "--timeout=900",
           "--continue-on-collection-errors", "-n", jobs, f"--junitxml={xml}"] + extra
    env = dict(os.environ, PYTHONPATH=os.path.join(repo, "src"))
    p = subprocess.run(cmd, cwd=repo, env=env, stdout=subprocess.PIPE, stderr=subprocess.STDOUT, text=True)
    tail = p.stdout.strip().splitlines()[-3:]
    passed = set(); failed = set()
    for tc in ET.parse(xml).getroot().iter("testcase"):
        tid = f"{tc.get('classname')}::{tc.get('name')}"
        bad = any(ch.tag in ("failure", "error", "skipped") for ch in tc)
        (failed if bad else passed).add(tid)
    os.unlink(xml)
    # strict: a test counts as passed only if none of its junit entries (call / teardown / xdist duplicates) is a failure or error
    passed -= failed
    selected = stable if not extra else stable & (passed | failed)
    missing = sorted(selected - passed)
    print("\n".join(tail))
    print(f"stable_pass={len(stable)} selected={len(selected)} passed_of_selected={len(selected & passed)} missing={len(missing)}")
    for m in missing[:40]:
        print("  NOT-PASSED", m)
    return 1 if missing else 0

sys.exit(main())
