#!/venv/bin/python
"""Run every registered check against every filed seeded change (/verif/seeded/<ID>-<i>/patch.diff) and record which
rules catch it in its meta.json (`caught_by`).  Uses the overlay mechanism of the engine: nothing is written to /repo.

usage: recheck_seeds.py [ID-i ...]
"""
import json, os, subprocess, sys, tempfile, shutil
from concurrent.futures import ProcessPoolExecutor

VERIF = os.path.dirname(os.path.dirname(os.path.abspath(__file__)))
sys.path.insert(0, VERIF)
PROPS = sorted(f[:-3].upper() for f in os.listdir(os.path.join(VERIF, "rules")) if f.startswith("c") and f[1:-3].isdigit())


from sa.patchov import overlay_for  # noqa: E402


def job(args):
    sid, prop, overlay = args
    import importlib
    from sa.engine import Engine
    from sa.report import Run, load_known, _match_known
    try:
        mod = importlib.import_module(f"rules.{prop.lower()}")
        eng = Engine(None, overlay)
        run = Run(prop, "seed")
        run.quiet = True
        mod.run(eng, run)
        known = load_known()
        new = [f for f in run.findings if _match_known(known, f) is None]
        return sid, prop, sorted({f.rule for f in new}), None
    except Exception as exc:  # noqa: BLE001
        return sid, prop, [], f"{type(exc).__name__}: {exc}"


def main():
    ids = sys.argv[1:] or sorted(x for x in os.listdir(os.path.join(VERIF, "seeded")) if os.path.isdir(os.path.join(VERIF, "seeded", x)))
    work = []
    bad_patch = {}
    for sid in ids:
        d = os.path.join(VERIF, "seeded", sid)
        ov, err = overlay_for(os.path.join(d, "patch.diff"))
        if ov is None:
            bad_patch[sid] = err
            continue
        for p in PROPS:
            work.append((sid, p, ov))
    res = {}
    with ProcessPoolExecutor(max_workers=16) as ex:
        for sid, prop, rules, err in ex.map(job, work):
            r = res.setdefault(sid, {"caught_by": {}, "analysis_errors": {}})
            if err:
                r["analysis_errors"][prop] = err
            elif rules:
                r["caught_by"][prop] = rules
    for sid in ids:
        d = os.path.join(VERIF, "seeded", sid)
        mp = os.path.join(d, "meta.json")
        meta = json.load(open(mp)) if os.path.exists(mp) else {}
        if sid in bad_patch:
            meta["caught_by"] = None
            meta["recheck_error"] = "patch does not apply to the current tree: " + bad_patch[sid][:200]
        else:
            meta["caught_by"] = res.get(sid, {}).get("caught_by", {})
            meta.pop("analysis_errors", None)
            if res.get(sid, {}).get("analysis_errors"):
                meta["analysis_errors"] = res[sid]["analysis_errors"]
            meta.pop("recheck_error", None)
        json.dump(meta, open(mp, "w"), indent=1)
        cb = meta["caught_by"]
        print(f"{sid}: {'PATCH-ERROR' if cb is None else ('MISSED' if not cb else cb)}" + (f"  ERR {meta.get('analysis_errors')}" if meta.get("analysis_errors") else ""))


main()
