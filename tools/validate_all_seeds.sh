#!/bin/bash
# Validate every delivered-but-not-yet-filed seed under /tmp/seed_out (3 at a time): demo passes on the pristine
# tree, fails with the patch, pinned suite still passes with the patch.  Valid seeds are filed under /verif/seeded/.
# Which checks catch them is recorded afterwards by tools/recheck_seeds.py.
cd /verif
todo=""
for d in /tmp/seed_out/C*/[0-9]*; do
  pid=$(basename $(dirname $d)); i=$(basename $d)
  [ -f $d/patch.diff ] || continue
  [ -d /verif/seeded/$pid-$i ] && continue
  [ -f $d/meta.json ] || continue
  todo="$todo $pid:$i"
done
echo "TODO:$todo"
one() {
  p=$1; pid=${p%%:*}; i=${p##*:}
  out=$(tools/validate_seed.py $pid $i --props=$pid 2>&1 | grep -v WARNING | /venv/bin/python -c '
import sys,json
t=sys.stdin.read()
try:
    d=json.loads(t[t.index("{"):]); print("valid=",d["valid"],"demo",d["demo_pristine_exit"],d["demo_patched_exit"],"applies",d["patch_applies"],"baseline",d.get("baseline_ok"))
except Exception as e: print("PARSE-ERROR",e,t[-300:])
')
  echo "=== $pid/$i $out"
}
export -f one
for t in $todo; do echo $t; done | xargs -P ${JOBS:-3} -I{} bash -c 'one {}'
echo DONE
