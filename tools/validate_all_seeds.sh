#!/bin/bash
# validate every delivered seed under /tmp/seed_out and run all built checks against it
cd /verif
PROPS=$(ls rules | grep -E '^c[0-9]+\.py$' | sed 's/\.py//' | tr a-z A-Z | paste -sd, -)
for d in /tmp/seed_out/C*/[0-9]; do
  pid=$(basename $(dirname $d)); i=$(basename $d)
  [ -f $d/patch.diff ] || continue
  [ -f $d/meta.json ] || echo "{\"property\": \"$pid\", \"summary\": \"(meta.json not delivered by the sub-agent; see patch.diff)\", \"needs\": \"see demo.py\"}" > $d/meta.json
  echo "=== $pid/$i"
  tools/validate_seed.py $pid $i --props=$PROPS 2>&1 | /venv/bin/python -c "
import sys,json
t=sys.stdin.read()
try:
    d=json.loads(t[t.index('{'):])
    caught={p:v['rules'] for p,v in d['checks'].items() if v['exit']==1}
    broken={p for p,v in d['checks'].items() if v['exit']==2}
    print('valid=',d['valid'],'demo',d['demo_pristine_exit'],d['demo_patched_exit'],'baseline',d.get('baseline_ok'),'CAUGHT',caught,'BROKEN',sorted(broken))
except Exception as e:
    print('PARSE-ERROR', e, t[-400:])
"
done
