#!/venv/bin/python
"""Benign stress tests, one module at a time:
  temp   : `return <call/await expr>`  ->  `_ret = <expr>; return _ret`
  invert : `if not C: A else: B`       ->  `if C: B else: A`   (only when both arms exist)
Every check must report the same findings and must not fail with an analysis error."""
import ast, importlib, os, sys
from concurrent.futures import ProcessPoolExecutor
V = os.path.dirname(os.path.dirname(os.path.abspath(__file__)))
sys.path.insert(0, V)
PROPS = sorted(f[:-3].upper() for f in os.listdir(os.path.join(V, "rules")) if f.startswith("c") and f[1:-3].isdigit())


class Temp(ast.NodeTransformer):
    def _bodies(self, node):
        for field in ("body", "orelse", "finalbody"):
            lst = getattr(node, field, None)
            if isinstance(lst, list) and lst and isinstance(lst[0], ast.stmt):
                new = []
                for st in lst:
                    if isinstance(st, ast.Return) and isinstance(st.value, (ast.Call, ast.Await)) and not any(isinstance(x, (ast.Yield, ast.YieldFrom)) for x in ast.walk(st.value)):
                        new.append(ast.Assign(targets=[ast.Name(id="_ret", ctx=ast.Store())], value=st.value, lineno=st.lineno))
                        new.append(ast.Return(value=ast.Name(id="_ret", ctx=ast.Load())))
                    else:
                        new.append(st)
                setattr(node, field, new)

    def generic_visit(self, node):
        super().generic_visit(node)
        self._bodies(node)
        if isinstance(node, ast.Try):
            for h in node.handlers:
                self._bodies(h)
        return node


class Invert(ast.NodeTransformer):
    def visit_If(self, node):
        self.generic_visit(node)
        if isinstance(node.test, ast.UnaryOp) and isinstance(node.test.op, ast.Not) and node.orelse and not (len(node.orelse) == 1 and isinstance(node.orelse[0], ast.If)):
            node.test = node.test.operand
            node.body, node.orelse = node.orelse, node.body
        return node


def findings(prop, overlay):
    from sa.engine import Engine
    from sa.report import Run
    mod = importlib.import_module(f"rules.{prop.lower()}")
    eng = Engine(None, overlay)
    run = Run(prop, "twin"); run.quiet = True
    mod.run(eng, run)
    return {(f.rule, f.function) for f in run.findings}


def job(args):
    kind, rel, src, prop, base = args
    try:
        tree = ast.parse(src)
        tree = (Temp() if kind == "temp" else Invert()).visit(tree)
        ast.fix_missing_locations(tree)
        new = ast.unparse(tree) + "\n"
        if new == ast.unparse(ast.parse(src)) + "\n":
            return kind, rel, prop, None
        compile(new, rel, "exec")
        got = findings(prop, {rel: new})
        return kind, rel, prop, None if got == base else f"DIFF +{sorted(got - base)} -{sorted(base - got)}"
    except Exception as exc:  # noqa: BLE001
        return kind, rel, prop, f"{type(exc).__name__}: {str(exc)[:160]}"


def main():
    from sa.engine import Engine
    eng = Engine()
    base = {p: findings(p, None) for p in PROPS}
    kinds = sys.argv[1:] or ["temp", "invert"]
    work = [(k, m.relpath, m.source, p, base[p]) for k in kinds for m in eng.db.modules.values() if len(m.source) > 1500 for p in PROPS]
    bad = 0
    with ProcessPoolExecutor(max_workers=16) as ex:
        for kind, rel, prop, err in ex.map(job, work, chunksize=8):
            if err:
                bad += 1
                print(kind, prop, rel.replace("src/easynetwork/", ""), err)
    print(f"{len(work)} (transformation, module, check) triples, {bad} differ")

main()
