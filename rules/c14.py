"""C14 - closing releases the underlying resource at every cancellation point (DESIGN.md section 3, C14)."""
from __future__ import annotations

import ast

from sa.analyses.closing import CLOSE_METHODS, CloseAnalysis, CloserRegistry
from sa.db import AnalysisError, ClassInfo, FunctionInfo, dotted, mangle, norm_stmt, own_nodes
from sa.exc import CANCELLED
from sa.flow import Interp
from sa.summary import is_abstract_body

CLAIM = {
    "text": "Decides, for every close path of the package (all aclose/close/server_close methods of transport-like classes, clients and servers, the stapled-transport helpers, aclose_forcefully, TLS wrap(), the per-connection server tasks and the constructors that take over a socket), that on every exit edge - normal return, any exception out of any call, cancellation out of any await that can really suspend un-shielded - the close of each owned transport/socket has been invoked (gracefully or forcefully), directly, through a callee that is itself proven to close its argument, or through an ExitStack registration; that the closing flag is stored before the underlying close; that the event a second closer waits on is set on every exit of the first close and shared close-waiter futures are only awaited through asyncio.shield. Necessary structural condition of the property, decided for all cancellation points at once. close()/aclose() never takes a guard or lock that a receive method of the same class holds while waiting; AsyncTCPNetworkClient.aclose() cancels the pending connector before its first suspension point, and the connector stays registered while the race is awaited. Round 4: both async clients cancel the pending connector before dropping it and before their first suspension point; the asyncio stream adapter sets its write-buffer limit to zero, so close() frees the descriptor as soon as a send has completed (C20.zero). Round 5: no exemption for failures before the first await in functions that take a transport over (finding F9, fixed); the pending connector of both async clients stays registered while the attempt is awaited; the fair lock's waiter queue is trimmed by identity (C12.fifo).",
    "note": "Trusted: API tables (which calls cannot raise, which awaits are shielded), annotations for receiver types, cancel-scope semantics (a scope swallows only at its exit; cancelled_caught() correlates with that), task-group semantics. Not decided: promptness of a second close in time, OS-level release. Known findings F6a/F6b (AsyncTCP/UDP client aclose cancelled on the send-lock wait) are listed in known_findings.json.",
    "technique": "resource typestate (close-invoked) by abstract interpretation over an exception-aware structured CFG with interprocedural closer summaries, may-cancel summaries and a cancelled_caught() path refinement",
}

NOT_DECIDED = [
    "that a second close returns *promptly* (time)",
    "that the operating system actually released the descriptor after close() was invoked",
]


def closable_class(ci: ClassInfo) -> bool:
    return (ci.find_method("aclose") is not None or ci.find_method("close") is not None) and ci.find_method("is_closing") is not None


EXTERNAL_CLOSABLE = ("socket.socket", "ssl.SSLSocket", "asyncio.Transport", "asyncio.BaseTransport", "asyncio.DatagramTransport",
                     "asyncio.WriteTransport", "trio.SocketStream", "trio.SocketListener", "trio.socket.SocketType",
                     "asyncio.transports.Transport", "asyncio.transports.DatagramTransport", "asyncio.transports.BaseTransport")


def owned_fields(eng, fn: FunctionInfo) -> list[str]:
    """`self.<attr>` expressions (as written) of fields whose annotated type is closable."""
    ci = fn.cls
    selfn = fn.self_name
    if ci is None or selfn is None:
        return []
    out = []
    for c in ci.mro():
        for mattr, ann in c.fields.items():
            ts = eng.typer.ann_types(c.module, ann, c.methods.get("__init__"))
            ok = any((t.kind == "repo" and closable_class(t.ref)) or (t.kind == "ext" and t.ref in EXTERNAL_CLOSABLE) for t in ts)
            if ok:
                # write it the way the method writes it
                written = mattr
                prefix = "_" + c.name.lstrip("_") + "__"
                if mattr.startswith(prefix) and c is ci:
                    written = "__" + mattr[len(prefix):]
                elif mattr.startswith("_" + c.name.lstrip("_") + "__"):
                    continue  # private field of a base class: not reachable by name from here
                out.append(f"{selfn}.{written}")
    return out


def closed_exprs(eng, fn: FunctionInfo, registry) -> list[str]:
    """Expressions on which this function invokes a close on some path (direct, via closer function, via registration)."""
    out = []
    for n in own_nodes(fn.node):
        if isinstance(n, ast.Call):
            f = n.func
            if isinstance(f, ast.Attribute) and f.attr in CLOSE_METHODS:
                d = dotted(f.value)
                if d and d not in out and not d.startswith("super"):
                    out.append(d)
            for a in n.args:
                d = dotted(a)
                if d and d.endswith((".aclose", ".close")) and d.rsplit(".", 1)[0] not in out:
                    out.append(d.rsplit(".", 1)[0])
            cands = [(n, i, a) for i, a in enumerate(n.args)]
            if isinstance(f, ast.Attribute) and f.attr in ("push_async_callback", "callback") and len(n.args) > 1:
                fake = ast.Call(func=n.args[0], args=n.args[1:], keywords=[])
                cands += [(fake, i, a) for i, a in enumerate(fake.args)]
            for a in n.args:
                if isinstance(a, ast.Call):
                    cands += [(a, i, aa) for i, aa in enumerate(a.args)]
            for call, i, a in cands:
                d = dotted(a)
                if d and d not in out:
                    an = CloseAnalysis(eng, [d], registry)
                    an.fn = fn
                    if registry.is_closer(fn, call, i) or registry.is_closing_cm(fn, call, i):
                        out.append(d)
    return out


def own_closing_flags(fn: FunctionInfo) -> list[str]:
    selfn = fn.self_name
    if selfn is None or fn.cls is None:
        return []
    out = []
    for c in fn.cls.mro()[:1]:
        for mattr in list(c.fields) + list(c.field_values):
            low = mattr.lower()
            if low.endswith("closing") or low.endswith("__closed") or low.endswith("_closed"):
                prefix = "_" + c.name.lstrip("_") + "__"
                written = "__" + mattr[len(prefix):] if mattr.startswith(prefix) else mattr
                out.append(f"{selfn}.{written}")
    return out


def check_close_path(eng, run, registry, fn: FunctionInfo, tracked=None, rule="C14.own", is_cm=False, exits="all", late=()):
    if tracked is None:
        tracked = closed_exprs(eng, fn, registry)
        locals_ = {a.arg for a in fn.params()}
        tracked = [t for t in tracked if t.split(".")[0] in locals_ or t.split(".")[0] == (fn.self_name or "")]
        if not tracked:
            tracked = owned_fields(eng, fn)
    if not tracked:
        return None
    an = CloseAnalysis(eng, tracked, registry, own_flags=own_closing_flags(fn), is_cm=is_cm, late=late)
    # (no exemption for failures before the first await: a function that takes a transport over owns it from its first statement -
    # finding F9, wrap() creating the SSL object before the try block that closes the transport)
    it = Interp(an, fn)
    out = it.run()
    run.count("atoms_walked", it.atoms_walked)
    n_exits = 0
    bad = []
    for kind, tok, fmap in ([("return", None, out.ret)] if exits == "all" else []) + [("raise", t, m) for t, m in out.exc.items()]:
        for (inv, flags), trace in fmap.items():
            n_exits += 1
            if "precond" in flags:
                continue
            missing = [t for t in tracked if t not in inv]
            if missing:
                label = kind if tok is None else f"raise[{tok.split('.')[-1]}]"
                bad.append((label, missing, trace))
    seen = set()
    for label, missing, trace in bad:
        stmt = _stmt_at(fn, trace[-1]) if trace else fn.node
        key = (norm_stmt(stmt), tuple(missing), label)
        if key in seen:
            continue
        seen.add(key)
        run.finding(rule, fn, stmt, f"exit {label} leaves {', '.join(missing)} without its close having been invoked", trace)
    run.ob(rule, f"{fn.short}", not bad, tracked=tracked, exits=n_exits, exit_kinds=exits)
    # C14.flag: the object's own closing flag is stored before the underlying close is invoked
    if an.own_flags and an.flag_at_close and rule == "C14.own" and fn.name in ("aclose", "close"):
        stores = [n for n in own_nodes(fn.node) if isinstance(n, ast.Assign) and any(dotted(t) in an.own_flags for t in n.targets)]
        if stores:
            late_nodes = [n for n, ok in an.flag_at_close if not ok]
            for n in late_nodes[:1]:
                run.finding("C14.flag", fn, _stmt_at(fn, n.lineno), "the underlying close is invoked before the object's own closing flag is stored: a concurrent send/close does not see the object as closing")
            run.ob("C14.flag", fn.short, not late_nodes, flag=sorted(an.own_flags), close_sites=len(an.flag_at_close))
    return not bad


def _stmt_at(fn, line):
    best = None
    for n in own_nodes(fn.node):
        if isinstance(n, ast.stmt) and getattr(n, "lineno", -1) == line:
            if best is None or not isinstance(n, (ast.Try, ast.With, ast.AsyncWith, ast.For, ast.If, ast.While)):
                best = n
    return best if best is not None else fn.node


def close_paths(eng) -> list[FunctionInfo]:
    out = []
    for fn in eng.db.all_functions():
        if isinstance(fn.node, ast.Lambda) or fn.parent is not None:
            continue
        if fn.cls is not None and fn.name in ("aclose", "close", "server_close"):
            if fn.cls.find_method("is_closing") is None and fn.cls.find_method("is_closed") is None and not fn.cls.name.endswith(("Client", "Server", "ServerImpl")):
                continue  # not a transport-like object
            if is_abstract_body(fn) or fn.has_decorator("abstractmethod", "overload"):
                continue
            if any(b.split(".")[-1] == "Protocol" for b in fn.cls.external_bases):
                continue
            out.append(fn)
    return out


def run(eng, run):
    from sa.anchors import verify as _verify_anchor_names
    _verify_anchor_names(eng, run)
    run.not_decided += NOT_DECIDED
    registry = CloserRegistry(eng)
    n = 0
    for fn in close_paths(eng):
        r = check_close_path(eng, run, registry, fn)
        if r is not None:
            n += 1
    run.floor("C14.own close paths", n, 30)

    # ---- functions that receive (or create) a transport/socket and must close it on every exit / every failure
    db = eng.db
    srv = db.cls("lowlevel.api_async.servers.stream.AsyncStreamServer")
    cc = srv.methods.get(mangle("AsyncStreamServer", "__client_coroutine")) or srv.methods.get("__client_coroutine")
    if cc is None:
        raise AnalysisError("anchor vanished: AsyncStreamServer.__client_coroutine")
    param_paths = [(cc, ["transport"], "all", ())]
    serve = db.fn("lowlevel.api_async.backend._asyncio.stream.listener:ListenerSocketAdapter.serve")
    cct = _nested_with_param(serve, "socket")
    param_paths.append((cct, [cct.params()[0].arg], "all", ()))
    tserve = db.fn("lowlevel.api_async.transports.tls:AsyncTLSListener.serve")
    thw = _nested_with_param(tserve, "stream")
    param_paths.append((thw, [thw.params()[0].arg], "all", ()))
    param_paths.append((db.fn("lowlevel.api_async.transports.tls:AsyncTLSStreamTransport.wrap"), ["transport"], "exc", ()))
    param_paths.append((db.fn("clients.tcp:TCPNetworkClient.__init__"), ["socket", "transport"], "exc", ("socket", "transport")))
    param_paths.append((db.fn("lowlevel.api_sync.transports.socket:SSLStreamTransport.__init__"), ["self.__socket"], "exc", ("self.__socket",)))
    for name in ("lowlevel.api_async.transports.composite:_close_stapled_transports", "lowlevel.api_sync.transports.composite:_close_stapled_transports"):
        f = db.fn(name)
        # the transports it is given (a label / flag parameter added next to them is not something to close)
        param_paths.append((f, [a.arg for a in f.params() if a.annotation is None or "ransport" in ast.unparse(a.annotation)], "all", ()))
    f = db.fn("lowlevel.api_async.transports.composite:_try_graceful_close")
    for f, tracked, exits, late in param_paths:
        check_close_path(eng, run, registry, f, tracked=tracked, exits=exits, late=late)
    f = db.fn("lowlevel.api_async.transports.composite:_try_graceful_close")
    run.attempt(check_close_path, eng, run, registry, f, tracked=[f.params()[0].arg], is_cm=True)
    for name in ("lowlevel.api_async.transports.utils:aclose_forcefully", "lowlevel.api_sync.transports.socket:_close_stream_socket"):
        f = db.fn(name)
        check_close_path(eng, run, registry, f, tracked=[f.params()[0].arg])
    run.attempt(check_close_vs_reader, eng, run)
    run.attempt(check_connector_cancel, eng, run)
    run.attempt(check_twice, eng, run, registry)
    run.end_of_rules()


def _entered_guards(fn) -> set[str]:
    out = set()
    for n in own_nodes(fn.node):
        cands = []
        if isinstance(n, (ast.With, ast.AsyncWith)):
            cands += [it.context_expr for it in n.items]
        if isinstance(n, ast.Call) and isinstance(n.func, ast.Attribute) and n.func.attr in ("enter_context", "enter_async_context") and n.args:
            cands.append(n.args[0])
        for ce in cands:
            if isinstance(ce, ast.Call) and (dotted(ce.func) or "").endswith("lock_with_timeout") and ce.args:
                ce = ce.args[0]
            d = dotted(ce) or (dotted(ce.func.value) if isinstance(ce, ast.Call) and isinstance(ce.func, ast.Attribute) and ce.func.attr == "get" and not ce.args else None)
            if d and fn.self_name and d.startswith(fn.self_name + ".") and any(w in d.lower() for w in ("guard", "lock")):
                out.add(d.split(".", 1)[1])
    return out


def check_close_vs_reader(eng, run):
    """closing is how a parked reader is stopped: close()/aclose() never takes a guard or lock that a receive method of the same class
    holds while it waits for the peer (a ResourceGuard would raise BusyResourceError before the transport is closed, a lock would block
    until data arrives)"""
    n = 0
    for ci in eng.db.classes.values():
        if not ci.module.name.startswith("easynetwork."):
            continue
        closes = [m for m in ci.methods.values() if m.name in ("close", "aclose") and not isinstance(m.node, ast.Lambda)]
        recvs = [m for m in ci.methods.values() if m.name.startswith(("recv", "receive")) and not isinstance(m.node, ast.Lambda)]
        if not closes or not recvs:
            continue
        held_by_readers = set().union(*[_entered_guards(m) for m in recvs])
        if not held_by_readers:
            continue
        for c in closes:
            n += 1
            common = _entered_guards(c) & held_by_readers
            if common:
                run.finding("C14.own", c, c.node, f"{c.name}() takes {sorted(common)}, which the receive methods of {ci.name} hold while they wait for data: closing while a reader is parked "
                            "fails (BusyResourceError) or blocks before the underlying transport is closed - the socket stays open")
            run.ob("C14.own", f"{ci.name}.{c.name}:not-behind-a-parked-reader", not common, reader_guards=sorted(held_by_readers))
    run.floor("C14.own close methods of classes with guarded receive methods", n, 6)


def check_connector_cancel(eng, run):
    """AsyncTCPNetworkClient.aclose(): the pending connection attempt is cancelled before the first suspension point of aclose() - a
    close that is itself cancelled while it waits (send lock) must already have stopped the connect - and the connector stays
    registered while the race is awaited (rule shared with C19)"""
    from sa.analyses.atomic import AtomicSection
    from rules import c19
    from sa.report import RuleAlias
    from sa.analyses.base import RuleAnalysis
    from sa.analyses.buffers import through_local
    n = 0
    for q in ("clients.async_tcp.AsyncTCPNetworkClient", "clients.async_udp.AsyncUDPNetworkClient"):
        ci = eng.db.cls(q)
        ac = ci.methods.get("aclose")
        if ac is None:
            raise AnalysisError(f"anchor vanished: {ci.name}.aclose")
        n += 1

        def cancels_connector(node, ac=ac):
            if not (isinstance(node, ast.Call) and isinstance(node.func, ast.Attribute) and node.func.attr == "cancel"):
                return False
            d = dotted(node.func.value) or ""
            root = d.split(".")[0]
            v = through_local(ac, ast.Name(id=root, ctx=ast.Load())) if root != ac.self_name else None
            return "connector" in d or (v is not None and "connector" in (dotted(v) or ""))

        def drops_connector(node, ac=ac):
            return isinstance(node, ast.Assign) and isinstance(node.value, ast.Constant) and node.value.value is None \
                and any(isinstance(t, ast.Attribute) and "connector" in t.attr and dotted(t.value) == ac.self_name for t in node.targets)

        class Drop(RuleAnalysis):
            tokens = ("Exception", CANCELLED)

            def __init__(self, e):
                super().__init__(e)
                self.viol = []

            def initial(self, f):
                return [False]

            def may_raise(self, node, fact):
                return []

            def transfer(self, node, fact):
                if cancels_connector(node):
                    return [True]
                if drops_connector(node) and not fact and node not in self.viol:
                    self.viol.append(node)
                return [fact]

        dr = Drop(eng)
        Interp(dr, ac).run()
        for v in dr.viol[:1]:
            run.finding("C14.own", ac, v, "aclose() forgets the pending connector without cancelling its scope: the connection attempt that is in flight completes after aclose() has returned, "
                        "the client ends up connected and its socket is never closed")
        run.ob("C14.own", f"{ci.name}.aclose:connector-never-dropped-uncancelled", not dr.viol)
        an = AtomicSection(eng, None, cancels_connector, armed_at_entry=True)
        Interp(an, ac).run()
        if not an.ends:
            if dr.viol:
                continue
            raise AnalysisError(f"anchor vanished: connector scope cancel in {ci.name}.aclose")
        ok = all(st == "armed" for _, st in an.ends)
        if not ok:
            late = next((node for node, st in an.ends if st != "armed"), None)
            run.finding("C14.own", ac, _stmt_at(ac, late.lineno) if late is not None else ac.node, "aclose() can suspend (and be cancelled) before it cancels the pending connection attempt: "
                        "a close cancelled at that point leaves the connect running - it completes, the client ends up connected and its socket is never closed")
        run.ob("C14.own", f"{ci.name}.aclose:connector-cancelled-before-first-suspension", ok)
    run.floor("C14.own async clients with a pending connector", n, 2)
    c19.check_registered(eng, RuleAlias(run, "C14.own"))
    # asyncio's transport.close() releases the socket only once its user-space write buffer is empty: with the buffer limit at 0 a
    # completed send leaves nothing behind, so a close (even one that is then cancelled) frees the descriptor on the next iteration
    from rules import c20
    c20.check_zero(eng, RuleAlias(run, "C14.own"))
    # every close path that takes the send lock needs the lock to be handed on: a waiter queue that is trimmed by position instead of
    # by identity strands the lock after a cancelled waiter, and aclose() then waits for ever with the transport open
    from rules import c12
    c12.check_fifo(eng, RuleAlias(run, "C14.own"))


def check_twice(eng, run, registry):
    """C14.twice: (a) an event a second closer waits on is set on every exit of the first close;
    (b) a *shared* future (stored in an attribute, handed out by a getter) is only awaited through asyncio.shield,
    so that cancelling one closer does not cancel the future every later close() awaits."""
    db = eng.db
    n_evt = 0
    for fn in close_paths(eng):
        flags = own_closing_flags(fn)
        if not flags or not fn.is_async:
            continue
        # events awaited under the own-flag branch
        waited = []
        for n in own_nodes(fn.node):
            if isinstance(n, ast.If) and dotted(n.test) in flags:
                for sub in ast.walk(n):
                    if isinstance(sub, ast.Await) and isinstance(sub.value, ast.Call) and isinstance(sub.value.func, ast.Attribute) and sub.value.func.attr == "wait":
                        waited.append(dotted(sub.value.func.value))
        for ev in [w for w in waited if w]:
            n_evt += 1
            an = CloseAnalysis(eng, [ev], registry, own_flags=flags, close_methods={"set"})
            out = Interp(an, fn).run()
            bad = []
            for kind, tok, fmap in [("return", None, out.ret)] + [("raise", t, m) for t, m in out.exc.items()]:
                for (inv, fl), trace in fmap.items():
                    if ev not in inv and "precond" not in fl:
                        bad.append((kind if tok is None else f"raise[{tok.split('.')[-1]}]", trace))
            for label, trace in bad[:1]:
                run.finding("C14.twice", fn, _stmt_at(fn, trace[-1]) if trace else fn.node,
                            f"exit {label} of the first close leaves `{ev}` unset: a second close() waiting on it never returns", trace)
            run.ob("C14.twice", f"{fn.short}:{ev}.set", not bad)
    # shared futures
    getters = {}
    for fn in db.all_functions():
        if fn.cls is None or isinstance(fn.node, ast.Lambda) or fn.parent is not None:
            continue
        body = [st for st in fn.node.body if not (isinstance(st, ast.Expr) and isinstance(st.value, ast.Constant))]
        if len(body) == 1 and isinstance(body[0], ast.Return) and isinstance(body[0].value, ast.Attribute):
            ts = eng.typer.expr_types(fn, body[0].value)
            if any(t.kind == "ext" and t.ref.split(".")[-1] == "Future" for t in ts):
                getters[fn.name] = fn
    run.floor("shared-future getters", len(getters), 1)
    n_sites = 0
    for fn in db.all_functions():
        if not fn.is_async:
            continue
        shield_args = set()
        for n in own_nodes(fn.node):
            if isinstance(n, ast.Call) and (dotted(n.func) or "").split(".")[-1] == "shield":
                for a in n.args:
                    shield_args.add(id(a))
                    from sa.analyses.buffers import through_local
                    shield_args.add(id(through_local(fn, a)))  # `w = self._get_waiter(); await shield(w)`
        for n in own_nodes(fn.node):
            if isinstance(n, ast.Call) and isinstance(n.func, ast.Attribute) and n.func.attr in getters:
                n_sites += 1
                shielded = id(n) in shield_args
                if not shielded:
                    run.finding("C14.twice", fn, _stmt_at(fn, n.lineno), f"shared future from `{n.func.attr}()` is not wrapped in asyncio.shield: cancelling this waiter cancels the future for every later close()")
                run.ob("C14.twice", f"{fn.short}:shield@{n.func.attr}", shielded)
    run.floor("C14.twice shared-future await sites", n_sites, 3)
    run.floor("C14.twice events", n_evt, 1)


def _nested_with_param(fn, hint):
    for g in fn.nested.values():
        ps = g.params()
        if ps and hint in ps[0].arg and g.is_async:
            return g
    raise AnalysisError(f"anchor vanished: per-connection task inside {fn.qualname}")



# ---------------------------------------------------------------------------------------------- self-test corpus
from sa.mutate import (Variant, delete_stmt, find_handler, insert_after, insert_before, rename_local, replace_expr,  # noqa: E402
                       replace_stmt, set_handler_type, stmt_has, stmt_is)

_TLS = "lowlevel.api_async.transports.tls:AsyncTLSStreamTransport"
_SOCK = "lowlevel.api_async.backend._asyncio.stream.socket:AsyncioTransportStreamSocketAdapter.aclose"
_SRVCLI = "servers.async_tcp:_ConnectedClientAPI.aclose"
_CC = "lowlevel.api_async.servers.stream:AsyncStreamServer.__client_coroutine"
_CCT = "lowlevel.api_async.backend._asyncio.stream.listener:ListenerSocketAdapter.serve.<locals>.client_connection_task"
_STAPLED_SYNC = "lowlevel.api_sync.transports.composite:_close_stapled_transports"


def _move_registration_late(fn):
    delete_stmt(fn, stmt_has("push_async_callback(_transports_utils.aclose_forcefully"))
    insert_before(fn, stmt_has("request_handler_generator = client_connected_cb("), "task_exit_stack.push_async_callback(_transports_utils.aclose_forcefully, transport)")


def _flag_after_close(fn):
    delete_stmt(fn, stmt_is("self.__closing = True"))
    fn.body.append(__import__("ast").parse("self.__closing = True").body[0])


MUTANTS = [
    Variant("tls-aclose-drop-forceful", _TLS + ".aclose", lambda fn: delete_stmt(fn, stmt_has("aclose_forcefully(self._transport)")), "C14.own",
            why="cancellation / non-OSError during the closing handshake leaves the wrapped transport open"),
    Variant("tls-aclose-narrow-handler", _TLS + ".aclose", lambda fn: set_handler_type(fn, "BaseException", "Exception"), "C14.own",
            why="only the cancellation edge leaks"),
    Variant("tls-wrap-narrow-handler", _TLS + ".wrap", lambda fn: set_handler_type(fn, "BaseException", "Exception"), "C14.own",
            why="cancelled handshake leaves the transport open"),
    Variant("tls-aclose-event-late", _TLS + ".aclose",
            lambda fn: (delete_stmt(fn, stmt_has("stack.callback(self.__closed.set)")), fn.body.append(__import__("ast").parse("self.__closed.set()").body[0])),
            "C14.twice", why="a failing first close never sets the event the second close waits on"),
    Variant("sock-aclose-no-shield", _SOCK, lambda fn: replace_expr(fn, "asyncio.shield(self.__protocol._get_close_waiter())", "self.__protocol._get_close_waiter()"),
            "C14.twice", why="cancelling the first close cancels the shared close waiter"),
    Variant("sock-aclose-close-not-in-finally", _SOCK,
            lambda fn: replace_stmt(fn, stmt_is("try:"), "if self.__transport.can_write_eof():\n    self.__transport.write_eof()\nself.__transport.close()"), "C14.own",
            why="write_eof() raising OSError skips transport.close()"),
    Variant("srvcli-handler-inside-lock", _SRVCLI,
            lambda fn: replace_stmt(fn, stmt_is("try:"),
                                    "async with self.__send_lock:\n    try:\n        self.__closing = True\n        await self.__client.aclose()\n    except self.backend().get_cancelled_exc_class():\n        self.__closing = True\n        await aclose_forcefully(self.__client)\n        raise"),
            "C14.own", why="cancellation while queued on the send lock closes nothing"),
    Variant("srvcli-flag-after-close", _SRVCLI,
            lambda fn: (delete_stmt(fn, stmt_is("self.__closing = True"), 0), insert_after(fn, stmt_is("await self.__client.aclose()"), "self.__closing = True")),
            "C14.flag", why="senders queued on the lock do not see the client as closing"),
    Variant("client-coroutine-late-registration", _CC, _move_registration_late, "C14.own",
            why="a failure while building the consumer leaves the accepted transport open"),
    Variant("accept-task-cancel-arm-no-close", _CCT, lambda fn: delete_stmt(find_handler(fn, "asyncio.CancelledError"), stmt_is("client_socket.close()")), "C14.own",
            why="server shutdown during connection set-up leaks the accepted socket"),
    Variant("stapled-sync-no-finally", _STAPLED_SYNC,
            lambda fn: replace_stmt(fn, stmt_is("try:"), "send_transport.close()\nreceive_transport.close()"), "C14.own",
            why="the first half failing to close skips the second"),
]

BENIGN = [
    Variant("tls-aclose-rename-scope", _TLS + ".aclose", lambda fn: rename_local(fn, "shutdown_timeout_scope", "scope"), why="local renamed"),
    Variant("srvcli-rename-nothing-reorder", _SRVCLI,
            lambda fn: insert_before(fn, stmt_is("try:"), "backend = self.backend()"), why="unrelated statement added before the try"),
    Variant("sock-aclose-hoist-waiter", _SOCK,
            lambda fn: (insert_before(fn, stmt_is("try:"), "close_waiter = asyncio.shield(self.__protocol._get_close_waiter())", 1),
                        replace_expr(fn, "asyncio.shield(self.__protocol._get_close_waiter())", "close_waiter", nth=1)),
            why="the shielded waiter is computed into a local first"),
]


_EPC = "lowlevel.api_async.endpoints.stream:AsyncStreamEndpoint.aclose"
_CLA = "clients.async_tcp:AsyncTCPNetworkClient.aclose"


def _cancel_inside_lock(fn):
    iff = next(st for st in fn.body if isinstance(st, ast.If) and "socket_connector" in ast.unparse(st.test))
    w = next(st for st in fn.body if isinstance(st, ast.AsyncWith))
    fn.body.remove(iff)
    w.body.insert(0, iff)


MUTANTS += [
    Variant("endpoint-close-takes-the-receive-guard", _EPC, lambda fn: replace_expr(fn, "self.__send_guard", "self.__recv_guard"), "C14.own",
            why="closing while a reader is parked raises BusyResourceError before the transport is closed (seed C14-8)"),
    Variant("client-close-cancels-the-connector-under-the-send-lock", _CLA, _cancel_inside_lock, "C14.own",
            why="a close cancelled while it waits for the send lock leaves the connect running (seed C14-9)"),
]
