"""C03 - receive endpoints: every complete packet once, then a sticky end-of-stream (DESIGN.md section 3, C03)."""
from __future__ import annotations

import ast

from sa.analyses.base import RuleAnalysis
from sa.analyses.hold import MARK, RET, HoldAnalysis
from sa.db import AnalysisError, ClassInfo, FunctionInfo, dotted, mangle, norm_stmt, own_nodes
from sa.exc import CANCELLED
from sa.flow import FnExit, Interp, TestAtom, call_of

CLAIM = {
    "text": "Decides, for the four stream receivers (blocking/asynchronous x copying/buffered) and the TCP client wrappers, the structure behind 'every complete packet once, then a sticky end-of-stream': the consumer is drained (consumer.next(None)) before the transport or the end-of-stream latch is touched; the latch is a dataclass field defaulting to False that is only ever stored True, only in receive(), only on the empty-read branch; every transport read happens with the latch known to be False on that path; every value read from the transport reaches consumer.next on every path and nothing else is ever fed; a packet taken from the consumer is returned on every path (None and falsy packets included); once the latch is set the only exit is ECONNABORTED and no packet is returned; the four siblings agree on this fact tuple; the client wrappers translate connection errors but never swallow them or run a raising call between the endpoint's return and their own. Also decided: (flow) in the asyncio protocol every change of the buffered-bytes level is followed on every normal path by the matching flow-control re-evaluation (resume after taking bytes out, pause after adding), so reading is never left paused; (buf) a caller-owned buffer registered with the event loop is withdrawn on every exit of the receive; (arms) no except arm of the converters / consumers / TLS transports is shadowed by an earlier arm that catches every class it names. The clients' receive iterators never leave while a packet returned by recv_packet() is still held; a 0-byte read of the ciphertext stream marks the incoming BIO EOF on every path; the read water marks, computed by constant propagation, lie within the receive buffer. Round 4: eof_received() of the asyncio stream protocol returns True on every path outside the SSL case (the transport stays open while received packets are unread); the helper that takes the receive lock with a deadline releases it on every exit once acquired (acquire/release pairing typestate); in-place buffer compaction happens after the copy-out; a lent buffer is withdrawn in the callback. Round 5: the two water-mark tests point the right way (pause on level >= mark, resume on level <= mark); is_closing() of the asyncio stream adapter answers from its own flag (the sticky end-of-stream error survives a later socket error). Round 6: no send_eof() of an endpoint, client or transport closes the object it belongs to or the source it reads from (half-close is not close). Round 7: send_packet() does not close the object either (a failed send must not discard packets that were already received); sibling receivers are compared on the presence, not the number, of feed and read sites. Round 8: the end-of-stream error (ECONNABORTED) is raised only on paths on which the latch is not known to be False (end-of-stream is never reported without having been latched, so the next call cannot read the transport again).",
    "note": "Trusted: consumer.next delivers/raises StopIteration as specified (C01/C02 cover its internals structurally); annotations. Not decided: exactly-once for several packets inside one chunk (value level).",
    "technique": "typestate by abstract interpretation (drain-first, latch knowledge refined by branch tests, hold-until-fed), write-once/who-writes queries on the program database, sibling comparison of normalised fact tuples",
}
NOT_DECIDED = ["exactly-once for packets inside one chunk (value level, C01/C02)", "what the peer actually sent"]

CONSUMERS = {"StreamDataConsumer", "BufferedStreamDataConsumer"}
READS = {"recv", "recv_into"}


def _stmt_at(fn, line):
    best = None
    for n in own_nodes(fn.node):
        if isinstance(n, ast.stmt) and getattr(n, "lineno", -1) == line:
            if best is None or not isinstance(n, (ast.Try, ast.With, ast.AsyncWith, ast.For, ast.If, ast.While)):
                best = n
    return best if best is not None else fn.node


def receivers(eng) -> list[tuple[FunctionInfo, str, str]]:
    """(receive method, latch attribute name, consumer field) of every class that owns a stream consumer field and a
    bool latch field, in the endpoint modules."""
    out = []
    for ci in eng.db.classes.values():
        if not ci.module.name.startswith(("easynetwork.lowlevel.api_sync.endpoints", "easynetwork.lowlevel.api_async.endpoints")):
            continue
        fn = ci.methods.get("receive")
        if fn is None:
            continue
        cons = [a for a, ann in ci.fields.items() if any(t.kind == "repo" and t.ref.name in CONSUMERS for t in eng.typer.ann_types(ci.module, ann))]
        latch = [a for a, ann in ci.fields.items() if ast.unparse(ann) == "bool"]
        if cons and latch:
            out.append((fn, latch[0], cons[0]))
    return out


class Receiver(RuleAnalysis):
    """fact = (drained, eof) with eof in {'?','F','T'}."""
    tokens = ("StopIteration", "OSError", "Exception", CANCELLED)

    def __init__(self, engine, latch: str, consumer_field: str):
        super().__init__(engine)
        self.latch = latch
        self.consumer_field = consumer_field
        self.viol: list[tuple[str, object, str]] = []
        self.reads: list[object] = []
        self.drains: list[object] = []
        self.feeds: list[object] = []
        self.latch_stores: list[object] = []
        self.eof_raises: list[tuple[object, str]] = []
        self.returns: list[object] = []
        self.consumer_names: set[str] = set()
        self.transport_names: set[str] = set()

    def initial(self, fn):
        selfn = fn.self_name
        for n in own_nodes(fn.node):
            if isinstance(n, ast.Assign) and len(n.targets) == 1 and isinstance(n.targets[0], ast.Name) and isinstance(n.value, ast.Attribute) \
                    and isinstance(n.value.value, ast.Name) and n.value.value.id == selfn:
                if n.value.attr == self.consumer_field:
                    self.consumer_names.add(n.targets[0].id)
                if n.value.attr == "transport":
                    self.transport_names.add(n.targets[0].id)
        self.consumer_names.add(f"{selfn}.{self.consumer_field}")
        self.transport_names.add(f"{selfn}.transport")
        return [(False, "?")]

    def _is_latch(self, e) -> bool:
        return isinstance(e, ast.Attribute) and e.attr == self.latch and isinstance(e.value, ast.Name) and e.value.id == self.fn.self_name

    def may_raise(self, node, fact):
        c = call_of(node)
        if c is not None and isinstance(c.func, ast.Attribute):
            if c.func.attr == "next" and dotted(c.func.value) in self.consumer_names:
                return ["StopIteration", "Exception"]
            if c.func.attr in READS and dotted(c.func.value) in self.transport_names:
                return ["OSError", CANCELLED] if isinstance(node, ast.Await) else ["OSError"]
        return []

    def transfer(self, node, fact):
        drained, eof = fact
        c = call_of(node)
        if c is not None and isinstance(c.func, ast.Attribute):
            recv = dotted(c.func.value)
            if c.func.attr == "next" and recv in self.consumer_names:
                arg = c.args[0] if c.args else None
                if isinstance(arg, ast.Constant) and arg.value is None:
                    self.drains.append(node)
                    return [(True, eof)]
                self.feeds.append(node)
                return [fact]
            if c.func.attr in READS and recv in self.transport_names:
                if node not in self.reads:
                    self.reads.append(node)
                if not drained:
                    self.viol.append(("C03.drain", node, "the transport is read before the consumer was drained: packets already buffered would be delivered after newer data / after EOF was reported"))
                if eof != "F":
                    self.viol.append(("C03.gate", node, "the transport is read on a path on which the end-of-stream latch is not known to be False: a call after EOF blocks or returns data instead of reporting EOF again"))
                return [fact]
        if isinstance(node, TestAtom):
            if any(self._is_latch(x) for x in ast.walk(node.test)) and not drained:
                self.viol.append(("C03.drain", node.test, "the end-of-stream latch is tested before the consumer was drained: packets received before the peer closed would be lost"))
        if isinstance(node, ast.Assign) and any(self._is_latch(t) for t in node.targets):
            self.latch_stores.append(node)
            v = node.value
            if isinstance(v, ast.Constant) and v.value is True:
                return [(drained, "T")]
            self.viol.append(("C03.latch", node, "the end-of-stream latch is stored with something other than True: end-of-stream is no longer sticky"))
            return [(drained, "?")]
        if isinstance(node, ast.Return):
            self.returns.append(node)
            if eof == "T":
                self.viol.append(("C03.eof", node, "a packet is returned on a path on which end-of-stream has been latched"))
        if isinstance(node, ast.Raise) and node.exc is not None:
            self.eof_raises.append((node, eof))
        return [fact]

    def raise_fact(self, node, fact, token):
        c = call_of(node)
        if c is not None and isinstance(c.func, ast.Attribute) and c.func.attr == "next" and dotted(c.func.value) in self.consumer_names:
            arg = c.args[0] if c.args else None
            if isinstance(arg, ast.Constant) and arg.value is None:
                return [(True, fact[1])]
        return [fact]

    def branch(self, test, fact):
        drained, eof = fact
        t = test
        neg = False
        while isinstance(t, ast.UnaryOp) and isinstance(t.op, ast.Not):
            neg = not neg
            t = t.operand
        if self._is_latch(t):
            # truthy branch: latch True
            tr = None if eof == "F" else [(drained, "T")]
            fl = None if eof == "T" else [(drained, "F")]
            return (fl, tr) if neg else (tr, fl)
        return [fact], [fact]


def _errno_of(raise_node, fn=None, truth=None) -> str:
    """the errno constant of `raise error_from_errno(E...)`; `raise _helper(...)` is read through a private helper that returns the error
    (its tests on an argument whose truth is known - the end-of-stream latch - are decided)"""
    direct = next((x.attr for x in ast.walk(raise_node) if isinstance(x, ast.Attribute) and x.attr.startswith("E") and x.attr.isupper()), "")
    if direct or fn is None:
        return direct
    from sa.norm import raised_errnos
    es = raised_errnos(fn, raise_node, truth)
    if len(es) == 1:
        return next(iter(es))
    if len(es) > 1:
        return "|".join(sorted(es))
    from sa.norm import helper_return_expr
    exc = getattr(raise_node, "exc", None)
    if isinstance(exc, ast.Call):
        r = helper_return_expr(fn, exc)
        if r is not None:
            return next((x.attr for x in ast.walk(r[0]) if isinstance(x, ast.Attribute) and x.attr.startswith("E") and x.attr.isupper()), "")
    return ""


def check_receivers(eng, run):
    recs = receivers(eng)
    run.floor("C03 stream receivers", len(recs), 4)
    tuples = {}
    for fn, latch, cons in recs:
        an = Receiver(eng, latch, cons)
        out = Interp(an, fn).run()
        key = f"{fn.module.name.split('.')[-3]}.{fn.short}"
        by_rule: dict[str, list] = {}
        for rule, node, msg in an.viol:
            by_rule.setdefault(rule, []).append((node, msg))
        for rule in ("C03.drain", "C03.gate", "C03.latch", "C03.eof"):
            items = by_rule.get(rule, [])
            seen = set()
            for node, msg in items:
                st = _stmt_at(fn, getattr(node, "lineno", fn.lineno))
                if norm_stmt(st) in seen:
                    continue
                seen.add(norm_stmt(st))
                run.finding(rule, fn, st, msg)
        if not an.drains or not an.reads:
            raise AnalysisError(f"anchor vanished: drain / transport read in {fn.qualname}")
        run.ob("C03.drain", key, not by_rule.get("C03.drain"), drains=len(an.drains))
        run.ob("C03.gate", key, not by_rule.get("C03.gate"), reads=len(an.reads))
        # latch discipline: dataclass default False, only stored here
        ci = fn.cls
        defaults = ci.field_values.get(latch, [])
        default_ok = any(f is None and "default=False" in ast.unparse(v) for f, v in defaults) or any(f is None and isinstance(v, ast.Constant) and v.value is False for f, v in defaults)
        foreign = []
        for g in eng.db.all_functions():
            if g is fn:
                continue
            for n in own_nodes(g.node):
                if isinstance(n, (ast.Assign, ast.AugAssign, ast.Delete)):
                    tg = n.targets if isinstance(n, (ast.Assign, ast.Delete)) else [n.target]
                    for t in tg:
                        if isinstance(t, ast.Attribute) and t.attr == latch and g.cls is not None and (g.cls is ci or ci in g.cls.mro()):
                            foreign.append((g, n))
                if isinstance(n, ast.Call) and isinstance(n.func, ast.Name) and n.func.id in ("setattr", "delattr") and len(n.args) >= 2 and isinstance(n.args[1], ast.Constant) and n.args[1].value == latch:
                    foreign.append((g, n))
        for g, n in foreign:
            run.finding("C03.latch", g, n, f"`{latch}` is written outside receive(): end-of-stream is no longer sticky")
        # the store is on the empty-read branch
        store_ok = bool(an.latch_stores)
        for st in an.latch_stores:
            guarded = False
            from sa.norm import cmp_canon, strip_not
            from sa.norm import if_arms
            for iff in own_nodes(fn.node):
                if not isinstance(iff, ast.If):
                    continue
                then_arm, else_arm = if_arms(fn.node, iff)  # (a then-arm that always leaves makes what follows the else-arm)
                if not (st in then_arm or st in else_arm):
                    continue
                t, neg = strip_not(iff.test)
                if isinstance(t, ast.NamedExpr) and isinstance(t.target, ast.Name):
                    t = t.target  # `if not (chunk := await recv()):`
                if st in else_arm:
                    neg = not neg
                # the branch taken when the value just read is empty: `not x` / `x == 0` / `x <= 0` / `len(x) == 0` (or the else-arm of the opposite test)
                if isinstance(t, ast.Name) and neg:
                    guarded = True
                c = cmp_canon(fn, ast.UnaryOp(op=ast.Not(), operand=t) if neg else t)
                if c is not None and len([k for k in c[0] if k]) == 1:
                    (k, coef), const = next((kv for kv in c[0].items() if kv[0])), c[0].get("", 0)
                    if (c[1] == "==" and const == 0) or (c[1] == ">=" and coef == -1 and const == 0) or (c[1] == ">" and coef == -1 and const == 1):
                        guarded = True
            if not guarded:
                store_ok = False
                run.finding("C03.latch", fn, st, "the end-of-stream latch is set outside the `empty read` branch")
        if not default_ok:
            run.finding("C03.latch", fn, fn.node, f"`{latch}` no longer defaults to False")
        run.ob("C03.latch", key, default_ok and store_ok and not foreign and not by_rule.get("C03.latch"), stores=len(an.latch_stores))
        # feed: hold analysis (values read reach consumer.next; packets taken are returned)
        h = HoldAnalysis(eng)
        hout = Interp(h, fn).run()
        hbad = []
        for node, kind, var in h.problems:
            hbad.append((node, f"`{var}` ({'read from the transport' if var not in h.packet_vars else 'a packet taken from the consumer'}) is {'dropped (re-bound / deleted)' if kind == 'killed' else 'held across a suspension point'} before it reached its owner"))
        for kind, tok, fmap in [("return", None, hout.ret)] + [("raise", t, m) for t, m in hout.exc.items()]:
            for fact, tr in fmap.items():
                held = set(fact) - {RET}
                if held and MARK not in held:
                    hbad.append((_stmt_at(fn, tr[-1]) if tr else fn.node, f"`{','.join(sorted(held))}` is dropped: exit while it still holds a value read from the transport / a packet taken from the consumer"))
        seen = set()
        for node, msg in hbad:
            st = _stmt_at(fn, getattr(node, "lineno", fn.lineno))
            if norm_stmt(st) in seen:
                continue
            seen.add(norm_stmt(st))
            run.finding("C03.feed", fn, st, msg)
        # nothing but read values (or None) is fed
        read_vars = set()
        for n in own_nodes(fn.node):
            if isinstance(n, (ast.Assign, ast.AnnAssign, ast.NamedExpr)) and n.value is not None:
                v = n.value.value if isinstance(n.value, ast.Await) else n.value
                if isinstance(v, ast.Call) and isinstance(v.func, ast.Attribute) and v.func.attr in READS:
                    tg = n.targets if isinstance(n, ast.Assign) else [n.target]
                    read_vars |= {t.id for t in tg if isinstance(t, ast.Name)}
        odd = []
        for f in an.feeds:
            a = call_of(f).args[0] if call_of(f).args else None
            if not (isinstance(a, ast.Name) and a.id in read_vars):
                odd.append(f)
                run.finding("C03.feed", fn, _stmt_at(fn, f.lineno), "consumer.next() is fed something that is not the value just read from the transport")
        run.ob("C03.feed", key, not hbad and not odd and bool(an.feeds), feeds=len(an.feeds), read_vars=sorted(read_vars))
        # eof: returns are consumer.next results (directly or via a local bound from it); raises after latch are ECONNABORTED
        eof_bad = list(by_rule.get("C03.eof", []))
        packet_locals = {t.id for n in own_nodes(fn.node) if isinstance(n, (ast.Assign, ast.AnnAssign)) and n.value is not None and isinstance(n.value, ast.Call)
                         and isinstance(n.value.func, ast.Attribute) and n.value.func.attr == "next" for t in (n.targets if isinstance(n, ast.Assign) else [n.target]) if isinstance(t, ast.Name)}
        for r in an.returns:
            v = r.value
            ok = (isinstance(v, ast.Call) and isinstance(v.func, ast.Attribute) and v.func.attr == "next") or (isinstance(v, ast.Name) and v.id in packet_locals)
            if not ok:
                eof_bad.append((r, ""))
                run.finding("C03.eof", fn, r, "receive() returns something that is not a packet produced by consumer.next() (a trailing partial frame / raw data would be delivered)")
        errnos = []
        for node, eof in an.eof_raises:
            e = _errno_of(node, fn, {f"{fn.self_name}.{latch}": True} if eof == "T" else ({f"{fn.self_name}.{latch}": False} if eof == "F" else None))
            errnos.append((eof, e))
            if eof == "T" and e != "ECONNABORTED":
                eof_bad.append((node, ""))
                run.finding("C03.eof", fn, node, f"after end-of-stream was latched the call fails with {e or 'another error'} instead of ECONNABORTED")
            if eof == "F" and e == "ECONNABORTED":
                # end-of-stream is reported while the latch is known to be False on this path: the next call reads the transport again
                eof_bad.append((node, ""))
                run.finding("C03.eof", fn, node, "end-of-stream (ECONNABORTED) is reported on a path on which the end-of-stream latch is known not to be set: "
                            "the next receive() reads the transport again (blocks, times out or returns data) instead of reporting end-of-stream again")
        has_abort = any("ECONNABORTED" in e.split("|") for _, e in errnos)
        if not has_abort:
            run.finding("C03.eof", fn, fn.node, "no ECONNABORTED exit for end-of-stream")
        # the loop cannot be left with the latch set by a normal return (fall-through)
        run.ob("C03.eof", key, not eof_bad and has_abort, raises=[f"{e}@eof={s}" for s, e in errnos])
        # (the number of lexical feed / read sites is not compared: an early-exit rewrite of the loop changes it without changing what is fed)
        tuples[key] = (not by_rule.get("C03.drain"), "True-only", not by_rule.get("C03.gate"), len(an.feeds) >= 1, has_abort, len(an.reads) >= 1)
    vals = set(tuples.values())
    if len(vals) > 1:
        from collections import Counter
        maj = Counter(tuples.values()).most_common(1)[0][0]
        for k, v in tuples.items():
            if v != maj:
                fn = next(f for f, _, _ in recs if k.endswith(f.short) and k.split(".")[0] in f.module.name)
                run.finding("C03.sib", fn, fn.node, f"receiver disagrees with its siblings: {v} vs {maj} (drain-first, latch form, gate, single feed, ECONNABORTED, single read)")
    run.ob("C03.sib", "four-receivers-agree", len(vals) == 1, tuples={k: list(v) for k, v in tuples.items()})


from sa.analyses.hold import explicit_raiser  # noqa: E402


class WrapperHold(HoldAnalysis):
    """client wrappers: no call that may raise between the endpoint's return and the wrapper's own return"""

    def transfer(self, node, fact):
        held = set(fact) - {MARK, RET}
        if isinstance(node, ast.Call) and (held or RET in fact) and not self.is_source_call(node) and not (self._delivered_by(node) & held):
            for t in self.targets(node, dispatch=False):
                if isinstance(t, FunctionInfo) and explicit_raiser(self.engine, t):
                    self.problems.append((node, "raiser", ",".join(sorted(held)) or "the packet"))
        return super().transfer(node, fact)


def check_clients(eng, run):
    db = eng.db
    n = 0
    for q in ("clients.tcp:TCPNetworkClient", "clients.async_tcp:AsyncTCPNetworkClient"):
        ci = db.cls(q.replace(":", "."))
        conv = ci.methods.get(mangle(ci.name, "__convert_socket_error")) or ci.methods.get("__convert_socket_error")
        if conv is None:
            raise AnalysisError(f"anchor vanished: {q}.__convert_socket_error")
        # every handler arm ends in raise on every branch that it handles; no return / swallow
        for t in [x for x in own_nodes(conv.node) if isinstance(x, ast.Try)]:
            for h in t.handlers:
                n += 1
                swallow = any(isinstance(x, (ast.Return, ast.Pass)) for x in ast.walk(h)) or not any(isinstance(x, ast.Raise) for x in ast.walk(h))
                # falling through the handler without raising swallows the error: last statement must be raise (possibly under if + trailing raise)
                last = h.body[-1]
                ends_raise = isinstance(last, ast.Raise) or (isinstance(last, ast.If) and False)
                ok = not swallow and (ends_raise or any(isinstance(s, ast.Raise) and s.exc is None for s in h.body))
                if not ok:
                    run.finding("C03.cli", conv, h.body[0], f"`except {ast.unparse(h.type) if h.type else ''}` arm of the socket-error converter can swallow the error: recv_packet would return None instead of reporting the failure")
                run.ob("C03.cli", f"{conv.short}:except {ast.unparse(h.type)[:30] if h.type else ''}", ok)
        rp = ci.methods.get("recv_packet")
        an = WrapperHold(eng)
        out = Interp(an, rp).run()
        bad = [p for p in an.problems if p[1] in ("raiser", "suspend", "killed")]
        for node, kind, var in bad[:1]:
            run.finding("C03.cli", rp, _stmt_at(rp, node.lineno), f"a call that may raise runs after the endpoint returned {var}: a packet already taken from the stream is discarded and the error is reported in its place")
        run.ob("C03.cli", f"{rp.short}:nothing-raises-after-endpoint-returned", not bad, sources=len(an.sources))
        n += 1
    it = db.module("clients._iter")
    for cname, stop in (("ClientRecvIterator", "StopIteration"), ("AsyncClientRecvIterator", "StopAsyncIteration")):
        ci = it.classes.get(cname)
        fn = ci.methods.get("__next__") or ci.methods.get("__anext__")
        hs = [h for x in own_nodes(fn.node) if isinstance(x, ast.Try) for h in x.handlers]
        ok = len(hs) == 1 and ast.unparse(hs[0].type) == "OSError" and any(isinstance(r, ast.Raise) and stop in ast.unparse(r) for r in ast.walk(hs[0]))
        if not ok:
            run.finding("C03.cli", fn, hs[0] if hs else fn.node, f"the receive iterator must turn OSError (and only OSError) into {stop}")
        run.ob("C03.cli", f"{fn.short}:OSError->{stop}", ok)
        n += 1
    run.floor("C03.cli sites", n, 6)


class FlowCtl(RuleAnalysis):
    """fact: frozenset of {'shrunk','grown'}: the buffered-bytes level changed and the matching flow-control hook has not run yet."""
    tokens = ("Exception", CANCELLED)
    inline_helpers = True  # a copy-out block extracted into a private helper is read in place: the caller re-evaluates the flow control

    def __init__(self, engine, level, transport_attr, pauser, resumer):
        super().__init__(engine)
        self.level, self.tattr, self.pauser, self.resumer = level, transport_attr, pauser, resumer
        self.viol = []
        self.changes = 0

    def keeps_opaque(self, g, node):
        return g.name in (self.pauser, self.resumer)  # the flow-control hooks are the events of this analysis, not code to read through

    def initial(self, fn):
        return [frozenset()]

    def may_raise(self, node, fact):
        return list(self.tokens) if isinstance(node, ast.Await) else []

    def transfer(self, node, fact):
        if isinstance(node, ast.AugAssign) and dotted(node.target) == self.level:
            self.changes += 1
            return [fact | {"grown" if isinstance(node.op, ast.Add) else "shrunk"}]
        if isinstance(node, (ast.Assign, ast.AnnAssign)) and node.value is not None:
            tg = node.targets if isinstance(node, ast.Assign) else [node.target]
            if any(dotted(t) == self.level for t in tg):
                self.changes += 1
                return [fact | {"shrunk"}]
            if any(dotted(t) == self.tattr for t in tg) and isinstance(node.value, ast.Constant) and node.value.value is None:
                return [frozenset()]  # the transport is gone: nothing left to pause or resume
        c = call_of(node)
        if isinstance(node, ast.Call) and isinstance(c.func, ast.Attribute) and dotted(c.func.value) == self.fn.self_name:
            if c.func.attr == self.resumer:
                return [fact - {"shrunk"}]
            if c.func.attr == self.pauser:
                return [fact - {"grown"}]
        in_helper = bool(getattr(getattr(self, "interp", None), "_inline_stack", None))
        if isinstance(node, (ast.Return, FnExit)) and fact and not in_helper:  # a helper's own return is not yet the exit of the method
            self.viol.append((node, fact))
        return [fact]


def check_flow(eng, run):
    """Read flow control is paired: whoever takes bytes out of the protocol's internal buffer re-evaluates resume_reading() before
    returning, whoever adds bytes re-evaluates pause_reading(): otherwise a paused transport stays paused for ever (bytes the peer
    sent are never delivered and EOF is never seen) or a full buffer is handed to the event loop (connection aborted, data lost)."""
    from sa.analyses.conserve import check_read_before_compaction
    check_read_before_compaction(eng, run, "C03.flow", 1)
    n = 0
    for ci in eng.db.classes.values():
        pauser = resumer = None
        for fn in ci.methods.values():
            calls = {c.func.attr for c in own_nodes(fn.node) if isinstance(c, ast.Call) and isinstance(c.func, ast.Attribute)}
            if "pause_reading" in calls:
                pauser = fn
            if "resume_reading" in calls:
                resumer = fn
        if pauser is None or resumer is None:
            continue
        s = pauser.self_name

        def attrs_in_test(fn):
            t = next((x.test for x in own_nodes(fn.node) if isinstance(x, ast.If)), None)
            return {dotted(a) for a in ast.walk(t) if isinstance(a, ast.Attribute) and dotted(a.value) == s} if t is not None else set()

        def compared(fn):
            t = next((x.test for x in own_nodes(fn.node) if isinstance(x, ast.If)), None)
            out = set()
            for cmp_ in [x for x in ast.walk(t) if isinstance(x, ast.Compare)] if t is not None else []:
                if isinstance(cmp_.ops[0], (ast.GtE, ast.Gt, ast.LtE, ast.Lt)):
                    out.add(dotted(cmp_.left))
            return out
        level = (compared(pauser) & compared(resumer))
        walrus = {dotted(x.value) for x in ast.walk(pauser.node) if isinstance(x, ast.NamedExpr)}
        if len(level) != 1 or not walrus:
            raise AnalysisError(f"anchor vanished: buffered level / transport attribute of {ci.name} flow control")
        level = next(iter(level))
        tattr = sorted(walrus)[0]
        # direction of the two water-mark tests: reading is paused when the level is at or above a mark, resumed when it is at or below one
        from sa.norm import cmp_canon
        for hook, want, verb in ((pauser, 1, "pause"), (resumer, -1, "resume")):
            t = next((x.test for x in own_nodes(hook.node) if isinstance(x, ast.If)), None)
            dirs = []
            for cmp_ in [x for x in ast.walk(t) if isinstance(x, ast.Compare)] if t is not None else []:
                c = cmp_canon(hook, cmp_)
                if c is not None and level in c[0] and c[1] in (">", ">=") and len([k for k in c[0] if k]) == 2:
                    dirs.append(c[0][level])
            ok_dir = bool(dirs) and all(d == want for d in dirs)
            if dirs and not ok_dir:
                run.finding("C03.flow", hook, hook.node, f"the water-mark test of {hook.name}() points the wrong way ({verb} reading must be decided by `level {'>=' if want == 1 else '<='} mark`): "
                            + ("a read that empties the buffer in one step leaves the transport paused for ever - the rest of the stream and its end are never delivered" if want == -1
                               else "reading is never paused and a full buffer is handed to the event loop"))
            run.ob("C03.flow", f"{hook.short}:water-mark-direction", ok_dir or not dirs, comparisons=len(dirs))
        from sa.norm import nodes_inl, private_helper

        def changes_level(f):
            return any(isinstance(x, (ast.Assign, ast.AugAssign, ast.AnnAssign)) and any(dotted(t) == level for t in (x.targets if isinstance(x, ast.Assign) else [x.target])) for x, _o in nodes_inl(f))

        # private helpers that change the level on behalf of another method of the class are judged in that method (inlined)
        delegated = set()
        for f in ci.methods.values():
            if isinstance(f.node, ast.Lambda):
                continue
            for c in own_nodes(f.node):
                if isinstance(c, ast.Call):
                    g = private_helper(f, c)
                    if g is not None and g is not f and g.cls is ci and g not in (pauser, resumer):
                        delegated.add(g.qualname)
        for fn in ci.methods.values():
            if fn in (pauser, resumer) or isinstance(fn.node, ast.Lambda) or fn.name == "__init__" or fn.qualname in delegated:
                continue
            if not changes_level(fn):
                continue
            an = FlowCtl(eng, level, tattr, pauser.name, resumer.name)
            Interp(an, fn).run()
            n += 1
            seen = set()
            for node, fact in an.viol:
                what = "resume" if "shrunk" in fact else "pause"
                if what in seen:
                    continue
                seen.add(what)
                st = fn.node if isinstance(node, FnExit) else node
                run.finding("C03.flow", fn, st, f"returns after {'taking bytes out of' if what == 'resume' else 'adding bytes to'} the internal receive buffer (`{level}`) without re-evaluating "
                            f"{what}_reading(): " + ("once reading was paused it is never resumed - the rest of the stream and the end-of-stream are never delivered" if what == "resume"
                                                     else "a full buffer is handed to the event loop, which aborts the connection"))
            run.ob("C03.flow", f"{fn.short}:level-change-followed-by-flow-control", not an.viol, level_changes=an.changes)
    run.floor("C03.flow functions changing the buffered level", n, 3)


def check_iterators(eng, run):
    """the receive iterators of the clients hand on every packet that recv_packet() returned: no exit (deadline test, raise)
    is taken while a returned packet is still held (hold typestate of C10)"""
    from rules import c10
    from sa.report import RuleAlias
    it = eng.db.module("clients._iter")
    n = 0
    for cname, meth, is_async in (("AsyncClientRecvIterator", "__anext__", True), ("ClientRecvIterator", "__next__", False)):
        ci = it.classes.get(cname)
        fn = ci.methods.get(meth) if ci else None
        if fn is None:
            raise AnalysisError(f"anchor vanished: {cname}.{meth}")
        n += 1
        if is_async:
            c10.check_hold(eng, RuleAlias(run, "C03.cli"), fn, "C03.cli")
        else:
            c10.check_sync(eng, RuleAlias(run, "C03.cli"), fn)
    run.floor("C03.cli receive iterators", n, 2)


def check_water_marks(eng, run, rule="C03.flow"):
    """reading is paused before the fixed receive buffer is full: the read high-water mark, computed by constant propagation through
    the limit computation of the asyncio protocol, does not exceed the buffer size (and low <= high); a mark above the buffer size
    means reading is never paused, the loop is handed an empty buffer and aborts the connection with everything buffered"""
    from sa.analyses.constprop import UNKNOWN, ConstEval
    n = 0
    for ci in eng.db.classes.values():
        comp = ci.methods.get("_compute_read_buffer_limits")
        if comp is None:
            continue
        n += 1
        ev = ConstEval(eng, comp)
        ev.run()
        size = ev._class_const("max_size")
        marks = {k: v for k, v in ev.self_attrs.items() if "water" in k}
        hi = next((v for k, v in marks.items() if "high" in k), UNKNOWN)
        lo = next((v for k, v in marks.items() if "low" in k), UNKNOWN)
        if any(x is UNKNOWN or not isinstance(x, int) for x in (size, hi, lo)):
            run.ob(rule, f"{ci.name}:read-water-marks-within-buffer", True, evaluated=False, reason="not compile-time constants: rule skipped")
            continue
        ok = 0 <= lo <= hi <= size and hi > 0
        if not ok:
            run.finding(rule, comp, comp.node, f"read water marks low={lo}, high={hi} against a receive buffer of {size} bytes: " + (
                "the high-water mark is above the buffer size, so reading is never paused; when the buffer fills up the event loop gets an empty buffer, raises and drops the connection with all buffered data"
                if hi > size else "the marks are not ordered 0 <= low <= high"))
        run.ob(rule, f"{ci.name}:read-water-marks-within-buffer", ok, evaluated=True, low=lo, high=hi, buffer=size)
    run.floor(f"{rule} protocols with computed read limits", n, 1)


def check_buf(eng, run):
    """a caller-owned receive buffer registered with the event loop is withdrawn on every exit of the receive (shared with C10.lend)"""
    from rules.c10 import check_lend
    check_lend(eng, run, rule="C03.buf", cancel_arm=False)
    from rules.c10 import check_withdraw
    check_withdraw(eng, run, rule="C03.buf")


def check_half_close(eng, run):
    """the asyncio stream protocol keeps the transport open when the peer half-closes: `eof_received()` returns True on every path,
    except under the test of the flag that records an SSL transport (asyncio ignores the value there).  Returning False lets
    asyncio close the transport; connection_lost() then discards the packets that are buffered but not yet read."""
    n = 0
    for fn in eng.db.all_functions():
        if fn.name != "eof_received" or fn.cls is None or isinstance(fn.node, ast.Lambda):
            continue
        n += 1
        # attributes whose value is derived from the transport's "sslcontext" / "ssl_object" extra
        ssl_attrs = set()
        for m in fn.cls.methods.values():
            for st in own_nodes(m.node):
                if isinstance(st, (ast.Assign, ast.AnnAssign)) and st.value is not None and any(isinstance(c, ast.Constant) and c.value in ("sslcontext", "ssl_object") for c in ast.walk(st.value)):
                    for t in (st.targets if isinstance(st, ast.Assign) else [st.target]):
                        if isinstance(t, ast.Attribute):
                            ssl_attrs.add(t.attr)

        def under_ssl_guard(ret):
            for i in own_nodes(fn.node):
                if isinstance(i, ast.If) and any(ret is x for b in i.body for x in ast.walk(b)):
                    if any(isinstance(a, ast.Attribute) and a.attr in ssl_attrs for a in ast.walk(i.test)) and not any(isinstance(u, ast.UnaryOp) and isinstance(u.op, ast.Not) for u in ast.walk(i.test)):
                        return True
            return False

        rets = [r for r in own_nodes(fn.node) if isinstance(r, ast.Return)]
        bad = [r for r in rets if not (isinstance(r.value, ast.Constant) and r.value.value is True) and not under_ssl_guard(r)]
        falls = not isinstance(fn.node.body[-1], (ast.Return, ast.Raise))
        for r in bad[:1]:
            run.finding("C03.eof", fn, r, "eof_received() can return something other than True outside the SSL case: asyncio then closes the transport on the peer's half-close and connection_lost() throws away the packets that were received but not read yet")
        if falls and not bad:
            run.finding("C03.eof", fn, fn.node, "eof_received() can fall off its end (returns None): asyncio closes the transport on the peer's half-close and buffered packets are discarded")
        run.ob("C03.eof", f"{fn.short}:keeps-transport-open-on-half-close", not bad and not falls, returns=len(rets), ssl_flags=sorted(ssl_attrs))
    run.floor("C03.eof eof_received implementations", n, 1)


def check_send_eof_keeps_reading(eng, run):
    """half-close is not close: no `send_eof()` of an endpoint / client / transport adapter closes the object it belongs to (directly
    or through a private helper) - whatever the receive side has seen.  A send_eof() that releases the descriptor 'because both
    directions are finished' turns the sticky end-of-stream of later reads into a closed-client error."""
    from sa.norm import nodes_inl
    n = 0
    for fn in eng.db.all_functions():
        if fn.name not in ("send_eof", "send_packet") or fn.cls is None or isinstance(fn.node, ast.Lambda) or not fn.module.name.startswith("easynetwork."):
            continue  # (send_packet likewise: a failed send must not discard the packets that were already received)
        if fn.has_decorator("abstractmethod"):
            continue
        n += 1
        closes = []
        # what the class reads from: the receivers of its recv*/receive* calls (a stapled transport closes its *send* half, which it never reads)
        read_from = {dotted(c.func.value) for m in fn.cls.methods.values() if not isinstance(m.node, ast.Lambda) for c in own_nodes(m.node)
                     if isinstance(c, ast.Call) and isinstance(c.func, ast.Attribute) and c.func.attr.startswith(("recv", "receive"))} - {None}
        for x, owner in nodes_inl(fn):
            c = x.value if isinstance(x, ast.Await) and isinstance(x.value, ast.Call) else x
            if isinstance(c, ast.Call):
                nm = c.func.attr if isinstance(c.func, ast.Attribute) else getattr(c.func, "id", "")
                if nm in ("close", "aclose", "aclose_forcefully", "abort", "_close_stream_socket"):
                    target = dotted(c.func.value) if isinstance(c.func, ast.Attribute) and nm in ("close", "aclose", "abort") else (dotted(c.args[0]) if c.args else None)
                    if target == owner.self_name or target in read_from:
                        closes.append(c)
        for c in closes[:1]:
            run.finding("C03.eof", fn, _stmt_at(fn, c.lineno) if any(c is y for y in ast.walk(fn.node)) else fn.node, f"{fn.name}() runs `{ast.unparse(c)[:50]}`: closing the write half must leave the object open - "
                        "after the peer's end-of-stream a later read would fail with a closed-object error instead of the sticky end-of-stream")
        run.ob("C03.eof", f"{fn.cls.name}.{fn.name}:does-not-close", not closes)
    run.floor("C03.eof send_eof implementations", n, 6)


def run(eng, run):
    from sa.anchors import verify as _verify_anchor_names
    _verify_anchor_names(eng, run)
    run.not_decided += NOT_DECIDED
    run.attempt(check_half_close, eng, run)
    run.attempt(check_send_eof_keeps_reading, eng, run)
    from rules import c15
    from sa.report import RuleAlias as _RA
    run.attempt(c15.check_own_closing_flag, eng, _RA(run, "C03.eof"))  # is_closing() must not turn true on a socket error: end-of-stream stays ECONNABORTED, it does not become "closed client"
    from rules import c12
    from sa.report import RuleAlias
    run.attempt(c12.check_lock_with_timeout, eng, RuleAlias(run, "C03.cli"))  # a receive lock that is never released: every later recv_packet() times out
    run.attempt(check_receivers, eng, run)
    run.attempt(check_clients, eng, run)
    run.attempt(check_flow, eng, run)
    run.attempt(check_water_marks, eng, run)
    run.attempt(check_buf, eng, run)
    run.attempt(check_iterators, eng, run)
    from rules import c08
    run.attempt(c08.check_zero_read, eng, run, rule="C03.eof")
    from sa.analyses.arms import check_dead_arms
    run.attempt(check_dead_arms, eng, run, "C03.arms", ("clients.tcp", "clients.async_tcp", "lowlevel._stream", "lowlevel.api_async.transports.tls", "lowlevel.api_sync.transports"), 8)
    run.end_of_rules()


# ---------------------------------------------------------------------------------------------- self-test corpus
from sa.mutate import (Variant, delete_stmt, find_handler, find_stmt, insert_after, insert_before, rename_local, replace_expr,  # noqa: E402
                       replace_stmt, stmt_has, stmt_is)

_SR = "lowlevel.api_sync.endpoints.stream:_DataReceiverImpl"
_SBR = "lowlevel.api_sync.endpoints.stream:_BufferedReceiverImpl"
_AR = "lowlevel.api_async.endpoints.stream:_DataReceiverImpl"
_ABR = "lowlevel.api_async.endpoints.stream:_BufferedReceiverImpl"
_TCP = "clients.tcp:TCPNetworkClient"


def _drain_after_loop(fn):
    lst, i, st = find_stmt(fn, stmt_is("try:"))
    del lst[i]
    j = next(k for k, s in enumerate(lst) if isinstance(s, ast.While))
    lst.insert(j + 1, st)


MUTANTS = [
    Variant("sync-drain-after-loop", _SR + ".receive", _drain_after_loop, "C03.drain", why="packets buffered before the peer closed are only delivered after a blocking read"),
    Variant("clear-resets-latch", _AR + ".clear", lambda fn: fn.body.append(ast.parse("self._eof_reached = False").body[0]), "C03.latch",
            why="EOF is no longer sticky after clear()"),
    Variant("short-read-continue-before-feed", _AR + ".receive",
            lambda fn: insert_before(fn, stmt_is("try:"), "if len(chunk) < 2:\n    continue", 1), "C03.feed", why="a 1-byte chunk is dropped"),
    Variant("eof-raises-etimedout", _ABR + ".receive", lambda fn: replace_expr(fn, "_errno.ECONNABORTED", "_errno.ETIMEDOUT"), "C03.eof"),
    Variant("async-gate-dropped", _AR + ".receive", lambda fn: replace_expr(fn, "not self._eof_reached", "True"), "C03.gate",
            why="after EOF the next call reads the transport again"),
    Variant("sync-latch-store-false", _SBR + ".receive", lambda fn: replace_stmt(fn, stmt_is("self._eof_reached = True"), "self._eof_reached = bool(nbytes)"), "C03.latch"),
    Variant("return-partial-on-eof", _SR + ".receive",
            lambda fn: replace_stmt(fn, stmt_is("self._eof_reached = True"), "self._eof_reached = True\nreturn consumer.get_buffer()"), "C03.eof",
            why="a trailing incomplete frame is delivered as a packet"),
    Variant("tcp-convert-swallows-connection-error", _TCP + ".__convert_socket_error",
            lambda fn: setattr(find_handler(fn, "ConnectionError"), "body", [ast.parse("pass").body[0]]), "C03.cli"),
    Variant("tcp-recv-check-socket-after", _TCP + ".recv_packet",
            lambda fn: replace_stmt(fn, stmt_is("return endpoint.recv_packet(timeout=timeout)"),
                                    "packet = endpoint.recv_packet(timeout=timeout)\n_utils.check_real_socket_state(endpoint.extra(INETSocketAttribute.socket))\nreturn packet"),
            "C03.cli", why="a packet taken from the stream is discarded when SO_ERROR is pending"),
    Variant("feed-twice", _ABR + ".receive", lambda fn: insert_before(fn, stmt_is("try:"), "consumer.next(nbytes + 0)", 1), "C03.feed"),
    Variant("eof-reported-unlatched", _ABR + ".receive", lambda fn: replace_stmt(fn, stmt_is("self._eof_reached = True"), "break"), "C03.eof",
            why="end-of-stream is reported once without being latched: the next call reads the transport again"),
]

BENIGN = [
    Variant("rename-latch-local-alias", _AR + ".receive", lambda fn: rename_local(fn, "chunk", "data"), why="local renamed"),
    Variant("continue-to-else", _SBR + ".receive", lambda fn: rename_local(fn, "nbytes", "count"), why="local renamed"),
    Variant("inline-bufsize", _AR + ".receive", lambda fn: (delete_stmt(fn, stmt_has("bufsize: int = self.max_recv_size")), replace_expr(fn, "bufsize", "self.max_recv_size")), why="local inlined"),
]

_SOCKP = "lowlevel.api_async.backend._asyncio.stream.socket:StreamReaderBufferedProtocol"


def _move_oserror_arm_first(fn):
    t = next(x for x in ast.walk(fn) if isinstance(x, ast.Try) and len(x.handlers) >= 3)
    h = next(h for h in t.handlers if ast.unparse(h.type) == "OSError")
    t.handlers.remove(h)
    t.handlers.insert(1, h)


MUTANTS += [
    Variant("resume-dropped-in-receive-data-into", _SOCKP + ".receive_data_into", lambda fn: delete_stmt(fn, stmt_is("self._maybe_resume_transport()")), "C03.flow",
            why="a backlog above the high-water mark pauses reading for ever: the rest of the stream and EOF are never delivered (seed C03-5)"),
    Variant("pause-dropped-in-buffer-updated", _SOCKP + ".buffer_updated", lambda fn: delete_stmt(fn, stmt_is("self._maybe_pause_transport()")), "C03.flow",
            why="a full internal buffer is handed to the loop"),
    Variant("external-buffer-not-withdrawn-on-cancel", _SOCKP + "._wait_for_data",
            lambda fn: replace_stmt(fn, stmt_is("try:"), "nbytes_written_in_external_buffer = await self.__read_waiter\nself.__external_buffer_view = None", 1), "C03.buf",
            why="after a timed-out receive the loop writes into a released buffer: later packets never delivered (seed C03-4)"),
    Variant("ssl-eof-arm-shadowed-by-oserror", "clients.async_tcp:AsyncTCPNetworkClient.__convert_socket_error", _move_oserror_arm_first, "C03.arms",
            why="SSLError is an OSError: the ragged-EOF -> ECONNABORTED conversion never runs (seed C03-6)"),
]
BENIGN += [
    Variant("resume-before-return-via-local", _SOCKP + ".receive_data", lambda fn: replace_stmt(fn, stmt_is("return data"), "result = data\nreturn result"), why="return through a local"),
]


MUTANTS += [
    Variant("read-water-marks-in-bytes-passed-as-kib", _SOCKP + "._compute_read_buffer_limits",
            lambda fn: setattr(fn, "body", ast.parse("default_water_size = self.max_size * 3 // 4\nhigh, low = add_flowcontrol_defaults(None, None, default_water_size)\nself.__read_high_water: int = high\nself.__read_low_water: int = low").body),
            "C03.flow", why="high-water mark 192 MiB on a 256 KiB buffer: reading is never paused, a full buffer aborts the connection (seed C10-8)"),
]
