"""C19 - connection racing returns one socket and leaks none (DESIGN.md section 3, C19).

Decided: socket ownership typestate on every path (normal, OSError, other Exception, cancellation at any
await, other BaseException) of every function that creates sockets for a connection / listener, the winner
slot discipline of the staggered race, and "exactly one result".
"""
from __future__ import annotations

import ast

from sa.analyses.base import is_name
from sa.analyses.ownership import OK_EXIT, OwnershipAnalysis, SlotAnalysis
from sa.db import AnalysisError, dotted, own_nodes, norm_stmt
from sa.exc import CANCELLED
from sa.flow import Interp

RESOLVER = "lowlevel.api_async.backend._common.dns_resolver:BaseAsyncDNSResolver"

CLAIM = {
    "text": "Decides, on every path of every socket-creating function (normal return, OSError, any other Exception, cancellation at any await, any other BaseException), that each created or received socket is closed, returned, or transferred to the single winner slot under an emptiness test; that the slot's owner closes a stored winner on every exit that does not return it; that the race returns only the slot and cancels the remaining attempts on the first success. This is the whole all-paths ownership content of the property; it is decided for all completion orders at once because other tasks can only run at suspension points, which the rule quantifies over. Also decided: the resolved remote and local address lists reach the implementation unchanged from the public entry points (every binding is ensure_resolved() or None); the list the race loop iterates over is derived from the resolved address list through element-preserving transformations only and one attempt is started per element; the pending connector stays registered in the client while the race is awaited, so aclose() can cancel it; the race winner handed to AsyncTLSStreamTransport.wrap is closed on every exception exit including cancellation (ownership typestate of C14). wrap_stream_socket() runs no check that can raise for a network reason before the event loop takes the race winner over; the blocking client's constructor closes the connected socket when its remaining steps fail. Round 4: every iteration of the sequential attempt loop returns the socket or records an OSError before moving on; the adapter built around the loop's transport makes no socket system call in its constructor. Round 5: the client constructor validates max_recv_size exactly as the endpoint does (no failure after the race); a per-attempt non-blocking connect treats only BlockingIOError / InterruptedError as in-progress; wrap() closes the winner also when the SSL object cannot be created (finding F9, fixed). Round 6: between the end of the race and the hand-off to wrap_stream_socket() nothing is called on the winner outside a block that closes it; the client's best-effort option setters swallow every OSError; the winner slot may be a field of a private record (default None) shared by the attempts.",
    "note": "Trusted: close() releases the descriptor; list/set/Event operations and exception constructors do not raise (sa/tables.py); cancellation is only delivered at await / async with / async for. Not decided: which attempt wins; OS-level release.",
    "technique": "ownership typestate by abstract interpretation over an exception-aware structured CFG (ast), with an exception-class lattice; winner-slot may-be-full analysis over suspension points",
}

NOT_DECIDED = [
    "that the operating system releases the descriptor once close() was invoked",
    "which attempt wins for a given timing (any winner satisfies the property)",
]


def _raw_socket(names):
    return any(n == "socket.socket" for n in names)


def _check_ownership(eng, run, fn, var, is_acquire, slot=None, rule="C19.own", min_sites=1):
    an = OwnershipAnalysis(eng, var, is_acquire, slot=slot)
    it = Interp(an, fn)
    out = it.run()
    run.count("atoms_walked", it.atoms_walked)
    n_exits = 0
    bad = 0
    exits = [("return", None, out.ret)] + [("raise", tok, m) for tok, m in out.exc.items()]
    for kind, tok, fmap in exits:
        for (state, _slot), trace in fmap.items():
            n_exits += 1
            label = kind if tok is None else f"raise[{tok.split('.')[-1]}]"
            if state.startswith("err:"):
                bad += 1
                line = trace[-1] if trace else fn.lineno
                run.finding(rule, fn, _stmt_at(fn, line), f"{state[4:]} (path ends in {label})", trace)
            elif state not in OK_EXIT:
                bad += 1
                site = an.acquire_sites[0] if an.acquire_sites else fn.node
                what = {"owned": "still owned (never closed, returned or transferred)", "tmp": "acquired but dropped before being bound",
                        "tmpcl": "acquired but dropped before registration", "stack": "left on an un-exited ExitStack",
                        "escaped": "released from the ExitStack (pop_all) but not returned"}.get(state, state)
                run.finding(rule, fn, _exit_stmt(fn, trace, site), f"socket `{var}` {what} on exit {label}", trace)
    if len(an.acquire_sites) < min_sites:
        raise AnalysisError(f"anchor vanished: no acquire site for `{var}` in {fn.qualname}")
    run.ob(rule, f"{fn.short}:{var}", bad == 0, acquire_lines=[getattr(s, 'lineno', 0) for s in an.acquire_sites], exits=n_exits,
           exit_kinds=sorted({k if t is None else f"raise[{t.split('.')[-1]}]" for k, t, m in exits if m}))
    return an, out


def _stmt_at(fn, line):
    best = None
    for n in own_nodes(fn.node):
        if isinstance(n, ast.stmt) and getattr(n, "lineno", -1) == line:
            if best is None or not isinstance(n, (ast.Try, ast.With, ast.AsyncWith, ast.For, ast.If, ast.While)):
                best = n
    return best if best is not None else fn.node


def _exit_stmt(fn, trace, default):
    """The statement from which the leaking path leaves the protected region: last line of the witness."""
    if trace:
        return _stmt_at(fn, trace[-1])
    return default


def run(eng, run):
    from sa.anchors import verify as _verify_anchor_names
    _verify_anchor_names(eng, run)
    db = eng.db
    run.not_decided += NOT_DECIDED
    run.assumptions += [
        "close() releases the resource even if it raises",
        "list/deque/set methods, exception constructors and Event.set cannot raise (tables.CANNOT_RAISE)",
        "another task can run, and a cancellation can be delivered, only at an await / async with / async for",
    ]
    resolver = db.cls(RESOLVER.replace(":", "."))
    impl = db.fn(f"{RESOLVER}._create_connection_impl")
    race = db.fn(f"{RESOLVER}._staggered_race_connection_impl")
    udp = db.fn("clients.udp:_create_udp_socket")
    lst = db.fn("lowlevel._utils:open_listener_sockets_from_getaddrinfo_result")

    # ---- C19.own: functions that create raw sockets
    n_inst = 0
    for fn, var in ((impl, None), (udp, None), (lst, None)):
        v = var or _find_socket_var(eng, fn)
        _check_ownership(eng, run, fn, v, _raw_socket)
        n_inst += 1
    # every other function of the package that calls socket.socket(...) is held to the same rule
    for fn in db.all_functions():
        if fn in (impl, udp, lst) or isinstance(fn.node, ast.Lambda):
            continue
        for n in own_nodes(fn.node):
            if isinstance(n, ast.Call) and "socket.socket" in [t for t in eng.typer.call_targets(fn, n) if isinstance(t, str)]:
                v = _find_socket_var(eng, fn)
                _check_ownership(eng, run, fn, v, _raw_socket)
                n_inst += 1
                break

    # ---- try_connect: receives an owned socket from _create_connection_impl, transfers it to the winner slot
    tc = race.nested.get("try_connect")
    if tc is None:
        # role query: the nested coroutine that awaits _create_connection_impl
        for f in race.nested.values():
            if any(isinstance(n, ast.Call) and impl in eng.typer.call_targets(f, n) for n in own_nodes(f.node)):
                tc = f
    if tc is None:
        raise AnalysisError("anchor vanished: racing task of _staggered_race_connection_impl")
    slot = _find_slot(race, tc)
    var = _find_socket_var(eng, tc, acquire=lambda names: impl.qualname in names)
    an, out = _check_ownership(eng, run, tc, var, lambda names: impl.qualname in names, slot=slot)
    n_inst += 1

    # ---- C19.slot (writer side): scope cancelled on the first success
    _check_cancel_on_win(eng, run, race, tc, slot)

    # ---- C19.slot (owner side)
    sa = SlotAnalysis(eng, slot)
    it = Interp(sa, race)
    o = it.run()
    bad = 0
    n_exits = 0
    for kind, tok, fmap in [("return", None, o.ret)] + [("raise", t, m) for t, m in o.exc.items()]:
        for state, trace in fmap.items():
            n_exits += 1
            label = kind if tok is None else f"raise[{tok.split('.')[-1]}]"
            if state == "full" or state.startswith("err:"):
                bad += 1
                run.finding("C19.slot", race, _exit_stmt(race, trace, race.node),
                            f"winner slot `{slot}` may hold a connected socket that is neither returned nor closed on exit {label}", trace)
    run.ob("C19.slot", f"{race.short}:{slot}", bad == 0, exits=n_exits)

    # ---- C19.one: the race returns only the slot; failure raises a group
    rets = [n for n in own_nodes(race.node) if isinstance(n, ast.Return)]
    ok = bool(rets)
    for r in rets:
        if not is_name(r.value, slot):
            ok = False
            run.finding("C19.one", race, r, f"the race returns something other than the winner slot `{slot}`")
    run.ob("C19.one", f"{race.short}:returns", ok, returns=len(rets))
    raises = [n for n in own_nodes(race.node) if isinstance(n, ast.Raise) and n.exc is not None]
    ok = any(isinstance(r.exc, ast.Call) and (dotted(r.exc.func) or "").endswith("ExceptionGroup") for r in raises)
    if not ok:
        run.finding("C19.one", race, race.node, "no failure exit raising an exception group built from the collected errors")
    run.ob("C19.one", f"{race.short}:failure-exit", ok)

    # ---- connect_socket implementations acquire nothing and must not close / re-bind the caller's socket
    base = resolver.methods.get("connect_socket")
    impls = [f for f in db.overrides(resolver, "connect_socket") if f is not base]
    run.floor("connect_socket implementations", len(impls), 2)
    for f in impls:
        p = f.params()[1].arg if len(f.params()) > 1 else "socket"
        bad_nodes = []
        for n in own_nodes(f.node):
            if isinstance(n, ast.Call) and isinstance(n.func, ast.Attribute) and dotted(n.func.value) == p and n.func.attr in ("close", "detach", "shutdown"):
                bad_nodes.append(n)
            if isinstance(n, (ast.Assign, ast.AugAssign, ast.AnnAssign)):
                tg = n.targets if isinstance(n, ast.Assign) else [n.target]
                if any(is_name(t, p) for t in tg):
                    bad_nodes.append(n)
        for n in bad_nodes:
            run.finding("C19.own", f, n, f"connect_socket() closes or re-binds the caller's socket `{p}` (ownership stays with the caller, which closes it again / uses a dead socket)")
        run.ob("C19.own", f"{f.short}:borrow", not bad_nodes)
        n_inst += 1
    run.floor("C19.own instances", n_inst, 6)
    run.attempt(check_all_attempted, eng, run, race, tc)
    run.attempt(check_every_address_accounted, eng, run, impl)
    run.attempt(check_late_failures, eng, run)
    run.attempt(check_option_setters_cannot_fail_the_connection, eng, run)
    run.attempt(check_entry_lists, eng, run, resolver)
    run.attempt(check_registered, eng, run)
    run.attempt(check_winner_handoff, eng, run)
    # the race winner handed to the TLS layer: a handshake that fails *or is cancelled* closes it (ownership machinery of C14)
    from rules import c14
    from sa.analyses.closing import CloserRegistry
    registry = CloserRegistry(eng)
    run.attempt(c14.check_close_path, eng, run, registry, db.fn("lowlevel.api_async.transports.tls:AsyncTLSStreamTransport.wrap"), tracked=["transport"], exits="exc", rule="C19.own")
    # the blocking twin: the socket connected by socket.create_connection() (which walks the address list itself) is closed when the
    # rest of the constructor fails
    run.attempt(c14.check_close_path, eng, run, registry, db.fn("clients.tcp:TCPNetworkClient.__init__"), tracked=["socket", "transport"], exits="exc", rule="C19.own", late=("socket", "transport"))
    run.end_of_rules()


def check_entry_lists(eng, run, resolver):
    """the address lists (remote *and* local: bind() falls back to the next local address of the family) travel unchanged from
    the resolver to the connection attempt: in the public entry points every binding of a list that is handed to the implementation
    is `await self.ensure_resolved(...)` or None"""
    n = 0
    for name in ("create_stream_connection", "create_datagram_connection"):
        fn = resolver.methods.get(name)
        if fn is None:
            raise AnalysisError(f"anchor vanished: {resolver.name}.{name}")
        handed = {}
        for c in own_nodes(fn.node):
            if isinstance(c, ast.Call) and isinstance(c.func, ast.Attribute) and c.func.attr.endswith("_impl"):
                for k in c.keywords:
                    if k.arg and k.arg.endswith("addrinfo"):
                        handed[k.arg] = k.value
        if len(handed) < 2:
            raise AnalysisError(f"anchor vanished: {name} hands remote/local addrinfo to the implementation")
        for kw, v in handed.items():
            n += 1
            probs = []
            if not isinstance(v, ast.Name):
                probs.append(f"`{kw}={ast.unparse(v)[:50]}` is not the resolved list itself")
            else:
                for a in own_nodes(fn.node):
                    tg = a.targets if isinstance(a, ast.Assign) else ([a.target] if isinstance(a, (ast.AnnAssign, ast.AugAssign, ast.NamedExpr)) else [])
                    if any(is_name(t, v.id) for t in tg):
                        val = getattr(a, "value", None)
                        resolved = isinstance(val, ast.Await) and isinstance(val.value, ast.Call) and isinstance(val.value.func, ast.Attribute) and val.value.func.attr == "ensure_resolved"
                        none = isinstance(val, ast.Constant) and val.value is None
                        if isinstance(a, ast.AugAssign) or not (resolved or none):
                            probs.append(f"`{ast.unparse(a)[:70]}` re-binds the resolved list")
                for lp in own_nodes(fn.node):
                    if isinstance(lp, ast.Call) and isinstance(lp.func, ast.Attribute) and dotted(lp.func.value) == v.id and lp.func.attr in ("pop", "remove", "clear", "__delitem__"):
                        probs.append(f"`{ast.unparse(lp)}` removes addresses")
                    if isinstance(lp, ast.Delete) and any(dotted(getattr(t, "value", None)) == v.id for t in lp.targets):
                        probs.append(f"`{ast.unparse(lp)}` removes addresses")
            for pr in probs[:1]:
                run.finding("C19.all", fn, fn.node, f"{name}: {pr}: an address the resolver returned is never tried (for the local list: the bind() fall-back to the next address of the family is lost "
                            "and a viable attempt fails)")
            run.ob("C19.all", f"{fn.short}:{kw}:resolved-list-unchanged", not probs)
    run.floor("C19.all entry-point address lists", n, 4)


def check_every_address_accounted(eng, run, impl):
    """the sequential attempt loop of _create_connection_impl(): every iteration that does not return the socket records an OSError
    before it moves on (`continue` / end of body) - the final report (`ExceptionGroup(..., errors)`) then never meets an empty list;
    an address that is skipped silently makes the function end in a non-OSError (assert / ValueError) that the race does not
    absorb: it cancels the sibling attempts although one of them would have succeeded"""
    from sa.analyses.base import RuleAnalysis
    from sa.flow import Interp as _I

    # the list handed to the final ExceptionGroup
    errs = {a.id for r in own_nodes(impl.node) if isinstance(r, ast.Raise) and isinstance(r.exc, ast.Call) and "ExceptionGroup" in (dotted(r.exc.func) or "")
            for a in r.exc.args if isinstance(a, ast.Name)}
    loops = [x for x in impl.node.body if isinstance(x, ast.For)]
    if len(errs) != 1 or not loops:
        raise AnalysisError("anchor vanished: error list / attempt loop of _create_connection_impl")
    ev = next(iter(errs))

    class Rec(RuleAnalysis):
        tokens = ("OSError",)
        inline_helpers = True  # the bind step extracted into a private helper that records into the same (namesake) list

        def initial(self, f):
            return [False]

        def may_raise(self, node, fact):
            c = node.value if isinstance(node, ast.Await) else node
            if isinstance(c, ast.Call) and isinstance(c.func, ast.Attribute) and dotted(c.func.value) in (ev, "bind_errors"):
                return []
            if isinstance(c, ast.Call) and (dotted(c.func) or "").split(".")[-1] in ("OSError", "len", "with_traceback", "lower"):
                return []
            return ["OSError"] if isinstance(node, (ast.Call, ast.Await, ast.Raise)) else []

        def transfer(self, node, fact):
            if isinstance(node, ast.Call) and isinstance(node.func, ast.Attribute) and node.func.attr in ("append", "extend") and dotted(node.func.value) == ev:
                return [True]
            if isinstance(node, ast.Call) and isinstance(node.func, ast.Attribute) and node.func.attr == "clear" and dotted(node.func.value) == ev:
                return [False]
            return [fact]

    lp = loops[0]
    an = Rec(eng)
    it = _I(an, impl)
    an.fn = impl
    out = it.exec_block(lp.body, {False: ()})
    silent = [tr for f, tr in list(out.cont.items()) + list(out.normal.items()) if f is False]
    for tr in silent[:1]:
        run.finding("C19.all", impl, _stmt_at(impl, tr[-1]) if tr else lp, "an address is skipped without recording an OSError for it: when every address is skipped the function ends in an assertion / ValueError instead of an "
                    "OSError group, which the staggered race does not absorb - it cancels the other attempts although one of them may be succeeding", tr)
    run.ob("C19.all", f"{impl.short}:every-iteration-returns-or-records-an-error", not silent, continues=len(out.cont), error_list=ev)


def check_option_setters_cannot_fail_the_connection(eng, run):
    """after the race the async TCP client tunes the winner (TCP_NODELAY, SO_KEEPALIVE) while it is the only owner of the connected
    transport and nothing around closes it: these best-effort calls swallow every OSError (`contextlib.suppress(OSError)` or a handler
    that never re-raises).  A handler that lets 'unexpected' errnos through reports the failure but leaves the connection open."""
    fn = eng.db.cls("clients.async_tcp.AsyncTCPNetworkClient").methods.get("__create_socket")
    if fn is None:
        raise AnalysisError("anchor vanished: AsyncTCPNetworkClient.__create_socket")
    pm = {}
    for p_ in ast.walk(fn.node):
        for c_ in ast.iter_child_nodes(p_):
            pm[c_] = p_
    loops = {}
    # the setters, called directly or through a loop variable that ranges over them (`for set_option in (set_tcp_nodelay, ...)`)
    setter_names = {"set_tcp_nodelay", "set_tcp_keepalive", "setsockopt"}
    for lp in own_nodes(fn.node):
        if isinstance(lp, ast.For) and isinstance(lp.target, ast.Name) and isinstance(lp.iter, (ast.Tuple, ast.List)) and any((dotted(e) or "").split(".")[-1] in setter_names for e in lp.iter.elts):
            loops[lp.target.id] = lp
    sites = [c for c in own_nodes(fn.node) if isinstance(c, ast.Call) and (((dotted(c.func) or "").split(".")[-1] in setter_names) or (isinstance(c.func, ast.Name) and c.func.id in loops))]
    if not sites:
        raise AnalysisError("anchor vanished: socket option setters in AsyncTCPNetworkClient.__create_socket")
    bad = []
    for c in sites:
        x, safe = c, False
        while x in pm and not safe:
            x = pm[x]
            if isinstance(x, (ast.With, ast.AsyncWith)) and any(isinstance(it.context_expr, ast.Call) and (dotted(it.context_expr.func) or "").endswith("suppress")
                                                                and any((dotted(a) or "").split(".")[-1] in ("OSError", "Exception") for a in it.context_expr.args) for it in x.items):
                safe = True
            if isinstance(x, ast.Try) and any(c is y for b in x.body for y in ast.walk(b)):
                for h in x.handlers:
                    if h.type is not None and (dotted(h.type) or "").split(".")[-1] in ("OSError", "Exception") and not any(isinstance(r, ast.Raise) for b in h.body for r in ast.walk(b)):
                        safe = True
        if not safe:
            bad.append(c)
    for c in bad[:1]:
        run.finding("C19.own", fn, _stmt_at(fn, c.lineno), f"an OSError raised by `{ast.unparse(c)[:40]}` can leave __create_socket() after the connection was established: the function is the only "
                    "owner of the connected transport and nothing closes it - wait_connected() reports the error, the socket stays open")
    run.ob("C19.own", f"{fn.short}:option-setters-swallow-OSError", not bad, sites=len(sites))


def check_late_failures(eng, run):
    """two ways a connection attempt / a finished race can fail *late*, where nobody owns the socket any more:
    (a) the async TCP client hands the race winner to AsyncStreamEndpoint(...), whose constructor validates `max_recv_size`: the client's
        own constructor must have rejected every value the endpoint rejects (same comparison), else the endpoint raises after the
        race and the winner stays open;
    (b) a per-attempt connect that calls the non-blocking `socket.connect()` itself treats only BlockingIOError / InterruptedError as
        'in progress': a wider handler turns a synchronous failure (ENETUNREACH) into an attempt that 'succeeds' with an unconnected socket"""
    from sa.norm import cmp_canon
    db = eng.db

    def size_guard(fn, name):
        for i in own_nodes(fn.node):
            if isinstance(i, ast.If) and any(isinstance(r, ast.Raise) for r in i.body):
                for c in [x for x in ast.walk(i.test) if isinstance(x, ast.Compare)]:
                    cc = cmp_canon(fn, c)
                    if cc is not None and name in cc[0]:
                        return tuple(sorted((("x" if k == name else k), v) for k, v in cc[0].items())), cc[1]
        return None

    ep_mod = db.module("lowlevel.api_async.endpoints.stream")
    val = ep_mod.functions.get("_check_max_recv_size_value")
    cli = db.cls("clients.async_tcp.AsyncTCPNetworkClient").methods.get("__init__")
    if val is None or cli is None:
        raise AnalysisError("anchor vanished: max_recv_size validation of the stream endpoint / async TCP client")
    want = size_guard(val, val.params()[0].arg)
    got = size_guard(cli, "max_recv_size")
    ok = want is not None and got == want
    if not ok:
        run.finding("C19.own", cli, cli.node, f"the client constructor's check of `max_recv_size` ({got}) is not the endpoint's ({want}): a value the endpoint rejects passes the constructor, "
                    "the endpoint raises after the connection race has produced its winner, and that socket is neither returned nor closed")
    run.ob("C19.own", f"{cli.short}:max_recv_size-validated-like-the-endpoint", ok, endpoint=str(want), client=str(got))
    n = 0
    for fn in db.all_functions():
        if isinstance(fn.node, ast.Lambda) or fn.name != "connect_socket":
            continue
        for t in [x for x in own_nodes(fn.node) if isinstance(x, ast.Try)]:
            if not any(isinstance(c, ast.Call) and isinstance(c.func, ast.Attribute) and c.func.attr == "connect" for b in t.body for c in ast.walk(b)):
                continue
            n += 1
            for h in t.handlers:
                names = {n_.split(".")[-1] for n_ in (eng.lattice.handler_classes(fn, h.type) or ["<bare>"])}
                swallow = not any(isinstance(r, ast.Raise) for r in ast.walk(h))
                ok = not swallow or names <= {"BlockingIOError", "InterruptedError"}
                if not ok:
                    run.finding("C19.one", fn, h, f"`except {ast.unparse(h.type) if h.type else ''}` around the non-blocking connect() swallows more than BlockingIOError: a connect that fails at once "
                                "is treated as in progress, the socket polls writable with SO_ERROR 0 and the failed attempt wins the race with an unconnected socket")
                run.ob("C19.one", f"{fn.module.name.split('.')[-2]}.{fn.short}:only-EINPROGRESS-is-in-progress", ok, handler=sorted(names))
    run.count("explicit_nonblocking_connects", n)


def _inside_lambda(root, node):
    for lam in ast.walk(root):
        if isinstance(lam, ast.Lambda) and any(x is node for x in ast.walk(lam)):
            return True
    return False


def check_winner_handoff(eng, run):
    """the race winner is handed from create_tcp_connection() to wrap_stream_socket() with no clean-up around the call: between its
    entry and the point where the event loop takes the socket over (which closes it on failure) wrap_stream_socket() runs no check
    that can raise for a network reason - the connected socket would be neither returned nor closed"""
    from sa.analyses.hold import explicit_raiser
    n = 0
    for ci in eng.db.classes.values():
        ctc, wss = ci.methods.get("create_tcp_connection"), ci.methods.get("wrap_stream_socket")
        if ctc is None or wss is None or not ci.module.name.startswith("easynetwork.lowlevel.api_async.backend"):
            continue
        # is the call unprotected in create_tcp_connection?
        call = next((c for c in own_nodes(ctc.node) if isinstance(c, ast.Call) and isinstance(c.func, ast.Attribute) and c.func.attr == "wrap_stream_socket"), None)
        if call is None:
            continue
        protected = any(isinstance(t, ast.Try) and any(call in list(ast.walk(b)) for b in t.body) and t.handlers for t in own_nodes(ctc.node))
        if protected:
            continue
        n += 1
        # ... in create_tcp_connection() itself: from the moment the race hands the winner back to the hand-off call, nothing is called on
        # (or with) the socket outside a try block that closes it - a `getpeername()` on a connection the peer has already reset raises
        # ENOTCONN and the winner is neither returned nor closed
        win = next((a for a in own_nodes(ctc.node) if isinstance(a, (ast.Assign, ast.AnnAssign)) and isinstance(getattr(a, "value", None), ast.Await) and isinstance(a.value.value, ast.Call)
                    and "create_" in ast.unparse(a.value.value.func) and "connection" in ast.unparse(a.value.value.func)), None)
        wname = None
        if win is not None:
            t0 = (win.targets[0] if isinstance(win, ast.Assign) else win.target)
            wname = t0.id if isinstance(t0, ast.Name) else None
        if wname is not None:
            between = [c for c in own_nodes(ctc.node) if isinstance(c, ast.Call) and getattr(win, 'end_lineno', win.lineno) < c.lineno and c is not call and c.lineno <= call.lineno
                       and ((isinstance(c.func, ast.Attribute) and dotted(c.func.value) == wname and c.func.attr != "close") or any(isinstance(a, ast.Name) and a.id == wname for a in c.args))]
            guarded = lambda c: any(isinstance(t, ast.Try) and any(c in list(ast.walk(b)) for b in t.body) and any(any(isinstance(x, ast.Call) and isinstance(x.func, ast.Attribute) and x.func.attr == "close" and dotted(x.func.value) == wname for hb in h.body for x in ast.walk(hb)) for h in t.handlers) for t in own_nodes(ctc.node))  # noqa: E731
            loose = [c for c in between if not guarded(c)]
            for c in loose[:1]:
                run.finding("C19.own", ctc, _stmt_at(ctc, c.lineno), f"`{ast.unparse(c)[:50]}` runs on the race winner between the end of the race and the hand-off to wrap_stream_socket(), outside any block that "
                            "closes it: if it raises (the peer reset the connection: ENOTCONN) the connected socket is neither returned nor closed")
            run.ob("C19.own", f"{ci.name}.create_tcp_connection:nothing-failable-on-the-winner-before-the-hand-off", not loose, winner=wname)
        sock = wss.params()[1].arg if len(wss.params()) > 1 else "socket"
        bad = []
        for st in wss.node.body:
            if any(isinstance(x, ast.Await) for x in ast.walk(st)):
                break  # the hand-off to the event loop / the backend's socket wrapper
            for c in ast.walk(st):
                if isinstance(c, ast.Call) and any(isinstance(a, ast.Name) and a.id == sock for a in c.args):
                    for t in eng.typer.call_targets(wss, c, dispatch=False):
                        if hasattr(t, "qualname") and not isinstance(t, str) and explicit_raiser(eng, t):
                            bad.append((c, t))
        for c, t in bad[:1]:
            run.finding("C19.own", wss, _stmt_at(wss, c.lineno), f"`{ast.unparse(c)[:60]}` can raise for a network reason (the peer reset the connection) while this function is the only owner of the "
                        "race winner: the socket is neither returned nor closed")
        run.ob("C19.own", f"{ci.name}.wrap_stream_socket:no-failable-check-before-the-hand-off", not bad)
        # ... and after the hand-off: the adapter built around the loop's transport makes no socket system call in its constructor that
        # can fail once the peer has reset the connection (nothing closes the transport if the constructor raises)
        SYSCALLS = {"getpeername", "getsockopt", "setsockopt", "recv", "send", "shutdown", "getsockname", "recv_into", "sendall"}
        for ret in [r for r in own_nodes(wss.node) if isinstance(r, ast.Return) and isinstance(r.value, ast.Call)]:
            for t in eng.typer.call_targets(wss, ret.value):
                init = t if hasattr(t, "node") and not isinstance(t, str) and getattr(t, "name", "") == "__init__" else None
                if init is None and hasattr(t, "find_method"):
                    init = t.find_method("__init__")
                if init is None or isinstance(init.node, ast.Lambda):
                    continue
                socks = {tg.id for a in own_nodes(init.node) if isinstance(a, (ast.Assign, ast.AnnAssign)) and a.value is not None
                         and any(isinstance(c, ast.Constant) and c.value == "socket" for c in ast.walk(a.value))
                         for tg in (a.targets if isinstance(a, ast.Assign) else [a.target]) if isinstance(tg, ast.Name)}
                direct = [c for c in own_nodes(init.node) if isinstance(c, ast.Call) and isinstance(c.func, ast.Attribute) and c.func.attr in SYSCALLS
                          and isinstance(c.func.value, ast.Name) and c.func.value.id in socks and not _inside_lambda(init.node, c)]
                for c in direct[:1]:
                    run.finding("C19.own", init, _stmt_at(init, c.lineno), f"`{ast.unparse(c)[:50]}` is a socket system call made in the adapter's constructor, after the event loop took the race winner over: if the peer "
                                "has already reset the connection it raises, the constructor fails and nothing closes the transport - the winning socket stays open, owned by nobody")
                run.ob("C19.own", f"{init.short}:no-socket-syscall-in-constructor", not direct, socket_locals=sorted(socks))
    run.floor("C19.own backends handing the race winner to wrap_stream_socket", n, 1)


def check_registered(eng, run):
    """the pending connector stays registered in the client while the race is awaited: aclose() cancels the race through that
    attribute - detaching it before the await makes aclose() return at once while the attempt completes and its socket stays open"""
    from sa.analyses.base import RuleAnalysis
    from sa.flow import Interp as _I

    for _q in ("clients.async_tcp.AsyncTCPNetworkClient", "clients.async_udp.AsyncUDPNetworkClient"):
        _check_registered_one(eng, run, eng.db.cls(_q), RuleAnalysis, _I)


def _check_registered_one(eng, run, ci, RuleAnalysis, _I):
    ac = ci.methods.get("aclose")
    if ac is None:
        raise AnalysisError(f"anchor vanished: {ci.name}.aclose")
    attrs = set()
    for c in own_nodes(ac.node):
        if isinstance(c, ast.Call) and isinstance(c.func, ast.Attribute) and c.func.attr == "cancel":
            d = dotted(c.func.value) or ""
            parts = d.split(".")
            if len(parts) >= 2 and parts[0] != ac.self_name:
                # `pending = self.__connector; ... pending.scope.cancel()`: look through the local
                from sa.analyses.buffers import through_local
                v = through_local(ac, ast.Name(id=parts[0], ctx=ast.Load()))
                if isinstance(v, ast.Attribute) and dotted(v.value) == ac.self_name:
                    parts = [ac.self_name, v.attr] + parts[1:]
            if len(parts) >= 3 and parts[0] == ac.self_name:
                attrs.add(".".join(parts[1:2]))
    if len(attrs) != 1:
        raise AnalysisError("anchor vanished: the connector whose scope aclose() cancels")
    attr = next(iter(attrs))
    n = 0
    for fn in ci.methods.values():
        if not fn.is_async or fn is ac:
            continue
        full = f"{fn.self_name}.{attr}"
        aliases = {t.id for a in own_nodes(fn.node) if isinstance(a, (ast.Assign, ast.NamedExpr)) and dotted(a.value) == full
                   for t in ([a.target] if isinstance(a, ast.NamedExpr) else a.targets) if isinstance(t, ast.Name)}
        aliases |= {x.id for a in own_nodes(fn.node) if isinstance(a, ast.Assign) and isinstance(a.value, ast.Tuple) for t in a.targets if isinstance(t, ast.Tuple)
                    for x, v in zip(t.elts, a.value.elts) if isinstance(x, ast.Name) and dotted(v) == full}
        drives = [w for w in own_nodes(fn.node) if isinstance(w, ast.Await) and isinstance(w.value, ast.Call) and isinstance(w.value.func, ast.Attribute)
                  and (dotted(w.value.func.value) in aliases or dotted(w.value.func.value) == full)]
        if not drives:
            continue
        n += 1

        class Reg(RuleAnalysis):
            tokens = ("Exception", CANCELLED)

            def initial(self, f):
                self.bad = []
                return ["registered"]

            def transfer(self, node, fact):
                if isinstance(node, ast.Assign):
                    for t in node.targets:
                        pairs = list(zip(t.elts, node.value.elts)) if isinstance(t, ast.Tuple) and isinstance(node.value, ast.Tuple) else [(t, node.value)]
                        for tt, vv in pairs:
                            if dotted(tt) == full:
                                fact = "detached" if isinstance(vv, ast.Constant) and vv.value is None else "registered"
                    return [fact]
                if node in drives and fact == "detached":
                    self.bad.append(node)
                return [fact]

        an = Reg(eng)
        _I(an, fn).run()
        for b in an.bad[:1]:
            run.finding("C19.own", fn, _stmt_at(fn, b.lineno), f"the connection race is awaited after `{full}` was reset: aclose() finds nothing to cancel, returns at once, and the attempt "
                        "that completes afterwards leaves its socket open on a closed client")
        run.ob("C19.own", f"{fn.short}:connector-registered-while-awaited", not an.bad, awaits=len(drives))
    run.floor("C19.own functions awaiting the pending connector", n, 1)


PRESERVING = {"chain", "from_iterable", "zip_longest", "list", "tuple", "values", "items", "sorted", "reversed", "OrderedDict", "dict", "iter"}
LOSSY = {"zip": "truncates to the shortest input", "islice": "takes a prefix", "set": "drops duplicates and order", "frozenset": "drops duplicates and order",
         "filter": "drops elements", "takewhile": "stops at the first mismatch", "dropwhile": "drops a prefix", "compress": "drops elements", "random": "", "sample": "takes a sample"}


def check_all_attempted(eng, run, race, tc):
    """C19.all: every resolved address reaches a connection attempt - the list transformations applied to the
    address list are element-preserving and the race loop starts an attempt for every element."""
    from sa.analyses.base import RuleAnalysis
    from sa.flow import ForIter, Interp as _I

    db = eng.db
    mod = race.module
    # (a) helper functions applied to the address list in the race: walk back from the list the race loop iterates over to the
    # parameter holding the resolved addresses, through single-assignment locals
    from sa.analyses.buffers import assignments
    spawn_loops = [x for x in own_nodes(race.node) if isinstance(x, ast.For) and isinstance(x.iter, ast.Name)
                   and any(isinstance(c, ast.Call) and isinstance(c.func, ast.Attribute) and c.func.attr == "start_soon" and any(is_name(a, tc.name) for a in c.args) for c in ast.walk(x))]
    params = {a.arg for a in race.params()}
    helpers = []
    asg = assignments(race)
    todo, seen_names, reaches_param = [lp.iter.id for lp in spawn_loops], set(), False
    while todo:
        nm = todo.pop()
        if nm in seen_names:
            continue
        seen_names.add(nm)
        if nm in params:
            reaches_param = True
        for v in asg.get(nm, []):
            for c in ast.walk(v):
                if isinstance(c, ast.Call) and isinstance(c.func, ast.Name) and c.func.id in mod.functions and mod.functions[c.func.id] not in helpers:
                    helpers.append(mod.functions[c.func.id])
                if isinstance(c, ast.Name) and c.id != nm:
                    todo.append(c.id)
    if spawn_loops and not reaches_param:
        run.finding("C19.all", race, spawn_loops[0], "the list the race loop iterates over is not derived from the resolved address list")
    run.ob("C19.all", f"{race.short}:race-list-derived-from-resolved-addresses", bool(spawn_loops) and reaches_param, via=sorted(seen_names))
    for h in helpers:
        probs = []
        for c in own_nodes(h.node):
            if isinstance(c, ast.Call):
                nm = c.func.attr if isinstance(c.func, ast.Attribute) else getattr(c.func, "id", "")
                if nm in LOSSY and not (isinstance(c.func, ast.Attribute) and nm in ("set",)):
                    probs.append((c, f"`{nm}()` {LOSSY[nm]}"))
            if isinstance(c, ast.Subscript) and isinstance(c.slice, ast.Slice) and isinstance(c.ctx, ast.Load) and dotted(c.value) in {a.arg for a in h.params()}:
                probs.append((c, "a slice of the address list drops elements"))
        # per-element loops place the element exactly once on every path
        param = h.params()[0].arg if h.params() else None
        for lp in [x for x in own_nodes(h.node) if isinstance(x, ast.For) and dotted(x.iter) == param and isinstance(x.target, ast.Name)]:
            elem = lp.target.id

            class Place(RuleAnalysis):
                tokens = ("Exception",)

                def initial(self, f):
                    return [0]

                def may_raise(self, node, fact):
                    return []

                def transfer(self, node, fact):
                    if isinstance(node, ast.Call) and isinstance(node.func, ast.Attribute) and node.func.attr in ("append", "insert", "appendleft", "add") and any(is_name(a, elem) for a in node.args):
                        return [min(fact + 1, 2)]
                    return [fact]

            an = Place(eng)
            it = _I(an, h)
            out = it.exec_block(lp.body, {0: ()})
            counts = set(out.normal) | set(out.cont)
            if counts != {1} or out.brk or out.ret:
                probs.append((lp, f"the loop places an address {sorted(counts)} times on some path / leaves early (every address must be placed exactly once)"))
        for node, why in probs:
            run.finding("C19.all", h, node if isinstance(node, ast.stmt) else h.node, f"{h.name}: {why}: a resolved address is never attempted although it may be the only reachable one")
        run.ob("C19.all", f"{h.short}:element-preserving", not probs)
    run.floor("C19.all address-list transformations", len(helpers), 2)
    # (b) the race loop starts one attempt per address
    loops = spawn_loops
    ok = len(loops) == 1
    if ok:
        lp = loops[0]
        spawn = [c for c in ast.walk(lp) if isinstance(c, ast.Call) and isinstance(c.func, ast.Attribute) and c.func.attr == "start_soon" and any(is_name(a, tc.name) for a in c.args)
                 and isinstance(lp.target, ast.Name) and any(is_name(a, lp.target.id) for a in c.args)]
        early = [x for x in ast.walk(lp) if isinstance(x, (ast.Break, ast.Continue, ast.Return))]
        first = lp.body[0] if lp.body else None
        ok = len(spawn) == 1 and not early and not any(isinstance(x, ast.If) for x in lp.body)
    if not ok:
        run.finding("C19.all", race, loops[0] if loops else race.node, "the race loop no longer starts exactly one connection attempt for every resolved address")
    run.ob("C19.all", f"{race.short}:one-attempt-per-address", ok)


def _find_socket_var(eng, fn, acquire=_raw_socket):
    """Name of the local that receives the acquired socket (role query, not a fixed name)."""
    for n in own_nodes(fn.node):
        if isinstance(n, ast.Assign) and len(n.targets) == 1 and isinstance(n.targets[0], ast.Name):
            for sub in ast.walk(n.value):
                if isinstance(sub, ast.Call):
                    names = [t if isinstance(t, str) else getattr(t, "qualname", "") for t in eng.typer.call_targets(fn, sub)]
                    if names and acquire(names):
                        return n.targets[0].id
    raise AnalysisError(f"anchor vanished: no socket acquisition bound to a local in {fn.qualname}")


def _find_slot(race, tc):
    for n in own_nodes(tc.node):
        if isinstance(n, ast.Nonlocal):
            if len(n.names) == 1:
                return n.names[0]
    # the slot as a field of a record shared by the attempts (`race = _ConnectionRace()` ... `if race.winner is None: race.winner = socket`):
    # a field of a local of the outer function, bound there to an instance of a class of this module whose field defaults to None
    from sa.analyses.base import none_test
    for n in own_nodes(tc.node):
        if isinstance(n, ast.If):
            nt = none_test(n.test)
            if nt and "." in nt[0] and nt[0].count(".") == 1:
                base, field_ = nt[0].split(".")
                stores = [s for s in ast.walk(n) if isinstance(s, ast.Assign) and any(dotted(t) == nt[0] for t in s.targets)]
                binds = [a for a in own_nodes(race.node) if isinstance(a, (ast.Assign, ast.AnnAssign)) and isinstance(getattr(a, "value", None), ast.Call)
                         and any(isinstance(t, ast.Name) and t.id == base for t in (a.targets if isinstance(a, ast.Assign) else [a.target]))]
                if not stores or len(binds) != 1 or not isinstance(binds[0].value.func, ast.Name) or binds[0].value.args or binds[0].value.keywords:
                    continue
                ci = race.module.classes.get(binds[0].value.func.id)
                cnode = getattr(ci, "node", None)
                if cnode is None:
                    continue
                dflt = [s for s in cnode.body if isinstance(s, ast.AnnAssign) and isinstance(s.target, ast.Name) and s.target.id == field_]
                if len(dflt) == 1 and isinstance(dflt[0].value, ast.Constant) and dflt[0].value.value is None:
                    return nt[0]
    raise AnalysisError("anchor vanished: nonlocal winner slot in the racing task")


def _check_cancel_on_win(eng, run, race, tc, slot):
    """On the path that stores into the slot, the connection scope is cancelled (later attempts are abandoned)."""
    scope_vars = set()
    for n in own_nodes(race.node):
        if isinstance(n, ast.With):
            for it in n.items:
                if isinstance(it.context_expr, ast.Call) and isinstance(it.context_expr.func, ast.Attribute) and it.context_expr.func.attr == "open_cancel_scope" and isinstance(it.optional_vars, ast.Name):
                    scope_vars.add(it.optional_vars.id)
    ok = False
    store = None
    for n in own_nodes(tc.node):
        if isinstance(n, ast.If):
            for body in (n.body, n.orelse):
                stores = [s for s in body if isinstance(s, ast.Assign) and any(is_name(t, slot) for t in s.targets)]
                if stores:
                    store = stores[0]
                    for s in body[body.index(stores[0]) + 1:]:
                        for c in ast.walk(s):
                            if isinstance(c, ast.Call) and isinstance(c.func, ast.Attribute) and c.func.attr == "cancel" and dotted(c.func.value) in scope_vars:
                                ok = True
    if not ok:
        run.finding("C19.one", tc, store if store is not None else tc.node, "the connection scope is not cancelled after a winner was stored: slower attempts keep running and connecting")
    run.ob("C19.one", f"{tc.short}:cancel-on-win", ok, scope_vars=sorted(scope_vars))


# ---------------------------------------------------------------------------------------------- self-test corpus
from sa.mutate import (Variant, delete_stmt, find_handler, insert_after, rename_local, replace_stmt,  # noqa: E402
                       set_handler_type, stmt_is)

_IMPL = "lowlevel.api_async.backend._common.dns_resolver:BaseAsyncDNSResolver._create_connection_impl"
_RACE = "lowlevel.api_async.backend._common.dns_resolver:BaseAsyncDNSResolver._staggered_race_connection_impl"
_TC = _RACE + ".<locals>.try_connect"
_UDP = "clients.udp:_create_udp_socket"
_LST = "lowlevel._utils:open_listener_sockets_from_getaddrinfo_result"


def _drop_close_in_handler(type_text, nth):
    def edit(fn):
        h = find_handler(fn, type_text, nth)
        delete_stmt(h, stmt_is("socket.close()"))
    return edit


def _wrap_with_closing(fn):
    # benign: try/except BaseException: close; raise  ==> same thing spelled with a local alias
    rename_local(fn, "socket", "sock_")


MUTANTS = [
    Variant("impl-drop-close-baseexc", _IMPL, _drop_close_in_handler("BaseException", 1), "C19.own",
            why="cancellation during connect leaks the socket"),
    Variant("impl-narrow-to-exception", _IMPL, lambda fn: set_handler_type(fn, "BaseException", "Exception", 1), "C19.own",
            why="only the Cancelled edge leaks"),
    Variant("impl-drop-close-oserror", _IMPL, _drop_close_in_handler("OSError", 2), "C19.own",
            why="failed connect attempt leaks its socket"),
    Variant("impl-drop-close-bindfail", _IMPL, lambda fn: delete_stmt(fn, stmt_is("socket.close()"), 0), "C19.own",
            why="all binds failed: socket dropped by `continue`"),
    Variant("udp-drop-close-baseexc", _UDP, _drop_close_in_handler("BaseException", 1), "C19.own"),
    Variant("race-loser-not-closed", _TC, lambda fn: replace_stmt(fn, stmt_is("socket.close()"), "pass"), "C19.own",
            why="second finisher's socket is dropped"),
    Variant("race-overwrite-winner", _TC,
            lambda fn: replace_stmt(fn, stmt_is("if winner is None"), "winner = socket\nconnection_scope.cancel()"), "C19.own",
            why="slot overwritten unconditionally: first winner leaks when two attempts finish in the same tick"),
    Variant("race-await-after-win", _TC, lambda fn: insert_after(fn, stmt_is("winner = socket"), "await backend.coro_yield()"), "C19.own",
            why="cancellation can land between connected and returned"),
    Variant("race-winner-not-closed-on-cancel", _RACE, lambda fn: delete_stmt(fn, stmt_is("winner.close()")), "C19.slot",
            why="caller cancelled after a winner was stored"),
    Variant("race-winner-handler-narrowed", _RACE, lambda fn: set_handler_type(fn, "BaseException", "Exception", 0), "C19.slot"),
    Variant("race-no-scope-cancel", _TC, lambda fn: delete_stmt(fn, stmt_is("connection_scope.cancel()")), "C19.one"),
    Variant("interleave-zip-truncates", "lowlevel.api_async.backend._common.dns_resolver:_interleave_addrinfos",
            lambda fn: __import__("sa.mutate", fromlist=["replace_expr"]).replace_expr(fn, "itertools.zip_longest(*addrinfos_lists)", "zip(*addrinfos_lists)"), "C19.all",
            why="with 1 IPv6 + 3 IPv4 addresses only the first of each family is attempted"),
    Variant("prioritize-drops-duplicates-of-family", "lowlevel.api_async.backend._common.dns_resolver:_prioritize_ipv6_over_ipv4",
            lambda fn: __import__("sa.mutate", fromlist=["replace_stmt"]).replace_stmt(fn, stmt_is("reordered.append(addr)"), "pass"), "C19.all"),
    Variant("listeners-pop-all-early", _LST,
            lambda fn: (delete_stmt(fn, stmt_is("socket_exit_stack.pop_all()")), insert_before_loop(fn)), "C19.own",
            why="sockets released from the stack before the error check: bind errors leak all sockets"),
]


def insert_before_loop(fn):
    from sa.mutate import insert_before
    insert_before(fn, stmt_is("if errors:"), "socket_exit_stack.pop_all()")


BENIGN = [
    Variant("impl-rename-socket", _IMPL, lambda fn: rename_local(fn, "socket", "sock_"), why="local renamed"),
    Variant("race-rename-winner", _RACE, lambda fn: rename_local(fn, "winner", "first"), also=[],
            why="slot renamed consistently (nonlocal included)"),
    Variant("udp-close-before-clear", _UDP,
            lambda fn: (delete_stmt(find_handler(fn, "BaseException", 1), stmt_is("errors.clear()")),
                        insert_after(find_handler(fn, "BaseException", 1), stmt_is("socket.close()"), "errors.clear()")),
            why="independent statements re-ordered"),
]

_ENS = "clients.async_tcp:AsyncTCPNetworkClient.__ensure_connected"
_CSC = RESOLVER + ".create_stream_connection"
_WRAP = "lowlevel.api_async.transports.tls:AsyncTLSStreamTransport.wrap"


def _detach_before_await(fn):
    from sa.mutate import replace_expr, stmt_is
    replace_expr(fn, "(socket_connector := self.__socket_connector) is not None", "socket_connector is not None")
    delete_stmt(fn, stmt_is("self.__socket_connector = None"))
    iff = next(n for n in ast.walk(fn) if isinstance(n, ast.If) and "socket_connector is not None" in ast.unparse(n.test))
    for blk in [n.body for n in ast.walk(fn) if hasattr(n, "body") and isinstance(getattr(n, "body"), list)]:
        if iff in blk:
            blk.insert(blk.index(iff), ast.parse("socket_connector, self.__socket_connector = self.__socket_connector, None").body[0])


MUTANTS += [
    Variant("connector-detached-before-the-race-is-awaited", _ENS, _detach_before_await, "C19.own",
            why="aclose() during wait_connected() cannot cancel the race: the socket stays open on a closed client (seed C19-4)"),
    Variant("tls-wrap-cleanup-narrowed-to-exception", _WRAP, lambda fn: __import__("sa.mutate", fromlist=["set_handler_type"]).set_handler_type(fn, "BaseException", "Exception"), "C19.own",
            why="a connect cancelled during the TLS handshake leaks the race winner (seed C19-5)"),
    Variant("local-addresses-first-per-family", _CSC,
            lambda fn: insert_after(fn, __import__("sa.mutate", fromlist=["stmt_has"]).stmt_has("local_addrinfo = await self.ensure_resolved"), "local_addrinfo = list({info[0]: info for info in reversed(local_addrinfo)}.values())"),
            "C19.all", why="bind() fall-back to the next local address of the family is lost (seed C19-6)"),
]


MUTANTS += [
    Variant("asyncio-wrap-validates-connectedness-before-the-hand-off", "lowlevel.api_async.backend._asyncio.backend:AsyncIOBackend.wrap_stream_socket",
            lambda fn: fn.body.insert(1, ast.parse("_utils.check_socket_is_connected(socket)").body[0]), "C19.own",
            why="a peer reset between the TCP handshake and the wrap: ENOTCONN is raised and the race winner leaks (seed C19-8)"),
]
