"""C07 - receive buffering is bounded by the configured limit (DESIGN.md section 3, C07)."""
from __future__ import annotations

import ast

from sa.analyses.base import RuleAnalysis
from sa.analyses.buffers import assignments, deps, linear, yield_vars
from sa.analyses.buffers import through_local
from sa.db import AnalysisError, ClassInfo, FunctionInfo, dotted, mangle, norm_stmt, own_nodes
from sa.flow import Interp, TestAtom, call_of

CLAIM = {
    "text": "Decides the existence and placement of the bounding constructs: (guard) in every deserializer generator that accumulates received data (`x += yield`, `file.write((yield))`, `list.append(<yielded>)`) no path leads from one accumulation to the next without passing a test that compares the accumulator's size (or an offset derived from it) with the limit or with the bound that ends the accumulation, and every such accumulating loop contains a LimitOverrunError exit - so an unterminated frame cannot grow the buffer by more than one read beyond the limit; (early) the `separator not found` limit error is raised only after the search of the same round failed, and the `found but too long` test dominates the slice that returns the frame; (fixed) the buffered consumer's buffer is assigned only from protocol.create_buffer() or None and never grown, and every create_deserializer_buffer computes its size from the limit / size attribute, sizehint and literals only, with the limit as an upper bound where the serializer has one; (thread) the limit given to the constructor is validated > 0, stored once, and reaches every guard unchanged. For the separator framers, whose scanner takes its limit from len(buffer), the allocated size is exactly the configured limit and does not depend on the size hint. A size compared with the limit is the accumulator itself or a local computed from it since the last accumulation (no stale snapshot); the limit error of an inherited incremental parser can leave every concrete subclass's entry point as LimitOverrunError (it is not swallowed by the subclass's expected-error set); the JSON escape predicate rule of C01 is shared (a mis-framed string makes small frames hit the limit). Round 6: a size test delegated to a helper of the module (`if size > limit: raise LimitOverrunError`), also through a local alias, counts as the size test between two accumulations.",
    "note": "Trusted: bytearray/bytes semantics. Documented scope exception: the compressor wrapper has no limit parameter (outside the property's stated scope). Not decided: the exact numeric acceptance band (limit + one read + separator), chunking-independence of acceptance near the limit (DESIGN section 5 O2).",
    "technique": "typestate (accumulate -> bounding test -> accumulate) by abstract interpretation, dominance-style ordering facts, who-writes and allocation-size leaf queries on the ast program database",
}
NOT_DECIDED = ["the exact numeric band in which an unterminated frame is rejected", "that acceptance near the limit is chunking-independent (value level; DESIGN section 5 O2)"]

NO_LIMIT_BY_DESIGN = {"AbstractCompressorSerializer.__generic_incremental_deserialize": "the compressor wrapper has no limit parameter: outside the property's stated scope"}


def _stmt_of(fn, node):
    best = None
    for n in own_nodes(fn.node):
        if isinstance(n, ast.stmt) and n.lineno <= getattr(node, "lineno", 0) <= getattr(n, "end_lineno", n.lineno):
            if best is None or (n.lineno >= best.lineno and not isinstance(n, (ast.Try, ast.With, ast.For, ast.If, ast.While))):
                best = n
    return best or fn.node


def _cname(c):
    return (c.func.attr if isinstance(c.func, ast.Attribute) else getattr(c.func, "id", "")) if c is not None else ""


def _has_yield(e) -> bool:
    return any(isinstance(x, ast.Yield) for x in ast.walk(e))


class Accumulate(RuleAnalysis):
    """fact = (pending, searched, size_ok, limit_ok): what happened since the last accumulation of received data.
    Between two accumulations there must be a test of the accumulated size; if a search / parse round ran in
    between (the frame end was looked for and not found) that test must be against the *limit*."""
    tokens = ("Exception",)

    def __init__(self, engine, size_names: set[str], limit_names: set[str], accs: set[str] | None = None):
        super().__init__(engine)
        self.size_names = size_names
        self.limit_names = limit_names
        self.accs = accs or set()
        self.acc_sites = []
        self.viol = []
        self.stale_tests = []

    def initial(self, fn):
        return [(False, False, False, False, frozenset())]

    def _current(self, e, fresh) -> bool:
        """does e look at the accumulator as it is *now*: the accumulator itself (len(acc), acc.nbytes, a view of it) or a local computed from
        it since the last accumulation"""
        for x in ast.walk(e):
            if isinstance(x, ast.Name) and (x.id in self.accs or x.id in fresh):
                return True
            if isinstance(x, ast.Attribute) and dotted(x) in self.accs:
                return True
        return False

    def may_raise(self, node, fact):
        c = call_of(node)
        if isinstance(node, ast.Call) and c is not None and _cname(c) in ("load_from_file", "next", "send"):
            return ["Exception"]  # EOFError / StopIteration style "need more data" signals
        return []

    def _from_yield(self, e) -> bool:
        if _has_yield(e):
            return True
        if self.fn is not None and isinstance(e, ast.Name):
            if not hasattr(self, "_yv") or self._yv[0] is not self.fn:
                self._yv = (self.fn, yield_vars(self.fn))
            return e.id in self._yv[1]
        return False

    def _is_acc(self, node) -> str | None:
        if isinstance(node, ast.AugAssign) and isinstance(node.op, ast.Add) and self._from_yield(node.value) and isinstance(node.target, ast.Name):
            return node.target.id
        if isinstance(node, ast.Assign) and isinstance(node.value, ast.BinOp) and isinstance(node.value.op, ast.Add) and _has_yield(node.value) and isinstance(node.targets[0], ast.Name):
            return node.targets[0].id
        if isinstance(node, ast.Call) and _cname(node) in ("write", "append", "extend", "feed") and any(self._from_yield(a) for a in node.args):
            return dotted(node.func.value) if isinstance(node.func, ast.Attribute) else None
        return None

    def _mentions(self, test, names) -> bool:
        got = {x.id for x in ast.walk(test) if isinstance(x, ast.Name)} | {dotted(x) for x in ast.walk(test) if isinstance(x, ast.Attribute)}
        return bool(got & names)

    def _checks_limit(self, call, fresh, pending) -> bool:
        """a call of a function of this module (possibly through a local alias: `check = _Parser._check_size`) whose body is the guard
        `if <size param> > <limit param>: raise LimitOverrunError(...)`, given the current accumulated size and the limit"""
        if self.fn is None:
            return False
        f = call.func
        if isinstance(f, ast.Name):
            from sa.analyses.buffers import through_local
            f = through_local(self.fn, f)
        name = (dotted(f) or "").split(".")[-1]
        if not name:
            return False
        cands = [g for g in self.fn.module.functions.values() if g.name == name] + [m for ci in self.fn.module.classes.values() for m in ci.methods.values() if m.name == name]
        for g in cands:
            if isinstance(g.node, ast.Lambda):
                continue
            ps = [a.arg for a in g.params()]
            if g.cls is not None and ps and not g.has_decorator("staticmethod"):
                ps = ps[1:]
            amap = dict(zip(ps, call.args))
            amap.update({k.arg: k.value for k in call.keywords if k.arg})
            for i in own_nodes(g.node):
                if isinstance(i, ast.If) and isinstance(i.test, ast.Compare) and len(i.test.ops) == 1 and isinstance(i.test.ops[0], (ast.Gt, ast.GtE)) \
                        and any(isinstance(r, ast.Raise) and r.exc is not None and "LimitOverrunError" in ast.unparse(r.exc) for r in i.body):
                    l, r = i.test.left, i.test.comparators[0]
                    if isinstance(l, ast.Name) and isinstance(r, ast.Name) and l.id in amap and r.id in amap:
                        size_arg, limit_arg = amap[l.id], amap[r.id]
                        cur = self._current(size_arg, fresh) or not pending or any(ast.unparse(x).startswith("len(") for x in ast.walk(size_arg) if isinstance(x, ast.Call))
                        if cur and self._mentions(limit_arg, self.limit_names):
                            return True
        return False

    def _is_search(self, node) -> bool:
        from sa.flow import ForIter
        if isinstance(node, ast.Call):
            nm = _cname(node)
            if nm in ("find", "index", "search", "match", "load_from_file", "unpack", "decode") :
                return True
            if nm == "next" and node.args and isinstance(node.args[0], ast.GeneratorExp):
                return True
        if isinstance(node, ForIter) and any(isinstance(x, ast.Name) and (x.id in self.accs or x.id.replace("_view", "") in self.accs) for x in ast.walk(node.stmt.iter)):
            return True
        return False

    def transfer(self, node, fact):
        pending, searched, size_ok, limit_ok, fresh = fact
        acc = self._is_acc(node)
        if acc is not None:
            if node not in self.acc_sites:
                self.acc_sites.append(node)
            if pending:
                if searched and not limit_ok:
                    self.viol.append((node, "after a search / parse round that did not find the frame end, more data is accumulated without the accumulated size having been compared with the limit"))
                elif not searched and not (size_ok or limit_ok):
                    self.viol.append((node, "received data is accumulated twice in a row without any test of the accumulated size in between"))
            return [(True, False, False, False, frozenset())]
        # locals computed from the accumulator since the last accumulation are 'fresh'; anything else derived from it is a stale snapshot
        from sa.flow import WithEnter
        tgt = val = None
        if isinstance(node, ast.Assign) and len(node.targets) == 1 and isinstance(node.targets[0], ast.Name):
            tgt, val = node.targets[0].id, node.value
        elif isinstance(node, (ast.AnnAssign, ast.NamedExpr)) and isinstance(node.target, ast.Name) and node.value is not None:
            tgt, val = node.target.id, node.value
        elif isinstance(node, WithEnter) and isinstance(node.item.optional_vars, ast.Name):
            tgt, val = node.item.optional_vars.id, node.item.context_expr
        if tgt is not None and tgt not in self.accs:
            fresh = (fresh | {tgt}) if self._current(val, fresh) else (fresh - {tgt})
            fact = (pending, searched, size_ok, limit_ok, fresh)
        if isinstance(node, TestAtom) and isinstance(node.test, (ast.Compare, ast.BoolOp, ast.UnaryOp)):
            current = self._current(node.test, fresh) or not pending
            if self._mentions(node.test, self.limit_names):
                if current:
                    return [(pending, searched, True, True, fresh)]
                stale = sorted({x.id for x in ast.walk(node.test) if isinstance(x, ast.Name)} & (self.size_names - self.accs))
                if stale and (node.test, "stale") not in [(a, b) for a, b in self.stale_tests]:
                    self.stale_tests.append((node.test, "stale"))
                return [fact]
            if (self._mentions(node.test, self.size_names) and current) or any(ast.unparse(x).startswith("len(") for x in ast.walk(node.test) if isinstance(x, ast.Call)):
                return [(pending, searched, True, limit_ok, fresh)]
        if isinstance(node, ast.Call) and "limit" in _cname(node).lower() and "check" in _cname(node).lower():
            return [(pending, searched, True, True, fresh)]  # a helper that checks the limit (verified separately)
        if isinstance(node, ast.Call) and self._checks_limit(node, fresh, pending):
            return [(pending, searched, True, True, fresh)]
        if self._is_search(node):
            return [(pending, True, size_ok, limit_ok, fresh)]
        return [fact]


def accumulating_generators(eng):
    from rules.c01 import deserializer_generators

    out = []
    extra = [eng.db.fn("serializers.tools:GeneratorStreamReader.read_until"), eng.db.fn("serializers.tools:GeneratorStreamReader.read_exactly")]
    for fn in deserializer_generators(eng) + extra:
        an = Accumulate(eng, set(), set())
        an.fn = fn
        if any(an._is_acc(n) is not None for n in own_nodes(fn.node)):
            out.append(fn)
    return out


def check_guard(eng, run):
    gens = accumulating_generators(eng)
    run.floor("C07.guard accumulating generators", len(gens), 4)
    n_sites = 0
    for fn in gens:
        asg = assignments(fn)
        params = {a.arg for a in fn.params()}
        limit_names = {p for p in params if "limit" in p} | {"limit", "n"} & (params | set(asg)) | {d for n in own_nodes(fn.node) if isinstance(n, ast.Attribute) and "limit" in n.attr for d in [dotted(n)] if d}
        # names holding the size of an accumulator (len(acc) / acc.nbytes / offsets derived from them)
        probe = Accumulate(eng, set(), set())
        probe.fn = fn
        accs = {probe._is_acc(n) for n in own_nodes(fn.node)} - {None}
        size_names = set(accs)
        changed = True
        while changed:
            changed = False
            for name, vals in asg.items():
                if name in size_names:
                    continue
                for v in vals:
                    s = ast.unparse(v)
                    if any(f"len({a})" in s or f"{a}.nbytes" in s or f"{a}_view.nbytes" in s for a in accs) or ({x.id for x in ast.walk(v) if isinstance(x, ast.Name)} & (size_names - accs) and linear(v) is not None):
                        size_names.add(name)
                        changed = True
        an = Accumulate(eng, size_names, limit_names, accs)
        Interp(an, fn).run()
        n_sites += len(an.acc_sites)
        exempt = fn.short in NO_LIMIT_BY_DESIGN
        bad = [] if exempt else an.viol
        for node, msg in bad[:1]:
            run.finding("C07.guard", fn, _stmt_of(fn, node), msg + ": a peer that never completes the frame makes the buffer grow without bound")
        # the accumulating loop has a LimitOverrunError exit (directly or through a checking helper), or is bounded by a constructor constant
        def _raises_limit(r):
            if "LimitOverrunError" in ast.unparse(r.exc):
                return True
            if isinstance(r.exc, ast.Call):  # an error factory annotated `-> LimitOverrunError`
                for t in eng.typer.call_targets(fn, r.exc, dispatch=False):
                    ret = getattr(getattr(t, "node", None), "returns", None)
                    if ret is not None and "LimitOverrunError" in ast.unparse(ret):
                        return True
            return False
        has_limit_exit = any(isinstance(r, ast.Raise) and r.exc is not None and _raises_limit(r) for r in own_nodes(fn.node)) or \
            any(isinstance(c, ast.Call) and "limit" in _cname(c).lower() for c in own_nodes(fn.node)) or \
            any(isinstance(w, ast.While) and isinstance(w.test, ast.Compare) and isinstance(w.test.ops[0], ast.Lt) and
                ("len(" in ast.unparse(w.test) or {x.id for x in ast.walk(w.test) if isinstance(x, ast.Name)} & size_names) for w in own_nodes(fn.node))
        if not has_limit_exit and not exempt:
            run.finding("C07.guard", fn, fn.node, "an accumulating deserializer has no LimitOverrunError exit and no constant bound on its accumulation")
        run.ob("C07.guard", fn.short, not bad and (has_limit_exit or exempt), accumulation_sites=len(an.acc_sites), size_names=sorted(size_names), limit_names=sorted(limit_names), exempt=NO_LIMIT_BY_DESIGN.get(fn.short))
    run.floor("C07.guard accumulation sites", n_sites, 5)
    # the FileBased helper really checks the limit
    fb = eng.db.cls("serializers.base_stream.FileBasedPacketSerializer").methods.get("__check_file_buffer_limit")
    ok = False
    if fb is not None:
        from sa.norm import cmp_canon
        for blk in [x.body for x in ast.walk(fb.node) if isinstance(getattr(x, "body", None), list)]:
            for i_, n in enumerate(blk):
                if not (isinstance(n, ast.If) and "limit" in ast.unparse(n.test)):
                    continue
                c = cmp_canon(fb, n.test, resolve=True)
                lim_coef = next((v for k, v in (c[0].items() if c else []) if "limit" in k), 0)
                raises_in = lambda sts: any(isinstance(r, ast.Raise) and "LimitOverrunError" in ast.unparse(r) for st in sts for r in ast.walk(st))  # noqa: E731
                # `if size > limit: raise`  or the guard-clause form  `if size <= limit: return` ... `raise`
                if lim_coef < 0 and raises_in(n.body):
                    ok = True
                if lim_coef > 0 and n.body and isinstance(n.body[-1], ast.Return) and (raises_in(blk[i_ + 1:]) or raises_in(n.orelse)):
                    ok = True
    if not ok:
        run.finding("C07.guard", fb or eng.db.fn("serializers.base_stream:FileBasedPacketSerializer.deserialize"), (fb.node if fb else None) or "missing", "FileBasedPacketSerializer.__check_file_buffer_limit no longer raises LimitOverrunError when the file buffer exceeds the limit")
    run.ob("C07.guard", "FileBasedPacketSerializer.__check_file_buffer_limit", ok)


def check_limit_escapes(eng, run):
    """the limit error of a shared incremental parser surfaces as LimitOverrunError for every concrete serializer that inherits it: if
    it can leave the defining class's entry point it can leave the subclass's too - a subclass whose configured `expected errors`
    cover it (msgpack passes Exception) would otherwise turn it into an ordinary parse error whose remainder is the whole buffer,
    which is kept and re-fed for ever (escape analysis per concrete class, shared with C06)"""
    from rules import c06
    from sa.analyses.escape import LIMIT, EscapeSummaries
    summ = EscapeSummaries(eng)
    n = 0
    for ci, mname, label, fn, toks, bad in c06.entry_escapes(eng, summ, c06.ENTRY_POINTS[1:]):
        owner = fn.cls
        if owner is None or owner is ci:
            continue
        base = summ.escapes(fn, owner)
        if LIMIT not in base:
            continue
        n += 1
        ok = LIMIT in toks
        if not ok:
            run.finding("C07.guard", fn, fn.node, f"LimitOverrunError can leave {owner.name}.{mname} but not {ci.name}.{mname}: for {ci.name} the limit check sits inside a handler scope that catches it "
                        "(its configured expected errors), so an oversized unterminated frame is reported as an ordinary parse error carrying the whole buffer - which the consumer keeps and re-feeds without bound")
        run.ob("C07.guard", f"{ci.name}.{mname}:limit-error-not-swallowed", ok, inherited_from=owner.name)
    run.floor("C07.guard inherited entry points with a limit error", n, 2)


class AfterSearch(RuleAnalysis):
    """fact: 'none' | 'notfound' (a search ran in this round and returned -1) ; the not-found limit error needs 'notfound'"""
    tokens = ("Exception",)

    def __init__(self, engine):
        super().__init__(engine)
        self.viol = []
        self.raises = 0

    def initial(self, fn):
        return ["none"]

    def may_raise(self, node, fact):
        return []

    def transfer(self, node, fact):
        if isinstance(node, ast.Call) and _cname(node) == "find":
            return ["searched"]
        if isinstance(node, (ast.Yield,)):
            return ["none"]
        if isinstance(node, ast.Raise) and node.exc is not None and "LimitOverrunError" in ast.unparse(node.exc):
            msg_not_found = "not found" in ast.unparse(node.exc).lower() or True
            self.raises += 1
            if fact not in ("notfound", "found"):
                self.viol.append(node)
        return [fact]

    def branch(self, test, fact):
        if fact == "searched":
            from sa.norm import found_test
            names = {x.id for x in ast.walk(test) if isinstance(x, ast.Name)}
            for v in names:
                hit = found_test(test, v)
                if hit is True:
                    return ["found"], ["notfound"]
                if hit is False:
                    return ["notfound"], ["found"]
        return [fact], [fact]


def check_early(eng, run):
    db = eng.db
    for q in ("serializers.tools:GeneratorStreamReader.read_until", "serializers.base_stream:_buffered_readuntil"):
        fn = db.fn(q)
        an = AfterSearch(eng)
        Interp(an, fn).run()
        if an.raises == 0:
            run.finding("C07.early", fn, fn.node, "the separator scanner no longer raises LimitOverrunError")
        for node in an.viol[:1]:
            run.finding("C07.early", fn, node, "the limit error is raised on a path on which the search of this round did not run / did not fail: complete frames already sitting in the buffer are rejected for their size (or the check is skipped for the data that just arrived)")
        run.ob("C07.early", f"{fn.short}:limit-error-after-failed-search", not an.viol and an.raises > 0, limit_raises=an.raises)
    # found-but-too-long dominates the slice that returns the frame (read_until) / the split (json)
    ru = db.fn("serializers.tools:GeneratorStreamReader.read_until")
    found_vars = {k for k, vs in assignments(ru).items() for v in vs if isinstance(v, ast.Call) and _cname(v) == "find"}
    from sa.norm import cmp_canon, lin_resolved
    # ... in read_until itself or in the private helper it hands the match to through namesake arguments
    from sa.norm import nodes_inl, private_helper
    owners = [ru]
    call_of_owner = {}
    for c_ in own_nodes(ru.node):
        if isinstance(c_, ast.Call):
            g_ = private_helper(ru, c_)
            if g_ is not None and g_ not in owners:
                ps_ = [x.arg for x in g_.params()]
                if g_.cls is not None and ps_ and not g_.has_decorator("staticmethod"):
                    ps_ = ps_[1:]
                if not c_.keywords and all(isinstance(a_, ast.Name) and i_ < len(ps_) and a_.id == ps_[i_] for i_, a_ in enumerate(c_.args)):
                    owners.append(g_)
                    call_of_owner[g_.qualname] = c_
    test = None
    ru_test = None
    ok = False
    any_slices = False
    all_dominated = True
    for ow in owners:
        fv = found_vars if ow is ru else (found_vars & {a.arg for a in ow.params()})
        limit_names = {a.arg for a in ow.params() if "limit" in a.arg}
        t_ = None
        for n in own_nodes(ow.node):
            if isinstance(n, ast.If) and any(isinstance(r, ast.Raise) for r in n.body):
                c = cmp_canon(ow, n.test)
                if c is not None and c[1] in (">", ">=") and any(c[0].get(v) == 1 for v in fv) and any(c[0].get(l_) == -1 for l_ in limit_names) and len([k for k in c[0] if k]) == 2:
                    t_ = n
        # every slice of the accumulated data that ends at the match (`[:sepidx]`, `[:sepidx + seplen]`, through any local) comes after that test
        slices = []
        for n in own_nodes(ow.node):
            if isinstance(n, ast.Subscript) and isinstance(n.slice, ast.Slice) and n.slice.lower is None and n.slice.upper is not None and isinstance(n.ctx, ast.Load):
                lin = lin_resolved(ow, n.slice.upper)
                if lin is not None and any(v in lin for v in fv):
                    slices.append(n)
        if ow is ru:
            ru_test = t_
        if slices:
            any_slices = True
            if t_ is None and ow is not ru and ru_test is not None and ru_test.lineno < call_of_owner[ow.qualname].lineno:
                pass  # the helper that slices the frame out is only called after the test in read_until() itself
            elif t_ is None or not all(t_.lineno < s_.lineno for s_ in slices):
                all_dominated = False
        test = test or t_
    ok = test is not None and any_slices and all_dominated
    if not ok:
        run.finding("C07.early", ru, test or ru.node, "read_until() no longer rejects a frame whose separator was found beyond the limit before slicing it out")
    run.ob("C07.early", f"{ru.short}:found-but-too-long", ok)
    sp = db.fn("serializers.json:_JSONParser._split_partial_document")
    first = next((st for st in sp.node.body if not (isinstance(st, ast.Assert) or (isinstance(st, ast.Expr) and isinstance(st.value, ast.Constant)) or (isinstance(st, ast.AnnAssign) and st.value is None))), sp.node.body[0])
    ok = isinstance(first, ast.If) and "consumed" in ast.unparse(first.test) and "limit" in ast.unparse(first.test) and any(isinstance(r, ast.Raise) and "LimitOverrunError" in ast.unparse(r) for r in first.body)
    if not ok:
        run.finding("C07.early", sp, first, "_split_partial_document no longer rejects a document longer than the limit before splitting it")
    run.ob("C07.early", f"{sp.short}:found-but-too-long", ok)


def check_fixed(eng, run):
    db = eng.db
    ci = db.cls("lowlevel._stream.BufferedStreamDataConsumer")
    m = mangle(ci.name, "__buffer")
    bad = []
    for f, v in ci.field_values.get(m, []):
        if f is None:
            continue
        vals = v.value if isinstance(v, ast.Assign) else v
        # `self.__buffer_view_cache = self.__buffer = None` is recorded as the Assign node for tuple/multi targets
        src = ast.unparse(vals)
        created = {t.id for n in own_nodes(f.node) if isinstance(n, ast.Assign) and "create_buffer" in ast.unparse(n.value) for t in n.targets if isinstance(t, ast.Name)}
        ok = src == "None" or src in created or "create_buffer" in src
        if not ok:
            bad.append((f, v))
    # whole_buffer must come from protocol.create_buffer
    gw = ci.methods["get_write_buffer"]
    wb = [n for n in own_nodes(gw.node) if isinstance(n, ast.Assign) and "create_buffer" in ast.unparse(n.value)]
    ok_src = bool(wb)
    grow = [n for f in ci.methods.values() for n in own_nodes(f.node) if isinstance(n, ast.Call) and _cname(n) in ("extend", "append", "resize", "insert") and "buffer" in ast.unparse(n.func).lower()]
    aug = [n for f in ci.methods.values() for n in own_nodes(f.node) if isinstance(n, ast.AugAssign) and "buffer" in ast.unparse(n.target).lower() and isinstance(n.op, ast.Add) and "written" not in ast.unparse(n.target)]
    for f, v in bad:
        run.finding("C07.fixed", f, v if isinstance(v, ast.stmt) else f.node, "the buffered consumer's buffer is assigned from something else than protocol.create_buffer() / None")
    for n in grow + aug:
        f = next(g for g in ci.methods.values() if any(x is n for x in own_nodes(g.node)))
        run.finding("C07.fixed", f, _stmt_of(f, n), "the buffered consumer grows its receive buffer: the memory held for one connection is no longer fixed at creation")
    run.ob("C07.fixed", "BufferedStreamDataConsumer.__buffer:fixed-at-creation", not bad and ok_src and not grow and not aug)
    # allocators
    n_alloc = 0
    root = db.cls("serializers.abc.BufferedIncrementalPacketSerializer")
    for c in [root] + root.all_subclasses():
        f = c.methods.get("create_deserializer_buffer")
        if f is None or len(f.node.body) == 0 or all(isinstance(s, ast.Expr) for s in f.node.body) or f.has_decorator("abstractmethod"):
            continue
        if c.name.startswith("Stapled"):
            continue  # delegates to the wrapped serializer
        n_alloc += 1
        has_limit = any(mm.endswith("__limit") for mm in list(c.fields) + list(c.field_values))
        probs = []
        allocs = [n for n in own_nodes(f.node) if isinstance(n, ast.Call) and _cname(n) == "bytearray"]
        if not allocs:
            probs.append("no bytearray allocation found")
        for a in allocs:
            size = a.args[0] if a.args else None
            d = deps(f, size) if size is not None else set()
            local_names = set(assignments(f)) - {a.arg for a in f.params()}
            leaves = {x for x in d if x not in ("<yield>",) and x not in local_names}  # true leaves: not intermediates
            allowed = {a.arg for a in f.params()} | {f"{f.self_name}.__limit", f"{f.self_name}.__size", f.self_name}
            extra = {x for x in leaves if x not in allowed and not x.startswith(f"{f.self_name}.") and x not in ("min", "max", "int", "len", "memoryview", "bytearray")}
            if extra:
                probs.append(f"the buffer size depends on {sorted(extra)}")
            if has_limit:
                # limit must be an upper bound: bytearray(self.__limit) or min(sizehint, self.__limit) - never max(...)
                src = " ".join(ast.unparse(v) for v in [size] + [vv for nm in d for vv in assignments(f).get(nm, [])])
                if "__limit" not in src:
                    probs.append("the configured limit does not bound the buffer size")
                if "max(" in src and "__limit" in src:
                    probs.append("max(..., limit): the limit is a lower bound of the buffer size, a larger sizehint allocates more than the limit")
        # separator framers: _buffered_readuntil() takes its limit from len(buffer), so the buffer *is* the limit - it must be
        # exactly the configured limit (a smaller one rejects frames that are under the limit, a larger one defers the error)
        bid = c.find_method("buffered_incremental_deserialize")
        if bid is not None and any(isinstance(x, ast.Call) and _cname(x) == "_buffered_readuntil" for x in own_nodes(bid.node)):
            hint = {a.arg for a in f.params()[1:]}
            for a in allocs:
                size = through_local(f, a.args[0]) if a.args else None
                d = deps(f, size) if size is not None else set()
                if d & hint:
                    probs.append(f"the size depends on {sorted(d & hint)} but the separator scanner uses len(buffer) as the frame limit: frames under the configured limit are rejected when the hint is small")
                elif not (isinstance(size, ast.Attribute) and (dotted(size) or "").endswith("__limit")):
                    probs.append(f"the size `{ast.unparse(size) if size is not None else ''}` is not the configured limit itself although the separator scanner uses len(buffer) as the frame limit")
        for p in probs:
            run.finding("C07.fixed", f, f.node, f"{c.name}.create_deserializer_buffer: {p}")
        run.ob("C07.fixed", f"{c.name}.create_deserializer_buffer", not probs, has_limit=has_limit)
    run.floor("C07.fixed allocators", n_alloc, 5)


def check_thread(eng, run):
    db = eng.db
    n = 0
    for q in ("serializers.base_stream.AutoSeparatedPacketSerializer", "serializers.base_stream.FileBasedPacketSerializer", "serializers.line.StringLineSerializer", "serializers.json.JSONSerializer"):
        ci = db.cls(q)
        m = mangle(ci.name, "__limit")
        stores = [(f, v) for f, v in ci.field_values.get(m, []) if f is not None]
        init = ci.methods["__init__"]
        ok_store = len(stores) == 1 and stores[0][0].name == "__init__" and dotted(stores[0][1]) == "limit"
        validated = any(isinstance(i, ast.If) and isinstance(i.test, ast.Compare) and dotted(i.test.left) == "limit" and isinstance(i.test.ops[0], (ast.LtE, ast.Lt)) and any(isinstance(r, ast.Raise) for r in i.body) for i in own_nodes(init.node))
        n += 1
        if not (ok_store and validated):
            run.finding("C07.thread", init, init.node, f"{ci.name}: the limit is no longer validated (> 0) and stored exactly once from the constructor argument")
        run.ob("C07.thread", f"{ci.name}:limit-validated-and-stored-once", ok_store and validated)
        # every guard call passes the attribute unchanged
        for fn in ci.methods.values():
            for c in own_nodes(fn.node):
                if isinstance(c, ast.Call) and _cname(c) in ("read_until", "raw_parse"):
                    kw = next((k.value for k in c.keywords if k.arg == "limit"), c.args[1] if _cname(c) == "read_until" and len(c.args) > 1 else None)
                    n += 1
                    ok = kw is not None and (dotted(kw) or "").endswith("__limit")
                    if not ok:
                        run.finding("C07.thread", fn, _stmt_of(fn, c), f"`{_cname(c)}` is not given the configured limit (`{ast.unparse(kw) if kw is not None else 'nothing'}`): frames are accepted / rejected against a different bound than the one the user set")
                    run.ob("C07.thread", f"{fn.short}:{_cname(c)}(limit=self.__limit)", ok)
    run.floor("C07.thread sites", n, 8)


def run(eng, run):
    from sa.anchors import verify as _verify_anchor_names
    _verify_anchor_names(eng, run)
    run.not_decided += NOT_DECIDED
    run.attempt(check_guard, eng, run)
    run.attempt(check_limit_escapes, eng, run)
    run.attempt(check_early, eng, run)
    from rules import c01
    from sa.report import RuleAlias
    run.attempt(c01.check_esc, eng, RuleAlias(run, "C07.early"))  # a mis-framed string swallows later frames until the limit rejects small ones
    run.attempt(check_fixed, eng, run)
    run.attempt(check_thread, eng, run)
    run.tables["no_limit_by_design"] = NO_LIMIT_BY_DESIGN
    run.end_of_rules()


# ---------------------------------------------------------------------------------------------- self-test corpus
from sa.mutate import (Variant, delete_stmt, find_handler, find_stmt, insert_after, insert_before, rename_local, replace_expr,  # noqa: E402
                       replace_stmt, stmt_has, stmt_is)

_RU = "serializers.tools:GeneratorStreamReader.read_until"
_RAW = "serializers.json:_JSONParser.raw_parse"
_FB = "serializers.base_stream:FileBasedPacketSerializer"
_JSON = "serializers.json:JSONSerializer"
_AUTO = "serializers.base_stream:AutoSeparatedPacketSerializer"
_BRU = "serializers.base_stream:_buffered_readuntil"

MUTANTS = [
    Variant("raw-parse-plain-value-no-limit", _RAW, lambda fn: delete_stmt(fn, stmt_is("if len(partial_document) > limit"), 0), "C07.guard",
            why="an endless number / literal grows the buffer without bound"),
    Variant("filebased-allocator-max", _FB + ".create_deserializer_buffer", lambda fn: replace_expr(fn, "min(sizehint, self.__limit)", "max(sizehint, self.__limit)"), "C07.fixed"),
    Variant("filebased-check-after-load", _FB + ".__generic_incremental_deserialize", lambda fn: delete_stmt(fn, stmt_is("self.__check_file_buffer_limit(buffer)")), "C07.guard",
            why="the accumulated file buffer is never compared with the limit"),
    Variant("json-reader-huge-limit", _JSON + ".incremental_deserialize", lambda fn: replace_expr(fn, "reader.read_until(b'\\n', limit=self.__limit)", "reader.read_until(b'\\n', limit=2 ** 31)"), "C07.thread"),
    Variant("read-until-limit-check-removed", _RU, lambda fn: delete_stmt(fn, stmt_is("if offset > limit")), "C07",
            why="an unterminated line grows the buffer without bound"),
    Variant("read-until-fast-path-skips-check", _RU,
            lambda fn: replace_stmt(fn, stmt_is("buffer += (yield)"), "chunk = yield\nwhile separator[-1] not in chunk:\n    buffer += chunk\n    chunk = yield\nbuffer += chunk", 0), "C07.guard"),
    Variant("scanner-limit-check-before-search", _BRU,
            lambda fn: (delete_stmt(fn, stmt_is("if offset > limit")), insert_before(fn, stmt_is("sepidx = buffer.find(separator, offset, buflen)"), "if buflen + 1 - seplen > limit:\n    raise LimitOverrunError('Separator is not found, and chunk exceed the limit', memoryview(buffer)[:buflen], buflen + 1 - seplen, separator)")),
            "C07.early", why="complete frames in a full buffer are rejected"),
    Variant("auto-limit-not-validated", _AUTO + ".__init__", lambda fn: delete_stmt(fn, stmt_is("if limit <= 0")), "C07.thread"),
    Variant("read-until-found-too-long-unchecked", _RU, lambda fn: delete_stmt(fn, stmt_is("if sepidx > limit")), "C07.early"),
]

BENIGN = [
    Variant("read-until-hoist-limit", _RU, lambda fn: rename_local(fn, "buflen", "size"), why="local renamed"),
    Variant("raw-parse-rename", _RAW, lambda fn: rename_local(fn, "partial_document", "doc"), why="accumulator renamed"),
    Variant("scanner-rename-offset", _BRU, lambda fn: rename_local(fn, "sepidx", "idx"), why="local renamed"),
]

_AUTOA = "serializers.base_stream:AutoSeparatedPacketSerializer.create_deserializer_buffer"
_LINEA = "serializers.line:StringLineSerializer.create_deserializer_buffer"
MUTANTS += [
    Variant("auto-allocator-follows-sizehint", _AUTOA, lambda fn: replace_expr(fn, "bytearray(self.__limit)", "bytearray(min(self.__limit, sizehint + len(self.__separator) + 1))"), "C07.fixed",
            why="frames larger than the recv size hint but under the limit are rejected (seed C07-5)"),
    Variant("line-allocator-floor-256", _LINEA, lambda fn: replace_expr(fn, "bytearray(self.__limit)", "bytearray(max(self.__limit, 256))"), "C07.fixed",
            why="limits under 256 are silently replaced (seed C07-6)"),
    Variant("json-split-compares-whole-chunk", "serializers.json:_JSONParser._split_partial_document", lambda fn: replace_expr(fn, "consumed > limit", "len(partial_document) > limit"), "C07.early",
            why="a tiny frame followed by pipelined data is rejected (seed C07-4)"),
]
BENIGN += [
    Variant("auto-allocator-via-local", _AUTOA, lambda fn: replace_stmt(fn, stmt_has("return bytearray(self.__limit)"), "size = self.__limit\nreturn bytearray(size)"), why="size through a local"),
]


def _hoist_len(fn):
    w = next(n for n in ast.walk(fn) if isinstance(n, ast.While) and "nprint_idx" in ast.unparse(n.test))
    for blk in [n.body for n in ast.walk(fn) if isinstance(getattr(n, "body", None), list)]:
        if w in blk:
            blk.insert(blk.index(w), ast.parse("document_length: int = len(partial_document)").body[0])
    for c in [x for x in ast.walk(w) if isinstance(x, ast.Call) and ast.unparse(x) == "len(partial_document)"]:
        pass
    src = ast.unparse(w).replace("len(partial_document)", "document_length")
    new = ast.parse(src).body[0]
    w.test, w.body, w.orelse = new.test, new.body, new.orelse


MUTANTS += [
    Variant("raw-parse-plain-value-limit-test-on-a-hoisted-length", _RAW, _hoist_len, "C07.guard",
            why="the length compared with the limit was computed before the loop: later chunks are never counted (seed C06-8)"),
]



def _limit_check_inside_try(fn):
    chk = next(st for st in ast.walk(fn) if isinstance(st, ast.Expr) and "__check_file_buffer_limit" in ast.unparse(st))
    for n in ast.walk(fn):
        blk = getattr(n, "body", None)
        if isinstance(blk, list) and chk in blk:
            i = blk.index(chk)
            t = blk[i + 1]
            assert isinstance(t, ast.Try)
            blk.remove(chk)
            t.body.insert(0, chk)
            return


MUTANTS += [
    Variant("filebased-limit-check-inside-the-try", _FB + ".__generic_incremental_deserialize", _limit_check_inside_try, "C07.guard", expect_fn="FileBasedPacketSerializer",
            why="msgpack (expected errors = Exception) converts the limit error into a parse error carrying the whole buffer: unbounded retention (seed C07-7)"),
]
