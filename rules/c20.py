"""C20 - sending applies backpressure and never hangs on a dead connection (DESIGN.md section 3, C20)."""
from __future__ import annotations

import ast

from sa.analyses.atomic import AtomicSection
from sa.analyses.base import RuleAnalysis
from sa.db import AnalysisError, ClassInfo, FunctionInfo, dotted, mangle, norm_stmt, own_nodes
from sa.exc import CANCELLED
from sa.flow import FnExit, Interp, TestAtom, call_of

CLAIM = {
    "text": "Decides the flow-control wiring of the asyncio adapters: every transport.write / writelines / sendto in an async send method is followed, on every normal path to the return, by an awaited drain of the protocol's flow control; the stream adapter forces the transport's write-buffer limits to 0 on every completing construction path; WriteFlowControl.resume_writing and .connection_lost each walk the whole waiter collection and complete every pending waiter on every branch (no break / early return), connection_lost clears the paused flag and is idempotent; drain() tests the connection-lost flag and decides (raise / return / park) without any suspension point in between (the closing-yield comes first), creates its waiter future per call, parks it before awaiting and removes exactly that future by identity (a cancelled sender removes only itself); the protocols' pause_writing / resume_writing / connection_lost forward to the flow-control object on every first-time path. (done) every completion of a shared waiter future in the flow-control / protocol modules is guarded by a `not done()` test on that future (or the future is fresh, or the completer lambda is applied by a function that tests done() first). Round 5: TLS records leave the write BIO only under the send lock (C12.tls): a cancelled waiting sender does not strand the others. Round 6: a waiter obtained from a getter that only hands out pending futures, or from a loop over the waiters filtered on not done(), counts as done-guarded; the lost marker may be an optional record; the zero write-buffer limit may be a module constant or set by a private helper. Round 7: WriteFlowControl.pause_writing / resume_writing are called only by the protocol callbacks of the same names; the connection-lost marker is found by its role (what the idempotence guard of connection_lost() tests).",
    "note": "Trusted: the interpreter's asyncio transports call pause_writing()/resume_writing()/connection_lost() as documented (DESIGN section 5, O3 records a CPython 3.12.1 writelines() deviation that no analysis of /repo can see). Not decided: liveness in time.",
    "technique": "must-pass-through typestate (write then drain), atomic-section analysis with may-suspend summaries, loop-totality and identity-removal shape checks on the ast program database",
}
NOT_DECIDED = ["behaviour of the interpreter's own asyncio transports (DESIGN section 5, O3)", "that a resumed sender actually gets CPU time"]

PKG = "lowlevel.api_async.backend._asyncio"
WRITES = {"write", "writelines", "sendto"}
DRAINS = {"writer_drain", "_drain_helper", "drain"}


def _stmt_at(fn, line):
    best = None
    for n in own_nodes(fn.node):
        if isinstance(n, ast.stmt) and getattr(n, "lineno", -1) == line:
            if best is None or not isinstance(n, (ast.Try, ast.With, ast.AsyncWith, ast.For, ast.If, ast.While)):
                best = n
    return best if best is not None else fn.node


def _cname(c):
    return (c.func.attr if isinstance(c.func, ast.Attribute) else getattr(c.func, "id", "")) if c is not None else ""


class WriteDrain(RuleAnalysis):
    tokens = ("OSError", CANCELLED)

    def __init__(self, engine):
        super().__init__(engine)
        self.writes = []

    def initial(self, fn):
        return ["idle"]

    def _is_transport(self, recv) -> bool:
        ts = self.typer.expr_types(self.fn, recv)
        return any(t.kind == "ext" and "Transport" in str(t.ref) for t in ts) or (dotted(recv) or "").endswith("transport")

    def may_raise(self, node, fact):
        if isinstance(node, ast.Await):
            return list(self.tokens)
        c = call_of(node)
        if c is not None and _cname(c) in WRITES:
            return ["OSError"]
        return []

    def transfer(self, node, fact):
        c = call_of(node)
        if isinstance(node, ast.Call) and _cname(c) in WRITES and isinstance(c.func, ast.Attribute) and self._is_transport(c.func.value):
            if node not in self.writes:
                self.writes.append(node)
            return ["pending"]
        if isinstance(node, ast.Await) and c is not None and _cname(c) in DRAINS:
            return ["idle"]
        return [fact]

    def raise_fact(self, node, fact, token):
        c = call_of(node)
        if isinstance(node, ast.Await) and c is not None and _cname(c) in DRAINS:
            return ["idle"]
        return [fact]


def check_drain(eng, run):
    n = 0
    for fn in eng.db.all_functions():
        if not fn.is_async or not fn.module.name.startswith("easynetwork." + PKG):
            continue
        if not any(isinstance(x, ast.Call) and _cname(x) in WRITES for x in own_nodes(fn.node)):
            continue
        an = WriteDrain(eng)
        out = Interp(an, fn).run()
        if not an.writes:
            continue
        n += 1
        bad = [tr for f, tr in out.ret.items() if f == "pending"]
        for tr in bad[:1]:
            run.finding("C20.drain", fn, _stmt_at(fn, an.writes[0].lineno), "a transport write can reach the method's return without an awaited drain: the sender is never suspended and bytes pile up in user space (no backpressure), and a dead connection is not reported", tr)
        run.ob("C20.drain", fn.short, not bad, writes=len(an.writes))
    run.floor("C20.drain async send methods", n, 4)


def check_zero(eng, run):
    fn = eng.db.fn(f"{PKG}.stream.socket:AsyncioTransportStreamSocketAdapter.__init__")
    tparam = next((a.arg for a in fn.params() if "transport" in a.arg), None)

    class Z(RuleAnalysis):
        tokens = ("Exception",)
        inline_helpers = True  # `_disable_write_buffering(transport)`: a private helper given the transport under its own name

        def initial(self, f):
            return [False]

        def may_raise(self, node, fact):
            return []

        def transfer(self, node, fact):
            c = call_of(node)
            if isinstance(node, ast.Call) and _cname(c) == "set_write_buffer_limits":
                args = list(c.args) + [k.value for k in c.keywords if k.arg == "high"]
                from sa.norm import const_value
                v0 = const_value(fn, args[0]) if args else ...
                ok = bool(args) and v0 is not ... and not isinstance(v0, bool) and v0 == 0 and dotted(c.func.value) in (tparam, f"{fn.self_name}.__transport")
                return [fact or ok]
            return [fact]

    out = Interp(Z(eng), fn).run()
    bad = [tr for f, tr in out.ret.items() if not f]
    if bad:
        run.finding("C20.zero", fn, fn.node, "a construction path completes without transport.set_write_buffer_limits(0): asyncio buffers up to 64 KiB in user space before pausing the writer, so send_all returns before the bytes were handed to the OS")
    run.ob("C20.zero", fn.short, not bad)


def _flow(eng) -> ClassInfo:
    return eng.db.cls(f"{PKG}._flow_control.WriteFlowControl")


def _lost_markers(fc) -> set[str]:
    """the attribute(s) that record 'connection_lost() was called': what the idempotence guard at the top of connection_lost() tests
    (`if self.__connection_lost: return` / `if self.__lost is not None: return`), whatever it is called"""
    cl = fc.methods.get("connection_lost")
    out = set()
    if cl is not None and not isinstance(cl.node, ast.Lambda):
        for st in cl.node.body:
            if isinstance(st, ast.If) and len(st.body) == 1 and isinstance(st.body[0], ast.Return) and st.body[0].value is None:
                out |= {a.attr for a in ast.walk(st.test) if isinstance(a, ast.Attribute) and isinstance(a.value, ast.Name) and a.value.id == cl.self_name}
                break
    return out


def check_wake(eng, run):
    fc = _flow(eng)
    lost_markers = _lost_markers(fc)
    waiters_attr = None
    for m, ann in fc.fields.items():
        if "deque" in ast.unparse(ann) or "list" in ast.unparse(ann):
            waiters_attr = m
    if waiters_attr is None:
        raise AnalysisError("anchor vanished: waiter collection of WriteFlowControl")
    short = "__" + waiters_attr.split("__", 1)[1] if "__" in waiters_attr else waiters_attr
    from sa.analyses.base import RuleAnalysis
    from sa.analyses.buffers import through_local
    from sa.flow import ForIter

    def fold(stmts, argmap):
        """the statements with `<param> is None` tests decided from the arguments of the inlined call (literal None / a callable)"""
        out = []
        for st in stmts:
            if isinstance(st, ast.If) and isinstance(st.test, ast.Compare) and len(st.test.ops) == 1 and isinstance(st.test.ops[0], (ast.Is, ast.IsNot)) and isinstance(st.test.left, ast.Name) \
                    and isinstance(st.test.comparators[0], ast.Constant) and st.test.comparators[0].value is None and st.test.left.id in argmap:
                arg = argmap[st.test.left.id]
                is_none = True if (isinstance(arg, ast.Constant) and arg.value is None) else (False if isinstance(arg, (ast.Constant, ast.Lambda, ast.Attribute, ast.Call)) else None)
                if is_none is not None:
                    truth = is_none if isinstance(st.test.ops[0], ast.Is) else not is_none
                    out += fold(st.body if truth else st.orelse, argmap)
                    continue
            if isinstance(st, ast.If):
                st2 = ast.If(test=st.test, body=fold(st.body, argmap), orelse=fold(st.orelse, argmap))
                out.append(ast.copy_location(st2, st))
                continue
            out.append(st)
        return out

    class WakeAll(RuleAnalysis):
        """fact: has a loop over the whole waiter collection been passed on this path ('looped'); did the path bail out on the object's
        own lost flag ('bail').  Private helpers are interpreted in place with whatever arguments they get."""
        tokens = ("Exception",)
        inline_helpers = True
        inline_any_args = True

        def __init__(self, e, method):
            super().__init__(e)
            self.method = method
            self.loops = []

        def initial(self, f):
            return [frozenset()]

        def may_raise(self, node, fact):
            return []

        def _is_waiters(self, e):
            e, _filtered = _iterated_collection(self.fn, e)
            return e is not None and (dotted(e) or "").endswith(short)

        def transfer(self, node, fact):
            if isinstance(node, ForIter) and self._is_waiters(node.stmt.iter):
                argmap = dict(self.interp.inline_args[-1]) if self.interp is not None and self.interp.inline_args else {}
                if not any(lp is node.stmt and am == {k: ast.dump(v) for k, v in argmap.items()} for lp, am, _ in self.loops):
                    self.loops.append((node.stmt, {k: ast.dump(v) for k, v in argmap.items()}, argmap))
                return [fact | {"looped"}]
            return [fact]

        def for_exhausted(self, node, fact):
            return [fact | {"looped"}] if self._is_waiters(node.stmt.iter) else [fact]  # an empty collection: nobody to wake

        def branch(self, test, fact):
            # the object's own lost marker, as a flag (`if self.__connection_lost:`) or as an optional record (`... is not None`)
            t, lost_when = test, True
            if isinstance(t, ast.Compare) and len(t.ops) == 1 and isinstance(t.ops[0], (ast.Is, ast.IsNot)) and isinstance(t.comparators[0], ast.Constant) and t.comparators[0].value is None:
                lost_when = isinstance(t.ops[0], ast.IsNot)
                t = t.left
            if self.method == "connection_lost" and isinstance(t, ast.Attribute) and (("connection_lost" in t.attr and "errno" not in t.attr) or t.attr in lost_markers) and "looped" not in fact:
                return ([fact | {"bail"}], [fact]) if lost_when else ([fact], [fact | {"bail"}])
            return [fact], [fact]

    for name, completer in (("resume_writing", {"set_result"}), ("connection_lost", {"set_exception", "set_result"})):
        fn = fc.methods.get(name)
        if fn is None:
            raise AnalysisError(f"anchor vanished: WriteFlowControl.{name}")
        an = WakeAll(eng, name)
        out = Interp(an, fn).run()
        ok, why, where = True, "", fn.node
        if not an.loops:
            ok, why = False, "there is no loop over the whole waiter collection"
        for f, tr in out.ret.items():
            if "looped" not in f and "bail" not in f:
                ok, why = False, "a path returns without having gone through the loop that wakes the waiters (an early return precedes the wake-up loop)"
        for lp, _k, argmap in an.loops:
            body = fold(lp.body, argmap)
            if any(isinstance(x, (ast.Break, ast.Return)) for st in body for x in ast.walk(st)):
                ok, why, where = False, "the loop over the waiters can stop early (break/return): later senders stay suspended for ever", lp
            elif not _completes_all(body, lp.target.id if isinstance(lp.target, ast.Name) else "", completer):
                ok, why, where = False, ("some branch of the loop body leaves a pending waiter untouched" if name == "connection_lost" else
                                         "some branch of the loop body leaves a pending waiter untouched (or completes it with something other than a plain wake-up)"), lp
        if not ok:
            run.finding("C20.wake", fn, where if where is not fn.node and any(where is x for x in ast.walk(fn.node)) else fn.node, f"{name}(): {why}")
        run.ob("C20.wake", f"{fn.short}:wakes-every-waiter", ok, loops=len(an.loops))
    cl = fc.methods["connection_lost"]
    clears = any(isinstance(n, ast.Assign) and any((dotted(t) or "").endswith("__write_paused") for t in n.targets) and isinstance(n.value, ast.Constant) and n.value.value is False for n in own_nodes(cl.node))
    if not clears:
        run.finding("C20.wake", cl, cl.node, "connection_lost() no longer clears the paused flag: a send issued after the loss parks on a waiter nobody will ever wake")
    run.ob("C20.wake", f"{cl.short}:clears-paused-flag", clears)
    rw = fc.methods["resume_writing"]
    clears = any(isinstance(n, ast.Assign) and any((dotted(t) or "").endswith("__write_paused") for t in n.targets) and isinstance(n.value, ast.Constant) and n.value.value is False for n in own_nodes(rw.node))
    pw = fc.methods.get("pause_writing")
    sets = pw is not None and any(isinstance(n, ast.Assign) and any((dotted(t) or "").endswith("__write_paused") for t in n.targets) and isinstance(n.value, ast.Constant) and n.value.value is True for n in own_nodes(pw.node))
    if not (clears and sets):
        run.finding("C20.wake", rw, rw.node, "pause_writing()/resume_writing() no longer set/clear the paused flag")
    run.ob("C20.wake", "WriteFlowControl:paused-flag-set/cleared", clears and sets)

    # drain(): lost-check -> decision without suspension; raise when lost
    dr = fc.methods["drain"]

    def lost_test(n):
        return isinstance(n, TestAtom) and (("connection_lost" in ast.unparse(n.test) and "exception" not in ast.unparse(n.test)) or any(isinstance(a, ast.Attribute) and a.attr in lost_markers for a in ast.walk(n.test)))

    def decision(n):
        if isinstance(n, ast.Return):
            return True
        c = call_of(n)
        return isinstance(n, ast.Call) and _cname(c) in ("append", "add") and short in ast.unparse(c.func)

    an = AtomicSection(eng, lost_test, decision)
    Interp(an, dr).run()
    ok = bool(an.starts) and bool(an.ends) and all(st == "armed" for _, st in an.ends)
    if not an.starts:
        run.finding("C20.wake", dr, dr.node, "drain() no longer tests the connection-lost flag")
    elif not ok:
        b = an.breaks[0] if an.breaks else an.ends[0][0]
        run.finding("C20.wake", dr, _stmt_at(dr, getattr(b, "lineno", dr.lineno)), "drain() decides (return / park) on a path that suspended after - or never made - the connection-lost test: a connection_lost() delivered during that suspension is missed, the send returns normally although nothing was sent, or parks for ever")
    run.ob("C20.wake", f"{dr.short}:lost-check-then-decide-atomically", ok)
    raises = [n for n in own_nodes(dr.node) if isinstance(n, ast.If) and ("connection_lost" in ast.unparse(n.test) or any(isinstance(a, ast.Attribute) and a.attr in lost_markers for a in ast.walk(n.test))) and all(_ends_raise(b) for b in ([n.body]))]
    ok = bool(raises)
    if not ok:
        run.finding("C20.wake", dr, dr.node, "drain() no longer raises when the connection is already lost")
    run.ob("C20.wake", f"{dr.short}:raises-when-lost", ok)


def _ends_raise(stmts):
    if not stmts:
        return False
    last = stmts[-1]
    if isinstance(last, ast.Raise):
        return True
    if isinstance(last, ast.If):
        return _ends_raise(last.body) and (_ends_raise(last.orelse) if last.orelse else False)
    return False


def _iterated_collection(fn, e, depth=0):
    """(collection expression, filtered on `not <element>.done()`) behind a loop's iterable: through list()/tuple()/iter() wrappers,
    single-assignment locals, a generator expression / list comprehension that hands each element on unchanged, and a private helper
    whose only statement returns one of those (`for waiter in self.__pending_waiters():`)"""
    from sa.analyses.buffers import through_local
    filtered = False
    for _ in range(6):
        if isinstance(e, ast.Call) and e.args and (dotted(e.func) or "").split(".")[-1] in ("list", "tuple", "iter", "reversed"):
            e = e.args[0]
            continue
        if isinstance(e, ast.Name) and fn is not None and not isinstance(fn.node, ast.Lambda):
            e2 = through_local(fn, e)
            if e2 is not e:
                e = e2
                continue
        if isinstance(e, (ast.GeneratorExp, ast.ListComp)) and len(e.generators) == 1 and isinstance(e.generators[0].target, ast.Name) \
                and isinstance(e.elt, ast.Name) and e.elt.id == e.generators[0].target.id:
            g0 = e.generators[0]
            for cond in g0.ifs:
                ok_f = isinstance(cond, ast.UnaryOp) and isinstance(cond.op, ast.Not) and isinstance(cond.operand, ast.Call) and isinstance(cond.operand.func, ast.Attribute) \
                    and cond.operand.func.attr == "done" and dotted(cond.operand.func.value) == g0.target.id
                if not ok_f:
                    return None, False  # some other filter: not the whole collection
                filtered = True
            e = g0.iter
            continue
        if isinstance(e, ast.Call) and fn is not None and not e.args and not e.keywords and depth < 2:
            from sa.norm import helper_return_expr
            try:
                r = helper_return_expr(fn, e)
            except Exception:  # noqa: BLE001
                r = None
            if r is not None:
                c2, f2 = _iterated_collection(r[1], r[0], depth + 1)
                return c2, (filtered or f2)
        break
    return e, filtered


def _completes_all(body, var, completer) -> bool:
    """every path through `body` on which `not var.done()` holds calls a completer on var"""
    def completes(stmts) -> bool:
        for st in stmts:
            if isinstance(st, ast.Expr) and isinstance(st.value, ast.Call) and _cname(st.value) in completer and dotted(st.value.func.value) == var:
                return True
            if isinstance(st, ast.If):
                if "done()" in ast.unparse(st.test) and isinstance(st.test, ast.UnaryOp):
                    return completes(st.body)
                if completes(st.body) and completes(st.orelse):
                    return True
        return False
    return completes(body)


def check_own(eng, run):
    fc = _flow(eng)
    dr = fc.methods["drain"]
    from sa.norm import nodes_inl, private_helper
    src_nodes = [n for n, _o in nodes_inl(dr)]  # drain() and the private helpers it delegates to (creating / registering the waiter)
    created = [n for n in src_nodes if isinstance(n, (ast.Assign, ast.AnnAssign)) and isinstance(getattr(n, "value", None), ast.Call) and _cname(n.value) == "create_future"]
    local = bool(created) and all(isinstance((n.targets[0] if isinstance(n, ast.Assign) else n.target), ast.Name) for n in created)
    var = (created[0].targets[0] if isinstance(created[0], ast.Assign) else created[0].target).id if local else None
    # the helper returns the future it created: the local of drain() that receives it is the waiter
    helper_made = None
    for st in own_nodes(dr.node):
        if isinstance(st, (ast.Assign, ast.AnnAssign)) and isinstance(getattr(st, "value", None), ast.Call):
            g = private_helper(dr, st.value)
            if g is not None and created and any(c in list(own_nodes(g.node)) for c in created) \
                    and all(isinstance(r.value, ast.Name) and r.value.id == var for r in own_nodes(g.node) if isinstance(r, ast.Return)):
                t0 = st.targets[0] if isinstance(st, ast.Assign) else st.target
                if isinstance(t0, ast.Name):
                    helper_made = (g, t0.id)
    if not local:
        run.finding("C20.own", dr, dr.node, "the future awaited by drain() is not created per call in a local: senders share a waiter, so cancelling one cancels (or strands) the others")
    run.ob("C20.own", f"{dr.short}:per-call-future", local)
    # parked before the await
    await_var = helper_made[1] if helper_made else var
    an = AtomicSection(eng, lambda n: isinstance(n, ast.Call) and _cname(call_of(n)) in ("append", "add") and var is not None and any(dotted(a) == var for a in call_of(n).args),
                       lambda n: isinstance(n, ast.Await) and isinstance(n.value, ast.Name) and n.value.id == await_var)
    an.inline_helpers = True
    an.inline_any_args = True
    Interp(an, dr).run()
    ok = bool(an.starts) and bool(an.ends) and all(st == "armed" for _, st in an.ends)
    if not ok:
        run.finding("C20.own", dr, dr.node, "the waiter is not registered in the collection immediately before it is awaited: resume_writing()/connection_lost() cannot reach it")
    run.ob("C20.own", f"{dr.short}:parked-before-await", ok)
    # removal by identity
    rm_cb = any(isinstance(n, ast.Call) and _cname(n) == "add_done_callback" and n.args and (dotted(n.args[0]) or "").endswith(".remove") for n in src_nodes)
    rm_direct = any(isinstance(n, ast.Call) and _cname(n) in ("remove", "discard") and n.args and dotted(n.args[0]) == var for n in src_nodes)
    positional = [n for n in src_nodes if isinstance(n, ast.Call) and _cname(n) in ("popleft", "pop", "clear") and "waiters" in ast.unparse(n.func)]
    ok = (rm_cb or rm_direct) and not positional
    if not ok:
        run.finding("C20.own", dr, positional[0] if positional else dr.node, "the waiter is not removed by identity (done-callback `remove` / `remove(waiter)`): a sender cancelled out of order removes somebody else's waiter, which is then never woken")
    run.ob("C20.own", f"{dr.short}:removed-by-identity", ok)


def check_route(eng, run):
    n = 0
    for ci in eng.db.classes.values():
        if not ci.module.name.startswith("easynetwork." + PKG) or not any("Protocol" in e for e in ci.external_bases):
            continue
        flow_attr = next((m for m, ann in ci.fields.items() if "WriteFlowControl" in ast.unparse(ann)), None)
        if flow_attr is None:
            continue
        for name in ("pause_writing", "resume_writing", "connection_lost"):
            fn = ci.methods.get(name)
            if fn is None:
                run.finding("C20.route", next(iter(ci.methods.values())), ci.node, f"{ci.name} no longer implements {name}()")
                run.ob("C20.route", f"{ci.name}.{name}", False)
                continue
            n += 1

            class Fwd(RuleAnalysis):
                tokens = ("Exception",)
                inline_helpers = True   # connection_lost() split into private steps
                inline_any_args = True

                def initial(self, f):
                    return ["no"]

                def may_raise(self, node, fact):
                    return []

                def transfer(self, node, fact, name=name):
                    c = call_of(node)
                    if isinstance(node, ast.Call) and _cname(c) == name and "write_flow" in ast.unparse(c.func):
                        return ["yes"]
                    return [fact]

                def branch(self, test, fact):
                    # idempotence guard on the protocol's own already-lost flag: the accepted early return
                    t = ast.unparse(test)
                    if "connection_lost" in t and "exception" not in t and isinstance(test, (ast.Attribute, ast.Name)):
                        return ["guard"], [fact]
                    return [fact], [fact]

            out = Interp(Fwd(eng), fn).run()
            bad = [tr for f, tr in out.ret.items() if f == "no"]
            for tr in bad[:1]:
                run.finding("C20.route", fn, _stmt_at(fn, tr[-1]) if tr else fn.node, f"{ci.name}.{name}() can return without forwarding to the flow-control object: suspended senders are never resumed / never told that the connection is gone", tr)
            run.ob("C20.route", f"{ci.name}.{name}", not bad)
    run.floor("C20.route forwarders", n, 9)


DONE_SCOPE = ("easynetwork.lowlevel.api_async.backend._asyncio._flow_control", "easynetwork.lowlevel.api_async.backend._asyncio.stream.socket",
              "easynetwork.lowlevel.api_async.backend._asyncio.datagram", "easynetwork.lowlevel.api_async.backend._asyncio._asyncio_utils")


def _parents(root):
    m = {}
    for n in ast.walk(root):
        for c in ast.iter_child_nodes(n):
            m[c] = n
    return m


def _guarded_by_done(pm, call, fut: str, stop, fn=None) -> bool:
    """`call` sits in the not-done branch of an `if` over `<fut>.done()` (lexically, inside `stop`), or after an early
    `if <fut>.done(): return/continue` in the same block, or in a loop over elements filtered on `not <element>.done()`"""
    n = call
    while n in pm and n is not stop:
        p = pm[n]
        if isinstance(p, ast.For) and isinstance(p.target, ast.Name) and p.target.id == fut and any(n is x for x in p.body) and fn is not None:
            _c, filtered = _iterated_collection(fn, p.iter)
            if filtered and not any(isinstance(a, (ast.Await, ast.Yield, ast.YieldFrom)) for b in p.body for a in ast.walk(b)):
                return True
        if isinstance(p, ast.If):
            in_body = any(n is x for x in p.body)
            t, neg = p.test, False
            while isinstance(t, ast.UnaryOp) and isinstance(t.op, ast.Not):
                t, neg = t.operand, not neg
            conj = t.values if isinstance(t, ast.BoolOp) and isinstance(t.op, ast.And) and not neg else [t]
            for cj in conj if in_body else [t]:
                c_neg = neg
                while isinstance(cj, ast.UnaryOp) and isinstance(cj.op, ast.Not):
                    cj, c_neg = cj.operand, not c_neg
                is_done = isinstance(cj, ast.Call) and isinstance(cj.func, ast.Attribute) and cj.func.attr == "done" and dotted(cj.func.value) == fut
                if is_done and ((in_body and c_neg) or (not in_body and not c_neg and any(n is x for x in p.orelse))):
                    return True
        # early exit guard earlier in the same block
        for field in ("body", "orelse", "finalbody"):
            blk = getattr(p, field, None)
            if isinstance(blk, list) and any(n is x for x in blk):
                for st in blk[: [i for i, x in enumerate(blk) if x is n][0]]:
                    if not (isinstance(st, ast.If) and st.body and isinstance(st.body[-1], (ast.Return, ast.Continue, ast.Raise))):
                        continue
                    # `if fut.done(): return` or `if fut is None or fut.done(): return` (any disjunct being true leaves)
                    disj = st.test.values if isinstance(st.test, ast.BoolOp) and isinstance(st.test.op, ast.Or) else [st.test]
                    if any(isinstance(d_, ast.Call) and isinstance(d_.func, ast.Attribute) and d_.func.attr == "done" and dotted(d_.func.value) == fut for d_ in disj):
                        return True
        n = p
    return False


def _hands_out_pending_only(g) -> bool:
    """every value `g` returns is None or a future tested `not <it>.done()` on the way to that return"""
    pm = _parents(g.node)
    rets = [r for r in own_nodes(g.node) if isinstance(r, ast.Return) and r.value is not None and not (isinstance(r.value, ast.Constant) and r.value.value is None)]
    return bool(rets) and all(isinstance(r.value, ast.Name) and _guarded_by_done(pm, r, r.value.id, g.node) for r in rets)


def check_done(eng, run):
    """completing a future that is already done raises InvalidStateError in the middle of a wake-up sequence (the rest of the waiters /
    the write-flow connection_lost that follows are skipped and suspended senders hang): every completion of a shared waiter is
    guarded by `not <waiter>.done()` - `cancelled()` is not enough, a waiter can be done-with-result for one loop iteration"""
    n = 0
    completers: dict[str, tuple] = {}  # function qualname -> (callable param index) of functions that apply a completer callback under a done() guard
    fns = [f for f in eng.db.all_functions() if f.module.name.startswith(DONE_SCOPE)]
    # 1. functions applying a callable parameter to a future taken from shared state
    for fn in fns:
        if isinstance(fn.node, ast.Lambda):
            continue
        ps = [a.arg for a in fn.params()]
        pm = _parents(fn.node)
        for c in own_nodes(fn.node):
            if isinstance(c, ast.Call) and isinstance(c.func, ast.Name) and c.func.id in ps and len(c.args) == 1 and isinstance(c.args[0], ast.Name) and (
                    "waiter" in c.args[0].id or "fut" in c.args[0].id):
                n += 1
                ok = _guarded_by_done(pm, c, c.args[0].id, fn.node)
                completers[fn.qualname] = (ps.index(c.func.id), ok)
                if not ok:
                    run.finding("C20.done", fn, _stmt_at(fn, c.lineno), f"`{ast.unparse(c)}` completes `{c.args[0].id}` without a `not {c.args[0].id}.done()` guard: a waiter that is already done (result set, "
                                "task not yet resumed) makes the wake-up raise InvalidStateError and what follows it in connection_lost() - failing the suspended senders - never runs")
                run.ob("C20.done", f"{fn.short}:{ast.unparse(c)}", ok)
    # 2. direct completions
    for fn in fns:
        body_nodes = list(ast.walk(fn.node)) if isinstance(fn.node, ast.Lambda) else list(own_nodes(fn.node))
        pm = _parents(fn.node)
        for c in body_nodes:
            if not (isinstance(c, ast.Call) and isinstance(c.func, ast.Attribute) and c.func.attr in ("set_result", "set_exception")):
                continue
            fut = dotted(c.func.value)
            if fut is None:
                continue
            n += 1
            ok = _guarded_by_done(pm, c, fut, fn.node, fn if not isinstance(fn.node, ast.Lambda) else None)
            why = "done-guard"
            if not ok and not isinstance(fn.node, ast.Lambda):
                # fresh future: assigned from create_future() / Future() in this function
                fresh = any(isinstance(a, (ast.Assign, ast.AnnAssign)) and isinstance(getattr(a, "value", None), ast.Call) and (dotted(a.value.func) or "").split(".")[-1] in ("create_future", "Future")
                            and any(dotted(t) == fut for t in (a.targets if isinstance(a, ast.Assign) else [a.target])) and a.lineno < c.lineno for a in own_nodes(fn.node))
                ok, why = fresh, "fresh-future"
            if not ok and not isinstance(fn.node, ast.Lambda) and isinstance(c.func.value, ast.Name):
                # the future comes from a getter of the repository that only ever hands out a waiter that is not done
                # (`if (waiter := self._pending_read_waiter()) is not None: waiter.set_result(n)`), with nothing awaited in between
                for b in own_nodes(fn.node):
                    if isinstance(b, (ast.Assign, ast.AnnAssign, ast.NamedExpr)) and isinstance(getattr(b, "value", None), ast.Call) and b.lineno <= c.lineno and \
                            any(isinstance(t, ast.Name) and t.id == fut for t in (b.targets if isinstance(b, ast.Assign) else [b.target])):
                        for g in eng.typer.call_targets(fn, b.value, dispatch=False):
                            if isinstance(g, FunctionInfo) and not isinstance(g.node, ast.Lambda) and not g.is_async and _hands_out_pending_only(g) \
                                    and not any(isinstance(a, (ast.Await, ast.Yield, ast.YieldFrom)) and b.lineno <= a.lineno <= c.lineno for a in own_nodes(fn.node)):
                                ok, why = True, f"pending-getter:{g.short}"
            if not ok and isinstance(fn.node, ast.Lambda):
                # a completer lambda: fine when it is handed to a function that applies it under a done() guard
                outer = fn.parent if hasattr(fn, "parent") else None
                host = next((f for f in fns if not isinstance(f.node, ast.Lambda) and any(x is fn.node for x in ast.walk(f.node))), None)
                if host is not None:
                    for call in ast.walk(host.node):
                        if isinstance(call, ast.Call) and any(a is fn.node for a in call.args):
                            for t in eng.typer.call_targets(host, call):
                                if isinstance(t, FunctionInfo) and completers.get(t.qualname, (None, False))[1]:
                                    ok, why = True, f"applied-by:{t.short}"
            if not ok:
                run.finding("C20.done", fn, _stmt_at(fn, c.lineno) if not isinstance(fn.node, ast.Lambda) else c, f"`{ast.unparse(c)[:70]}` is not guarded by `not {fut}.done()`: completing an already-done waiter raises "
                            "InvalidStateError and aborts the wake-up of the senders queued behind it")
            run.ob("C20.done", f"{fn.short}:{fut}.{c.func.attr}", ok, how=why)
    run.floor("C20.done future completion sites", n, 10)


def check_flow_state_driven_by_the_transport_only(eng, run):
    """the paused flag mirrors what asyncio told the protocol: `WriteFlowControl.pause_writing()` / `resume_writing()` are called only by
    the protocol callbacks of the same names (asyncio's high/low water-mark notifications).  Anybody else who 'resumes' - an error
    callback, a close path - releases the suspended senders and clears the flag while the transport is still above its high-water
    mark: asyncio will not call pause_writing() again, so later sends return at once and the queue grows without bound (or a send
    returns with its bytes still in the closing transport's buffer)."""
    n = 0
    for fn in eng.db.all_functions():
        if isinstance(fn.node, ast.Lambda) or not fn.module.name.startswith("easynetwork.lowlevel.api_async.backend._asyncio"):
            continue
        for c in own_nodes(fn.node):
            if isinstance(c, ast.Call) and isinstance(c.func, ast.Attribute) and c.func.attr in ("resume_writing", "pause_writing"):
                n += 1
                ok = fn.name == c.func.attr
                if not ok:
                    run.finding("C20.route", fn, _stmt_at(fn, c.lineno), f"`{ast.unparse(c)[:50]}` in {fn.name}(): the write-flow state is changed by something else than asyncio's "
                                f"{c.func.attr}() notification - suspended senders are released (and the paused flag cleared) while the transport is still above its high-water mark")
                run.ob("C20.route", f"{fn.short}:{c.func.attr}:only-from-the-protocol-callback", ok)
    run.floor("C20.route forwarded pause/resume notifications", n, 4)


def run(eng, run):
    from sa.anchors import verify as _verify_anchor_names
    _verify_anchor_names(eng, run)
    run.not_decided += NOT_DECIDED
    run.assumptions += ["asyncio transports call pause_writing/resume_writing/connection_lost as documented"]
    run.attempt(check_drain, eng, run)
    run.attempt(check_zero, eng, run)
    run.attempt(check_wake, eng, run)
    run.attempt(check_done, eng, run)
    run.attempt(check_own, eng, run)
    run.attempt(check_route, eng, run)
    run.attempt(check_flow_state_driven_by_the_transport_only, eng, run)
    # a sender waiting for the TLS send lock behind one that is suspended by backpressure: the records it has produced must not leave the
    # write BIO before it holds the lock, or its cancellation strands every later sender (rule of C12.tls)
    from rules import c12
    from sa.report import RuleAlias
    run.attempt(c12.check_tls, eng, RuleAlias(run, "C20.drain"))
    run.end_of_rules()


# ---------------------------------------------------------------------------------------------- self-test corpus
from sa.mutate import (Variant, delete_stmt, find_stmt, insert_after, insert_before, rename_local, replace_expr, replace_stmt,  # noqa: E402
                       stmt_has, stmt_is)

_FC = f"{PKG}._flow_control:WriteFlowControl"
_SS = f"{PKG}.stream.socket:AsyncioTransportStreamSocketAdapter"
_EP = f"{PKG}.datagram.endpoint:DatagramEndpoint.sendto"
_PROTO = f"{PKG}.stream.socket:StreamReaderBufferedProtocol"
_LPROTO = f"{PKG}.datagram.listener:DatagramListenerProtocol"

MUTANTS = [
    Variant("send-all-return-before-drain", _SS + ".send_all", lambda fn: insert_before(fn, stmt_has("await self.__protocol.writer_drain()"), "if not self.__transport.is_closing():\n    return"),
            "C20.drain", why="no backpressure while the transport is healthy"),
    Variant("buffer-limits-64k", _SS + ".__init__", lambda fn: replace_expr(fn, "transport.set_write_buffer_limits(0)", "transport.set_write_buffer_limits(65536)"), "C20.zero"),
    Variant("resume-wakes-first-only", _FC + ".resume_writing", lambda fn: [lp.body.append(ast.parse("break").body[0]) for lp in ast.walk(fn) if isinstance(lp, ast.For)], "C20.wake",
            why="only the oldest suspended sender is resumed"),
    Variant("connection-lost-early-return-no-exc", _FC + ".connection_lost", lambda fn: insert_after(fn, stmt_is("self.__connection_lost_exception = exc"), "if exc is None:\n    return"), "C20.wake",
            why="a clean close leaves suspended senders parked for ever"),
    Variant("shared-drain-waiter", _FC + ".drain",
            lambda fn: (replace_stmt(fn, stmt_is("waiter = self.__loop.create_future()"), "waiter = self.__drain_waiters[0] if self.__drain_waiters else self.__loop.create_future()")), "C20.own"),
    Variant("drain-popleft-in-finally", _FC + ".drain",
            lambda fn: (delete_stmt(fn, stmt_has("add_done_callback(self.__drain_waiters.remove)")), replace_stmt(fn, stmt_is("del waiter"), "self.__drain_waiters.popleft()\ndel waiter")), "C20.own"),
    Variant("drain-lost-check-before-yield", _FC + ".drain",
            lambda fn: (lambda lst_i_st: (lst_i_st[0].insert(1, lst_i_st[0].pop(0))))(find_stmt(fn, stmt_is("if self.__is_closing()"))), "C20.wake",
            why="a fatal write error scheduled connection_lost(): the yield that lets it run now comes after the check"),
    Variant("protocol-resume-not-forwarded", _PROTO + ".resume_writing", lambda fn: setattr(fn, "body", [ast.parse("pass").body[0]]), "C20.route"),
    Variant("listener-connection-lost-skips-flow", _LPROTO + ".connection_lost", lambda fn: delete_stmt(fn, stmt_has("self.__write_flow.connection_lost(exc)")), "C20.route"),
    Variant("endpoint-sendto-no-drain", _EP, lambda fn: delete_stmt(fn, stmt_has("await self.__protocol._drain_helper()")), "C20.drain"),
]

BENIGN = [
    Variant("resume-iterate-over-copy", _FC + ".resume_writing", lambda fn: replace_expr(fn, "self.__drain_waiters", "list(self.__drain_waiters)", nth=0), why="iterating over a list copy"),
    Variant("drain-rename-waiter", _FC + ".drain", lambda fn: rename_local(fn, "waiter", "fut"), why="local renamed"),
    Variant("send-all-drain-via-local", _SS + ".send_all", lambda fn: replace_stmt(fn, stmt_has("await self.__protocol.writer_drain()"), "protocol = self.__protocol\nawait protocol.writer_drain()"), why="drain through a local"),
]

_FCR = "lowlevel.api_async.backend._asyncio._flow_control:WriteFlowControl.resume_writing"
_RWF = "lowlevel.api_async.backend._asyncio.stream.socket:StreamReaderBufferedProtocol._read_waiter_fut"


def _suppress_instead_of_guard(fn):
    lp = next(n for n in ast.walk(fn) if isinstance(n, ast.For))
    iff = lp.body[0]
    lp.body = iff.body
    w = ast.parse("with contextlib.suppress(asyncio.InvalidStateError):\n    pass").body[0]
    w.body = [lp]
    fn.body[fn.body.index(lp)] = w


MUTANTS += [
    Variant("resume-writing-eafp-around-the-loop", _FCR, _suppress_instead_of_guard, "C20.done",
            why="the first already-cancelled waiter aborts the loop: senders queued behind it are never resumed (seed C20-4)"),
    Variant("read-waiter-guard-cancelled-only", _RWF, lambda fn: replace_expr(fn, "waiter.done()", "waiter.cancelled()"), "C20.done",
            why="done-with-result waiter: connection_lost() aborts before failing the suspended senders (seed C20-6)"),
]
BENIGN += [
    Variant("read-waiter-early-return-guard", _RWF,
            lambda fn: setattr(fn, "body", ast.parse("waiter = self.__read_waiter\nif waiter is None:\n    return\nif waiter.done():\n    return\nset_result_cb(waiter)").body),
            why="same guard written as early returns"),
]
