"""C12 - concurrent senders never interleave packets (DESIGN.md section 3, C12)."""
from __future__ import annotations

import ast

from sa.analyses.atomic import AtomicSection
from sa.analyses.locks import LockHeld, canon_lock, held_names
from sa.report import RuleAlias
from sa.db import AnalysisError, ClassInfo, FunctionInfo, dotted, mangle, norm_stmt, own_nodes
from sa.flow import Interp, WithEnter, call_of

CLAIM = {
    "text": "Decides the mutual-exclusion structure behind contiguous packets: in every class that owns a send lock, every write-side operation on the underlying endpoint (send_packet, send_packet_to, send_eof, close/aclose) is, on every path, inside the extent of that one lock, which is created once by a lock factory and never released early; low-level endpoints enclose their sender await in their ResourceGuard; in the TLS transport one caller's plaintext reaches the SSL object without any suspension point in between and every ciphertext write to the wrapped transport (BIO read + send_all in one expression) is inside the transport send lock; FairLock keeps its first-come-first-served shape; send paths do not spawn the write into another task. A flag that send_packet() tests under the send lock is, in a graceful close, stored only while that lock is held; the TLS write-all helper removes a chunk only after the write; the send loops make progress (rule of C04). Round 4: explicit `lock.acquire()` calls are paired - released on every exit once acquired, release registered only when held, the body of the context manager runs only with the lock (path-sensitive on the boolean result, exact short-circuit evaluation). Round 5: the send and receive locks are distinct objects (C18.order); in the selector retry loop the 'infinite wait came back empty' error is reachable only after the unbounded select(). Round 6: FairLock waiters leave the queue only by removing themselves in acquire() (and the private coroutines only acquire() runs): release() dequeues nobody; the facts are read over that acquire family and over local aliases of the queue; concurrent TLS senders each flush what they queued.",
    "note": "Trusted: fairness / correctness of asyncio.Lock and threading.Lock themselves; that the endpoint's send is the only route to the wire (C08 covers the TLS confinement). Not decided: liveness.",
    "technique": "lock-held typestate and atomic-section (no may-suspend point between two atoms) by abstract interpretation over an exception-aware structured CFG; interprocedural may-suspend summaries; shape facts on FairLock",
}
NOT_DECIDED = ["fairness of third-party locks", "that every call eventually succeeds (liveness)"]

WRITE_OPS = {"send_packet", "send_packet_to", "send_eof", "aclose", "close"}


def _written(ci: ClassInfo, mattr: str) -> str:
    prefix = "_" + ci.name.lstrip("_") + "__"
    return "__" + mattr[len(prefix):] if mattr.startswith(prefix) else mattr


def sender_classes(eng):
    out = []
    for ci in eng.db.classes.values():
        for mattr in list(ci.fields) + list(ci.field_values):
            if mattr.endswith("__send_lock"):
                out.append((ci, mattr))
                break
    return out


def _stmt_at(fn, line):
    best = None
    for n in own_nodes(fn.node):
        if isinstance(n, ast.stmt) and getattr(n, "lineno", -1) == line:
            if best is None or not isinstance(n, (ast.Try, ast.With, ast.AsyncWith, ast.For, ast.If, ast.While)):
                best = n
    return best if best is not None else fn.node


def check_held(eng, run):
    n_sites = 0
    n_classes = 0
    for ci, mattr in sender_classes(eng):
        lock_written = _written(ci, mattr)
        # the lock is created once, in __init__, by a lock factory
        stores = ci.field_values.get(mattr, [])
        ok_store = len(stores) == 1 and stores[0][0] is not None and stores[0][0].name in ("__init__", "__post_init__")
        factory = ""
        if stores and isinstance(stores[0][1], ast.Call):
            c = stores[0][1]
            factory = c.func.attr if isinstance(c.func, ast.Attribute) else getattr(c.func, "id", "")
        ok_factory = factory in ("create_fair_lock", "create_lock", "ForkSafeLock", "Lock", "RLock", "FairLock", "FastFIFOLock")
        if not (ok_store and ok_factory):
            fn0 = stores[0][0] if stores and stores[0][0] is not None else next(iter(ci.methods.values()))
            run.finding("C12.held", fn0, stores[0][1] if stores else ci.node, f"send lock `{lock_written}` is not created exactly once in the constructor by a lock factory")
        run.ob("C12.held", f"{ci.name}:{lock_written}:write-once", ok_store and ok_factory, factory=factory)
        n_classes += 1
        for fn in ci.methods.values():
            if isinstance(fn.node, ast.Lambda) or fn.name in ("__init__", "__del__", "__repr__"):
                continue
            selfn = fn.self_name
            if selfn is None:
                continue
            lock = f"{selfn}.{lock_written}"

            def is_site(node, an, fn=fn):
                call = call_of(node)
                if call is None or not isinstance(call.func, ast.Attribute) or call.func.attr not in WRITE_OPS:
                    return False
                recv = call.func.value
                if isinstance(recv, ast.Name) and recv.id == fn.self_name:
                    return False
                if isinstance(recv, ast.Call) and isinstance(recv.func, ast.Name) and recv.func.id == "super":
                    return False
                ts = eng.typer.expr_types(fn, recv)
                return any(t.kind == "repo" and t.ref.find_method(call.func.attr) is not None and
                           (t.ref.find_method("send_packet") is not None or t.ref.find_method("send_packet_to") is not None) for t in ts)

            an = LockHeld(eng, {lock}, is_site)
            Interp(an, fn).run()
            per_site: dict[int, list] = {}
            for node, held in an.sites:
                per_site.setdefault(id(node), [node, True])
                if lock not in held_names(held):
                    per_site[id(node)][1] = False
            for node, ok in per_site.values():
                n_sites += 1
                call = call_of(node)
                if not ok:
                    run.finding("C12.held", fn, _stmt_at(fn, node.lineno), f"`{ast.unparse(call.func)}` reaches the wire outside the send lock `{lock}` on some path: a concurrent sender can interleave")
                run.ob("C12.held", f"{fn.short}:{ast.unparse(call.func)}@{norm_stmt(_stmt_at(fn, node.lineno))[:40]}", ok, lock=lock)
            for rel in an.releases:
                run.finding("C12.span", fn, _stmt_at(fn, rel.lineno), f"send lock `{lock}` released explicitly inside a send path")
            if fn.name in ("send_packet", "send_packet_to"):
                sends = [nd for nd, _ in an.sites if call_of(nd).func.attr in ("send_packet", "send_packet_to")]
                distinct = {id(s) for s in sends}
                in_loop = False
                for lp in own_nodes(fn.node):
                    if isinstance(lp, (ast.For, ast.While, ast.AsyncFor)):
                        if any(isinstance(x, ast.Call) and id(x) in {id(call_of(s)) for s in sends} for x in ast.walk(lp)):
                            in_loop = True
                ok = len(distinct) == 1 and not in_loop and not an.releases
                if not ok:
                    run.finding("C12.span", fn, fn.node, f"{fn.short}: expected exactly one endpoint send inside one lock extent (found {len(distinct)}, in a loop: {in_loop})")
                run.ob("C12.span", f"{fn.short}:one-send-per-lock-extent", ok)
                spawns = [x for x in own_nodes(fn.node) if isinstance(x, ast.Call) and isinstance(x.func, ast.Attribute) and x.func.attr in ("start_soon", "start", "create_task", "ensure_future", "run_in_thread", "submit")]
                for sp in spawns:
                    run.finding("C12.order", fn, _stmt_at(fn, sp.lineno), "the write is spawned into another task/thread: packets of one caller may be reordered")
                run.ob("C12.order", f"{fn.short}:write-awaited-inline", not spawns)
    run.floor("C12.held sender classes", n_classes, 5)
    run.floor("C12.held write sites", n_sites, 12)


def check_flag_under_lock(eng, run):
    """'every call succeeds': a flag that send_packet() tests under the send lock (closing / closed) is, outside exception arms, only
    stored while that lock is held - a fair lock then orders the store after every sender that was already queued; a store made
    before waiting for the lock makes those earlier callers fail with ClientClosedError"""
    n = 0
    for ci, mattr in sender_classes(eng):
        lock_written = _written(ci, mattr)
        sp = ci.methods.get("send_packet")
        if sp is None or sp.self_name is None:
            continue
        # flags read in send_packet under the lock
        flags = set()
        for w in own_nodes(sp.node):
            if isinstance(w, (ast.With, ast.AsyncWith)) and any(canon_lock(it.context_expr) == f"{sp.self_name}.{lock_written}" for it in w.items):
                for i in ast.walk(w):
                    if isinstance(i, ast.If) and any(isinstance(r, ast.Raise) for r in i.body):
                        for a in ast.walk(i.test):
                            if isinstance(a, ast.Attribute) and dotted(a.value) == sp.self_name and isinstance(a.ctx, ast.Load):
                                flags.add(a.attr)
        for fl in sorted(flags):
            for fn in ci.methods.values():
                if isinstance(fn.node, ast.Lambda) or fn.self_name is None or fn.name not in ("close", "aclose"):
                    continue  # a graceful close; a disconnect notification (the connection is gone) may flag at once
                stores = [st for st in own_nodes(fn.node) if isinstance(st, ast.Assign) and any(dotted(t) == f"{fn.self_name}.{fl}" for t in st.targets)
                          and isinstance(st.value, ast.Constant) and st.value.value is True]
                if not stores:
                    continue
                lock = f"{fn.self_name}.{lock_written}"
                in_handler = {id(st) for h in ast.walk(fn.node) if isinstance(h, ast.ExceptHandler) for st in ast.walk(h)}
                an = LockHeld(eng, {lock}, lambda node, a_, stores=stores: node in stores)
                Interp(an, fn).run()
                bad = [node for node, held in an.sites if lock not in held_names(held) and id(node) not in in_handler]
                n += 1
                for node in bad[:1]:
                    run.finding("C12.held", fn, node, f"`{fl}` - tested by send_packet() under `{lock}` - is set before that lock is held: senders that were already queued on the lock when "
                                f"{fn.name}() was called find it set and fail instead of having their packet sent")
                run.ob("C12.held", f"{fn.short}:{fl}:stored-under-the-send-lock", not bad, stores=len(stores))
    run.counters["flag_stores_checked"] = n


def check_guards(eng, run):
    """Low-level endpoints: the send guard encloses the await of the sender on every path."""
    n = 0
    for ci in eng.db.classes.values():
        guards = [m for m in list(ci.fields) + list(ci.field_values) if m.endswith("__send_guard")]
        if not guards:
            continue
        gw = _written(ci, guards[0])
        for fn in ci.methods.values():
            if fn.name not in ("send_packet", "send_packet_to", "send_eof") or not fn.is_async:
                continue
            guard = f"{fn.self_name}.{gw}"

            def is_site(node, an):
                return isinstance(node, ast.Await) and call_of(node) is not None and isinstance(call_of(node).func, ast.Attribute) and \
                    call_of(node).func.attr in ("send", "send_all", "send_all_from_iterable", "send_eof", "send_to")

            an = LockHeld(eng, {guard}, is_site)
            Interp(an, fn).run()
            bad = [nd for nd, held in an.sites if guard not in held_names(held)]
            n += 1
            for nd in bad[:1]:
                run.finding("C12.span", fn, _stmt_at(fn, nd.lineno), f"transport write awaited outside `{guard}`: unsynchronised concurrent senders interleave instead of getting BusyResourceError")
            ok = bool(an.sites) and not bad
            if not an.sites:
                run.finding("C12.span", fn, fn.node, f"{fn.short}: no guarded transport write found")
            run.ob("C12.span", f"{fn.short}:guard", ok, guard=guard, sites=len(an.sites))
    run.floor("C12.span guarded endpoint sends", n, 6)


def check_tls(eng, run):
    db = eng.db
    tls = db.cls("lowlevel.api_async.transports.tls.AsyncTLSStreamTransport")

    def m(name):
        f = tls.methods.get(name) or tls.methods.get(mangle(tls.name, name))
        if f is None:
            raise AnalysisError(f"anchor vanished: AsyncTLSStreamTransport.{name}")
        return f

    retry = m("_retry_ssl_method")
    flush = m("__flush_data_to_send")
    writer = m("__write_all_to_ssl_object")
    # (a) plaintext enters the SSL object with no suspension since it was queued
    for name in ("send_all", "send_all_from_iterable"):
        fn = m(name)

        def start(node):
            c = call_of(node)
            return isinstance(node, ast.Call) and isinstance(c.func, ast.Attribute) and c.func.attr in ("append", "extend", "appendleft") and \
                (dotted(c.func.value) or "").endswith("_data_deque")

        def end(node, flush=flush, fn=fn):
            return isinstance(node, ast.Await) and call_of(node) is not None and flush in eng.typer.call_targets(fn, call_of(node))

        an = AtomicSection(eng, start, end)
        Interp(an, fn).run()
        ok = bool(an.starts) and bool(an.ends) and all(st == "armed" for _, st in an.ends) and not an.breaks
        if not an.starts or not an.ends:
            # the rule's own subject is gone: the send no longer queues the whole packet and then flushes once
            run.finding("C12.tls", fn, fn.node, "the whole packet is no longer queued into the shared plaintext backlog in one step followed by a single flush: "
                        "chunks of one packet are written and flushed separately, and a concurrent sender's records interleave with them")
            run.ob("C12.tls", f"{fn.short}:queue-to-flush-atomic", False)
            continue
        for b in an.breaks[:1]:
            run.finding("C12.tls", fn, _stmt_at(fn, b.lineno), "suspension point between queuing the caller's plaintext and writing it into the SSL object: another sender's plaintext can be queued in between and the two are written in one go, or out of call order")
        run.ob("C12.tls", f"{fn.short}:queue-to-flush-atomic", ok)
    # flush -> retry: no suspension before the retry call
    an = AtomicSection(eng, None, lambda node: isinstance(node, ast.Await) and call_of(node) is not None and retry in eng.typer.call_targets(flush, call_of(node)), armed_at_entry=True)
    Interp(an, flush).run()
    ok = bool(an.ends) and all(st == "armed" for _, st in an.ends)
    if not an.ends:
        raise AnalysisError("anchor vanished: __flush_data_to_send -> _retry_ssl_method")
    for b in an.breaks[:1]:
        run.finding("C12.tls", flush, _stmt_at(flush, b.lineno), "suspension point before the queued plaintext is written into the SSL object")
    run.ob("C12.tls", f"{flush.short}:entry-to-retry-atomic", ok)
    # retry: from entry (and from each loop re-entry) to the first call of ssl_object_method: only for the first
    # iteration (later iterations legitimately waited for I/O; the data deque is drained synchronously inside one call)
    p0 = retry.params()[1].arg
    an = AtomicSection(eng, None, lambda node: isinstance(node, ast.Call) and isinstance(node.func, ast.Name) and node.func.id == p0, armed_at_entry=True)
    Interp(an, retry).run()
    first_ok = any(st == "armed" for _, st in an.ends)
    if not an.ends:
        raise AnalysisError("anchor vanished: call of the ssl method parameter in _retry_ssl_method")
    if not first_ok:
        run.finding("C12.tls", retry, an.breaks[0] if an.breaks else retry.node, "a suspension point precedes the first call of the SSL method: queued plaintext of two callers can be merged or reordered")
    run.ob("C12.tls", f"{retry.short}:entry-to-ssl-call-atomic", first_ok)
    # writer is synchronous
    sync_ok = not writer.is_async and not any(isinstance(n, (ast.Await, ast.Yield, ast.YieldFrom)) for n in own_nodes(writer.node))
    if not sync_ok:
        run.finding("C12.tls", writer, writer.node, "the backlog writer can suspend: a caller's plaintext is no longer written contiguously")
    run.ob("C12.tls", f"{writer.short}:synchronous", sync_ok)
    # (c) ciphertext writes under the transport send lock, BIO read inside the same expression
    selfn = retry.self_name
    locks = {f"{selfn}.__transport_send_lock"}

    def is_wire(node, an):
        c = call_of(node)
        return isinstance(node, ast.Await) and c is not None and isinstance(c.func, ast.Attribute) and c.func.attr in ("send_all", "send_all_from_iterable") \
            and (dotted(c.func.value) or "").endswith("_transport")

    n_wire = 0
    for fn in tls.methods.values():
        if isinstance(fn.node, ast.Lambda):
            continue
        an = LockHeld(eng, {f"{fn.self_name}.__transport_send_lock"}, is_wire)
        Interp(an, fn).run()
        seen = {}
        for node, held in an.sites:
            seen.setdefault(id(node), [node, True])
            if not held_names(held):
                seen[id(node)][1] = False
        for node, ok in seen.values():
            n_wire += 1
            c = call_of(node)
            arg_ok = len(c.args) == 1 and isinstance(c.args[0], ast.Call) and isinstance(c.args[0].func, ast.Attribute) and c.args[0].func.attr == "read" \
                and (dotted(c.args[0].func.value) or "").endswith("_write_bio")
            if not ok:
                run.finding("C12.tls", fn, _stmt_at(fn, node.lineno), "ciphertext is written to the wrapped transport outside the transport send lock: TLS records of concurrent operations can interleave on the wire")
            if not arg_ok:
                run.finding("C12.tls", fn, _stmt_at(fn, node.lineno), "the BIO read and the transport write are not one expression under the lock (a suspension between them reorders records)")
            run.ob("C12.tls", f"{fn.short}:wire-write@{node.lineno - fn.lineno}", ok and arg_ok)
    run.floor("C12.tls wire writes", n_wire, 1)


def check_fifo(eng, run):
    fl = eng.db.cls("lowlevel.api_async.backend._common.fair_lock.FairLock")
    acq = fl.methods.get("acquire")
    rel = fl.methods.get("release")
    wake = fl.methods.get("_wake_up_first")
    if not (acq and rel and wake):
        raise AnalysisError("anchor vanished: FairLock.acquire/release/_wake_up_first")
    facts = {}
    # acquire() and the private coroutines only acquire() runs (its slow path split off); the queue under its attribute name or a local
    # alias of it (`waiters = self._waiters`, `self._waiters = waiters = deque()`)
    from sa.norm import referenced_only_from
    family = [acq] + [m for m in fl.methods.values() if m is not acq and not isinstance(m.node, ast.Lambda) and m.name not in ("release", "_wake_up_first", "locked")
                      and referenced_only_from(fl, m.name, {"acquire"})]

    def _aliases(m):
        out = set()
        for x in ast.walk(m.node):
            if isinstance(x, ast.NamedExpr) and isinstance(x.target, ast.Name) and (dotted(x.value) or "").endswith("_waiters"):
                out.add(x.target.id)
            if isinstance(x, ast.Assign):
                if (dotted(x.value) or "").endswith("_waiters") or any((dotted(t) or "").endswith("_waiters") for t in x.targets):
                    out |= {t.id for t in x.targets if isinstance(t, ast.Name)}
        return out

    def _is_q(e, m):
        return (dotted(e) or "").endswith("_waiters") or (isinstance(e, ast.Name) and e.id in _aliases(m))

    acq_nodes = [(n, m) for m in family for n in own_nodes(m.node)]
    calls = [n for n, m in acq_nodes if isinstance(n, ast.Call) and isinstance(n.func, ast.Attribute) and _is_q(n.func.value, m)]
    facts["append-right"] = any(c.func.attr == "append" for c in calls) and not any(c.func.attr in ("appendleft", "insert") for c in calls)
    # wake index 0
    subs = [n for n in own_nodes(wake.node) if isinstance(n, ast.Subscript) and (dotted(n.value) or "").endswith("_waiters")]
    facts["wake-head"] = bool(subs) and all(isinstance(s.slice, ast.Constant) and s.slice.value == 0 for s in subs) and \
        any(isinstance(n, ast.Call) and isinstance(n.func, ast.Attribute) and n.func.attr == "set" for n in own_nodes(wake.node))
    # self-removal in finally around the wait
    ok = False
    fwd = False
    for t in [n for n, _m in acq_nodes if isinstance(n, ast.Try)]:
        waits = any(isinstance(x, ast.Await) and isinstance(x.value, ast.Call) and isinstance(x.value.func, ast.Attribute) and x.value.func.attr == "wait" for b in t.body for x in ast.walk(b))
        if waits and any(isinstance(x, ast.Call) and isinstance(x.func, ast.Attribute) and x.func.attr == "remove" for b in t.finalbody for x in ast.walk(b)):
            ok = True
        for h in t.handlers:
            names = eng.lattice.handler_classes(acq, h.type)
            if names and "BaseException" in names:
                ifs = [s for s in h.body if isinstance(s, ast.If)]
                if any(ast.unparse(i.test).replace(" ", "") in ("notself._locked",) and any(isinstance(x, ast.Call) and isinstance(x.func, ast.Attribute) and x.func.attr == "_wake_up_first" for x in ast.walk(i)) for i in ifs) \
                        and isinstance(h.body[-1], ast.Raise):
                    fwd = True
    facts["self-remove-in-finally"] = ok
    facts["cancelled-heir-forwards-wakeup"] = fwd
    # newcomers queue behind existing waiters
    first_if = next((s for s in acq.node.body if isinstance(s, ast.If)), None)
    facts["no-barging"] = first_if is not None and _queues_when_held_or_waited(first_if)
    facts["release-unlocked-raises"] = any(isinstance(n, ast.Raise) for n in own_nodes(rel.node))
    # a waiter stays queued until it runs again and removes *itself*: while a woken waiter is still in the queue a newcomer queues
    # behind it; a release() that dequeues the waiter it wakes leaves the lock free *and* the queue empty for one scheduling step -
    # whoever calls acquire() in that window takes the fast path and the lock has two owners
    shrinkers = []
    for m in acq.cls.methods.values():
        if isinstance(m.node, ast.Lambda):
            continue
        for c in own_nodes(m.node):
            if isinstance(c, ast.Call) and isinstance(c.func, ast.Attribute) and _is_q(c.func.value, m) and c.func.attr in ("popleft", "pop", "clear", "remove"):
                if not (m in family and c.func.attr == "remove"):
                    shrinkers.append((m, c))
            if isinstance(c, ast.Delete) and any("_waiters" in ast.unparse(t) for t in c.targets):
                shrinkers.append((m, c))
    facts["waiters-dequeue-themselves-only"] = not shrinkers
    for k, v in facts.items():
        if not v:
            run.finding("C12.fifo", acq if k not in ("wake-head",) else wake, (acq if k != "wake-head" else wake).node, f"FairLock lost its first-come-first-served shape: {k}")
        run.ob("C12.fifo", f"FairLock:{k}", v)


def _queues_when_held_or_waited(iff: ast.If) -> bool:
    """the first decision of acquire(): the caller queues when `self._locked or self._waiters`; spelled either way round - the
    waiting code under `if locked or waiters:` or the fast path as a guard clause `if not locked and not waiters: ...; return`"""
    from sa.norm import strip_not
    t, neg = strip_not(iff.test)
    if not isinstance(t, ast.BoolOp):
        return False
    lits = set()
    for v in t.values:
        a, n_ = strip_not(v)
        lits.add((dotted(a), n_))
    is_or = isinstance(t.op, ast.Or)
    want = {("self._locked", False), ("self._waiters", False)}
    if is_or and not neg and lits == want:
        return True  # `if self._locked or self._waiters:` <wait>
    fast_guard = (is_or and neg and lits == want) or (not is_or and not neg and lits == {(k, True) for k, _ in want})
    if fast_guard:
        # `if not (locked or waiters):` / `if not locked and not waiters:` - the arm is the fast path and leaves the function
        takes = any(isinstance(s_, ast.Assign) and dotted(s_.targets[0]) == "self._locked" and isinstance(s_.value, ast.Constant) and s_.value.value is True for s_ in iff.body)
        return takes and isinstance(iff.body[-1], ast.Return) and not iff.orelse and not any(isinstance(x, ast.Await) for s_ in iff.body for x in ast.walk(s_))
    return False


def check_lock_with_timeout(eng, run):
    """explicit acquire/release pairing: every function that calls `<lock>.acquire(...)` itself (the helper that takes a client's
    lock with a deadline) releases the lock on every exit once it holds it, registers the release only when it holds it, and
    runs its body only with the lock held (sa/analyses/pairing.py)"""
    from sa.analyses.pairing import check_pairing

    n = 0
    for fn in eng.db.all_functions():
        if isinstance(fn.node, ast.Lambda) or fn.name in ("__aenter__", "__enter__", "__aexit__", "__exit__"):
            continue
        locks = set()
        for c in own_nodes(fn.node):
            if isinstance(c, ast.Call) and isinstance(c.func, ast.Attribute) and c.func.attr == "acquire" and isinstance(c.func.value, ast.Name):
                locks.add(c.func.value.id)
        for lk in sorted(locks):
            n += 1
            an, probs = check_pairing(eng, fn, lk)
            for node, why in probs[:2]:
                st = _stmt_at(fn, node if isinstance(node, int) else getattr(node, "lineno", fn.node.lineno))
                run.finding("C12.span", fn, st, f"{why} (lock `{lk}`): the next holder then runs concurrently with a sender / later callers never get the lock")
            run.ob("C12.span", f"{fn.short}:{lk}:acquire-release-paired", not probs, acquires=an.acquires, registrations=an.registrations, yields=an.yields)
    run.floor("C12.span functions acquiring a lock explicitly", n, 1)


def run(eng, run):
    from sa.anchors import verify as _verify_anchor_names
    _verify_anchor_names(eng, run)
    run.not_decided += NOT_DECIDED
    run.attempt(check_lock_with_timeout, eng, run)
    run.attempt(check_held, eng, run)
    run.attempt(check_flag_under_lock, eng, run)
    run.attempt(check_guards, eng, run)
    run.attempt(check_tls, eng, run)
    from rules import c04, c08
    run.attempt(c08.check_remove_after_write, eng, run, rule="C12.tls")
    run.attempt(c04.check_prog, eng, RuleAlias(run, "C12.span"))
    run.attempt(check_fifo, eng, run)
    from rules import c11, c18
    run.attempt(c18.check_distinct_primitives, eng, RuleAlias(run, "C12.held"))  # the send lock and the receive lock are two locks
    run.attempt(c11.check_infinite_wait_error, eng, RuleAlias(run, "C12.span"), "C12.span")  # a blocked sender is not failed mid-packet by the retry wake-up
    from rules import c08 as _c08d
    run.attempt(_c08d.check_drain, eng, RuleAlias(run, "C12.tls"))  # concurrent senders: whoever queued data flushes it itself - nobody returns while its bytes sit in the backlog
    run.end_of_rules()


# ---------------------------------------------------------------------------------------------- self-test corpus
from sa.mutate import (Variant, delete_stmt, insert_after, insert_before, rename_local, replace_expr, replace_stmt,  # noqa: E402
                       stmt_has, stmt_is)

_ATCP = "clients.async_tcp:AsyncTCPNetworkClient"
_TCP = "clients.tcp:TCPNetworkClient"
_SRV = "servers.async_tcp:_ConnectedClientAPI"
_TLS = "lowlevel.api_async.transports.tls:AsyncTLSStreamTransport"
_FL = "lowlevel.api_async.backend._common.fair_lock:FairLock"
_EP = "lowlevel.api_async.endpoints.stream:AsyncStreamEndpoint.send_packet"


def _send_outside_lock(fn):
    # async with lock: endpoint = await ensure_connected()   |  then the send happens after the block
    lst, i, st = __import__("sa.mutate", fromlist=["find_stmt"]).find_stmt(fn, stmt_is("async with self.__send_lock"))
    inner_with = [s for s in st.body if isinstance(s, ast.With)][0]
    st.body.remove(inner_with)
    lst.insert(i + 1, inner_with)


def _own_lock_for_close(fn):
    replace_stmt(fn, stmt_is("with self.__send_lock.get():"), "with self.__receive_lock.get():\n    self.__endpoint.close()")


MUTANTS = [
    Variant("async-tcp-send-outside-lock", _ATCP + ".send_packet", _send_outside_lock, "C12.held",
            why="two tasks' packets interleave when the first write suspends on backpressure"),
    Variant("tcp-close-under-receive-lock", _TCP + ".close", _own_lock_for_close, "C12.held",
            why="close can cut a packet another thread is half-way through sending"),
    Variant("srv-client-send-without-lock", _SRV + ".send_packet",
            lambda fn: replace_stmt(fn, stmt_is("async with self.__send_lock"), "if self.__closing:\n    raise ClientClosedError('Closed client')\nawait self.__client.send_packet(packet)"),
            "C12.held"),
    Variant("endpoint-send-outside-guard", _EP,
            lambda fn: replace_stmt(fn, stmt_is("with self.__send_guard"), "with self.__send_guard:\n    sender = self.__sender\nreturn await sender.send(packet)"),
            "C12.span", why="unsynchronised concurrent use interleaves instead of raising BusyResourceError"),
    Variant("tls-yield-after-queue", _TLS + ".send_all", lambda fn: insert_after(fn, stmt_has("self._data_deque.append"), "await self._transport.backend().coro_yield()"),
            "C12.tls", why="two callers' plaintext can be merged out of order"),
    Variant("tls-ciphertext-outside-lock", _TLS + "._retry_ssl_method",
            lambda fn: replace_stmt(fn, stmt_is("async with self.__transport_send_lock"), "await self._transport.send_all(self._write_bio.read())", 1),
            "C12.tls", why="WANT_WRITE flush races with another task's flush: records interleave"),
    Variant("tls-writer-becomes-async-yield", _TLS + ".__write_all_to_ssl_object",
            lambda fn: insert_after(fn, stmt_has("sent = ssl_object.write(data)"), "yield"), "C12.tls"),
    Variant("fairlock-appendleft", _FL + ".acquire", lambda fn: replace_expr(fn, "self._waiters.append", "self._waiters.appendleft"), "C12.fifo"),
    Variant("fairlock-barging", _FL + ".acquire", lambda fn: replace_expr(fn, "self._locked or self._waiters", "self._locked"), "C12.fifo",
            why="a newcomer overtakes queued waiters"),
    Variant("fairlock-no-forward", _FL + ".acquire", lambda fn: delete_stmt(fn, stmt_is("if not self._locked")), "C12.fifo",
            why="a cancelled heir swallows the wake-up: every later sender hangs"),
    Variant("async-tcp-send-spawned", _ATCP + ".send_packet",
            lambda fn: insert_after(fn, stmt_has("endpoint = await self.__ensure_connected()"), "self.__backend.create_task_group().start_soon(endpoint.send_packet, packet)"),
            "C12.order"),
]

MUTANTS.append(Variant("lock-with-timeout-push-before-acquire", "lowlevel._utils:lock_with_timeout",
                       lambda fn: (delete_stmt(fn, stmt_is("stack.push(lock)"), 1), insert_before(fn, stmt_is("with ElapsedTime() as elapsed"), "stack.push(lock)")), "C12.span",
                       why="a timed-out acquire releases the lock held by another thread"))

BENIGN = [
    Variant("async-tcp-rename-endpoint-local", _ATCP + ".send_packet", lambda fn: rename_local(fn, "endpoint", "ep"), why="local renamed"),
    Variant("async-tcp-lock-via-exitstack", _ATCP + ".send_eof",
            lambda fn: replace_stmt(fn, stmt_is("async with self.__send_lock"),
                                    "async with contextlib.AsyncExitStack() as stack:\n    await stack.enter_async_context(self.__send_lock)\n    if self.__endpoint is not None:\n        await self.__endpoint.send_eof()"),
            why="the lock is held through an exit stack"),
    Variant("tls-send-all-extra-local", _TLS + ".send_all", lambda fn: insert_before(fn, stmt_has("self._data_deque.append"), "view = memoryview(data)"),
            why="unrelated local introduced before the queueing"),
]


MUTANTS += [
    Variant("server-client-closing-flag-set-before-the-lock-wait", "servers.async_tcp:_ConnectedClientAPI.aclose",
            lambda fn: (fn.body.insert(0, ast.parse("self.__closing = True").body[0]),
                        [blk.remove(st) for n_ in ast.walk(fn) for blk in [getattr(n_, "body", None)] if isinstance(blk, list) and n_ is not fn for st in list(blk) if isinstance(st, ast.Assign) and "__closing" in ast.unparse(st)]),
            "C12.held", why="senders already queued on the fair lock fail with ClientClosedError (seed C12-8)"),
]
