"""C02 - parsing depends only on the bytes; a bad frame costs exactly one error (DESIGN.md section 3, C02)."""
from __future__ import annotations

import ast

from sa.analyses.buffers import BoundedRead, assignments, deps, linear
from sa.db import AnalysisError, ClassInfo, FunctionInfo, dotted, mangle, norm_stmt, own_nodes

CLAIM = {
    "text": "Decides two structural necessities of chunking-independent parsing: (i) every generator that parses a pre-allocated, partially filled receive buffer (all buffered_incremental_deserialize implementations and the scanners / wrappers they delegate to) reads that buffer - slices, searches, hand-overs to callees - only up to a received-length variable (a value sent into the generator, a bounded search result, or a linear combination of those), so bytes that were never received cannot influence the result; (ii) the un-parsed remainder attached to a parse error survives every translation layer: each handler that converts an IncrementalDeserializeError / PacketConversionError / DeserializeError into the next layer's error passes on exc.remaining_data (or the frame's own remainder), and both consumers store it as the new buffer; plus the shape of LimitOverrunError's remainder computation (drop bytes one at a time until the rest is a *prefix* of the separator). Also decided (one error per bad frame, the stream stays usable): no input-dependent exception class but the parse-error family escapes any deserialisation entry point, protocol builder or consumer (escape analysis shared with C06), and no finished / dead parser generator stays parked in a consumer after a parse error (typestate shared with C10). The saved-remainder counter is consumed once, the JSON end-of-frame test covers negative counts, and in the asyncio protocol's copy-out paths the raw receive buffer is read only as `[:level]` and bytes are conserved (level_after + handed == level_before, decided over linear forms). Round 4: every frame taken from the stream reader in a serializer's incremental generator reaches the decoder (or a return / raise) before the next frame is read - an empty frame is still a frame; the escape-run test of the JSON framer (C01.esc) and the buffer-size / limit agreement of the buffered path (C07.fixed) are decided here too. Round 5: the limit test of the JSON splitter (C07.early) and the hold typestate of the server-side request receivers (C15) are decided here as well. Round 6: every StreamProtocolParseError built for an incremental deserialization error (LimitOverrunError included) carries exc.remaining_data; strip-family calls on the separator are flagged on both receive paths. Round 7: the frame bounds returned by the shared separator scanner are used unchanged by the buffered deserializers (no skipping of 'superfluous' separators).",
    "note": "Trusted: Python slicing/search semantics. Not decided: frame-by-frame equality of the two receive paths, 'exactly one error per bad frame' (value level; DESIGN section 5 O1 records that an oversized frame yields several errors on the pinned tree).",
    "technique": "bounded-read data-flow (received-length closure over assignments, linear forms), exception-payload flow checks, shape facts - all over the ast program database",
}
NOT_DECIDED = ["equality of the packet/error sequences of the two receive paths for all chunkings", "exactly one error per malformed frame (value level, see DESIGN section 5 O1)"]


def _stmt_of(fn, node):
    best = None
    for n in own_nodes(fn.node):
        if isinstance(n, ast.stmt) and n.lineno <= node.lineno <= getattr(n, "end_lineno", n.lineno):
            if best is None or (n.lineno >= best.lineno and not isinstance(n, (ast.Try, ast.With, ast.For, ast.If, ast.While))):
                best = n
    return best or fn.node


def buffered_generators(eng):
    """(function, buffer parameter) for every buffered deserializer generator and the repo generators it hands its buffer to"""
    db = eng.db
    out = []
    seen = set()
    root = db.cls("serializers.abc.BufferedIncrementalPacketSerializer")
    todo = []
    for ci in [root] + root.all_subclasses():
        f = ci.methods.get("buffered_incremental_deserialize")
        if f is not None and f.is_generator:
            todo.append((f, f.params()[1].arg))
    p = db.cls("protocol.BufferedStreamProtocol").methods.get("build_packet_from_buffer")
    if p is not None:
        todo.append((p, p.params()[1].arg))
    while todo:
        f, b = todo.pop()
        if (f.qualname, b) in seen:
            continue
        seen.add((f.qualname, b))
        out.append((f, b))
        for n in own_nodes(f.node):
            if isinstance(n, ast.Call):
                for i, a in enumerate(n.args):
                    if isinstance(a, ast.Name) and a.id == b:
                        for t in eng.typer.call_targets(f, n, dispatch=False):
                            if isinstance(t, FunctionInfo) and t.is_generator and not isinstance(t.node, ast.Lambda):
                                ps = [x.arg for x in t.node.args.posonlyargs + t.node.args.args]
                                if t.cls is not None and t.parent is None and not t.has_decorator("staticmethod"):
                                    ps = ps[1:]
                                if i < len(ps):
                                    todo.append((t, ps[i]))
    return out


def check_bound(eng, run):
    gens = buffered_generators(eng)
    run.floor("C02.bound buffered parser generators", len(gens), 6)
    callee_names = {f.name for f, _ in gens} | {"buffered_incremental_deserialize", "send"}
    n_sites = 0
    for fn, b in gens:
        br = BoundedRead(eng, fn, b, callee_names)
        bad = br.check()
        n_sites += len(br.sites)
        seen = set()
        for node, msg in bad:
            st = _stmt_of(fn, node)
            if norm_stmt(st) in seen:
                continue
            seen.add(norm_stmt(st))
            run.finding("C02.bound", fn, st, msg)
        run.ob("C02.bound", f"{fn.short}({b})", not bad, read_sites=len(br.sites), received_length_vars=sorted(br.N), bounded=sorted(br.bounded))
    run.floor("C02.bound read sites", n_sites, 8)


def check_keep(eng, run):
    """error payload flow through the translation layers"""
    db = eng.db
    n = 0
    sites = []
    for q in ("protocol:StreamProtocol.build_packet_from_chunks", "protocol:BufferedStreamProtocol.build_packet_from_buffer"):
        fn = db.fn(q)
        for t in [x for x in own_nodes(fn.node) if isinstance(x, ast.Try)]:
            for h in t.handlers:
                ty = ast.unparse(h.type) if h.type is not None else ""
                if ty in ("IncrementalDeserializeError", "PacketConversionError"):
                    r = next((x for x in h.body if isinstance(x, ast.Raise) and isinstance(x.exc, ast.Call)), None)
                    n += 1
                    ok = r is not None and "StreamProtocolParseError" in ast.unparse(r.exc.func) and r.exc.args
                    if ok:
                        a0 = r.exc.args[0]
                        if ty == "IncrementalDeserializeError":
                            ok = isinstance(a0, ast.Attribute) and a0.attr == "remaining_data" and isinstance(a0.value, ast.Name) and a0.value.id == h.name
                        else:
                            # the remainder of the *same* frame (second component of the delegated generator's result)
                            d = deps(fn, a0)
                            ok = isinstance(a0, ast.Name) and "<yield>" in d
                    if not ok:
                        run.finding("C02.keep", fn, r or h.body[0], f"the `except {ty}` arm does not pass the un-parsed remainder on to StreamProtocolParseError: after one bad frame the bytes of the following frames are lost")
                    run.ob("C02.keep", f"{fn.short}:except {ty}", ok)
    # DeserializeError -> IncrementalDeserializeError wrappers in the serializers keep the frame's remainder
    root = db.cls("serializers.abc.AbstractIncrementalPacketSerializer")
    for ci in [root] + root.all_subclasses():
        for mname, fn in ci.methods.items():
            if not fn.is_generator or isinstance(fn.node, ast.Lambda):
                continue
            for t in [x for x in own_nodes(fn.node) if isinstance(x, ast.Try)]:
                for h in t.handlers:
                    if h.type is not None and ast.unparse(h.type) == "DeserializeError":
                        for r in [x for x in ast.walk(h) if isinstance(x, ast.Raise) and isinstance(x.exc, ast.Call) and "IncrementalDeserializeError" in ast.unparse(x.exc.func)]:
                            n += 1
                            arg = next((k.value for k in r.exc.keywords if k.arg == "remaining_data"), r.exc.args[1] if len(r.exc.args) > 1 else None)
                            ok = arg is not None and not isinstance(arg, ast.Constant) and bool(deps(fn, arg) & ({"<yield>"} | {a.arg for a in fn.params()}) or any("read" in ast.unparse(v) or "unused_data" in ast.unparse(v) for nm in deps(fn, arg) for v in assignments(fn).get(nm, [])))
                            if not ok:
                                run.finding("C02.keep", fn, r, "the IncrementalDeserializeError raised for a malformed frame does not carry that frame's remainder: later frames are lost or re-parsed from the wrong offset")
                            run.ob("C02.keep", f"{ci.name}.{mname}:DeserializeError->Incremental@+{r.lineno - fn.lineno}", ok)
    # consumers store exc.remaining_data
    for cname in ("StreamDataConsumer", "BufferedStreamDataConsumer"):
        fn = db.cls(f"lowlevel._stream.{cname}").methods["next"]
        for t in [x for x in own_nodes(fn.node) if isinstance(x, ast.Try)]:
            for h in t.handlers:
                if h.type is not None and ast.unparse(h.type) == "StreamProtocolParseError":
                    n += 1
                    stores = [x for x in h.body if (isinstance(x, ast.Assign) or isinstance(x, ast.Expr)) and f"{h.name}.remaining_data" in ast.unparse(x)]
                    ok = bool(stores) and isinstance(h.body[-1], ast.Raise) and h.body.index(stores[0]) < len(h.body) - 1
                    if not ok:
                        run.finding("C02.keep", fn, h.body[0], "the consumer re-raises a parse error without first storing exc.remaining_data as its new buffer: every frame after a malformed one is lost")
                    run.ob("C02.keep", f"{fn.short}:stores-remainder-on-parse-error", ok)
    run.floor("C02.keep sites", n, 10)


def check_lim(eng, run):
    from sa.norm import nodes_inl
    fn = eng.db.fn("exceptions:LimitOverrunError.__init__")
    nodes = list(nodes_inl(fn))  # the constructor and the private helpers it delegates to
    loops = [(n, o) for n, o in nodes if isinstance(n, ast.While)]

    def seps_of(owner):
        """names that hold the separator in `owner`: a parameter whose len() is taken / that is sliced in a comparison"""
        ps = {a.arg for a in owner.params()}
        out = {dotted(c.args[0]) for c in own_nodes(owner.node) if isinstance(c, ast.Call) and getattr(c.func, "id", "") == "len" and c.args and dotted(c.args[0]) in ps}
        return out or ({"separator"} & ps)

    ok_loop = False
    for w, owner in loops:
        seps = seps_of(owner)
        # stop when the rest starts with a *prefix* of the separator of the remaining length
        prefix_cmp = any(isinstance(c, ast.Compare) and any(isinstance(x, ast.Subscript) and isinstance(x.slice, ast.Slice) and x.slice.upper is not None and "nbytes" in ast.unparse(x.slice.upper)
                                                            and dotted(x.value) in seps for x in ast.walk(c)) for c in ast.walk(w.test))
        one_byte = any(isinstance(s_, ast.Assign) and isinstance(s_.value, ast.Subscript) and isinstance(s_.value.slice, ast.Slice) and isinstance(s_.value.slice.lower, ast.Constant) and s_.value.slice.lower.value == 1
                       and s_.value.slice.upper is None for s_ in w.body)
        ok_loop = ok_loop or (prefix_cmp and one_byte)
    if not ok_loop:
        run.finding("C02.lim", fn, loops[0][0] if loops and loops[0][1] is fn else fn.node, "LimitOverrunError no longer drops bytes one at a time until the rest is a *prefix* of the separator: a half-received separator does not survive an overrun (the next frame is delivered corrupted) or the tail of the oversized frame is kept")
    run.ob("C02.lim", f"{fn.short}:skip-to-separator-prefix", ok_loop, through_helpers=sorted({o.short for _, o in nodes if o is not fn}))
    # fast path removes exactly seplen; the remainder starts at `consumed`
    fast = False
    for n, owner in nodes:
        if isinstance(n, ast.If) and isinstance(n.test, ast.Compare) and any(dotted(x) in seps_of(owner) for x in ast.walk(n.test)):
            seplens = {k for k, vs in assignments(owner).items() for v in vs if isinstance(v, ast.Call) and getattr(v.func, "id", "") == "len" and v.args and dotted(v.args[0]) in seps_of(owner)}
            for s_ in n.body:
                v = s_.value if isinstance(s_, (ast.Assign, ast.Return)) else None
                if isinstance(v, ast.Call) and getattr(v.func, "id", "") in ("bytes", "memoryview") and len(v.args) == 1:
                    v = v.args[0]  # `return bytes(rest[seplen:])`
                if isinstance(v, ast.Subscript) and isinstance(v.slice, ast.Slice) and dotted(v.slice.lower) in seplens and v.slice.upper is None:
                    fast = True
    consumed = next((a.arg for a in fn.params() if "consumed" in a.arg), "consumed")
    def consumed_in(o):  # the name that holds `consumed` in owner o: the constructor's parameter, or the helper's parameter bound to it
        if o is fn:
            return consumed
        for c, oc in nodes:
            if isinstance(c, ast.Call) and oc is fn and (dotted(c.func) or "").split(".")[-1] == o.name:
                ps = [a.arg for a in o.params()]
                for i, a in enumerate(c.args):
                    if dotted(a) == consumed and i < len(ps):
                        return ps[i]
                for k in c.keywords:
                    if dotted(k.value) == consumed:
                        return k.arg
        return None

    start = any(isinstance(n, ast.Subscript) and isinstance(n.slice, ast.Slice) and n.slice.lower is not None and dotted(n.slice.lower) == consumed_in(o) and n.slice.upper is None for n, o in nodes)
    if not (fast and start):
        run.finding("C02.lim", fn, fn.node, "LimitOverrunError no longer computes its remainder as buffer[consumed:] minus exactly one leading separator")
    run.ob("C02.lim", f"{fn.short}:remainder-from-consumed", fast and start)


def check_one_error(eng, run):
    """'a malformed frame yields exactly one parse error ... and every later frame is still delivered': (a) nothing input-dependent
    but the parse-error family escapes any deserialisation entry point, protocol builder or stream consumer (escape analysis of
    C06 - a foreign exception makes the consumer report RuntimeError('crashed') and drops the rest of the stream), and (b) after a
    parse error no finished / dead parser generator stays parked in a consumer (typestate of C10.parser)."""
    from rules import c06, c10
    from sa.analyses.escape import EscapeSummaries
    from sa.report import RuleAlias
    c06.check_escape(eng, RuleAlias(run, "C02.err"), EscapeSummaries(eng))
    c10.check_parser(eng, run, rule="C02.err", dead_only=True)


READER_TAKES = ("read_until", "read_exactly", "read", "readline")


def check_frames_decoded(eng, run):
    """every frame taken from the stream reader in a serializer's incremental generator reaches a use (decoder call, return,
    raise) before the variable is bound to the next frame and before the generator returns: a frame that is read and then
    skipped (an 'empty token' tolerance, a retry loop) costs no error on this path while the sibling path reports one - and an
    empty frame is still a frame, so an emptiness test does not release it."""
    from sa.analyses.base import RuleAnalysis
    from sa.flow import Interp

    def take(st):
        """`v = yield from <reader>.read_*(...)` -> v"""
        if isinstance(st, (ast.Assign, ast.AnnAssign)) and isinstance(st.value, ast.YieldFrom) and isinstance(st.value.value, ast.Call) \
                and isinstance(st.value.value.func, ast.Attribute) and st.value.value.func.attr in READER_TAKES:
            tg = st.targets if isinstance(st, ast.Assign) else [st.target]
            if len(tg) == 1 and isinstance(tg[0], ast.Name):
                return tg[0].id
        return None

    class Frames(RuleAnalysis):
        tokens = ("Exception",)

        def __init__(self, e):
            super().__init__(e)
            self.viol = []
            self.takes = 0

        def initial(self, f):
            return [frozenset()]

        def may_raise(self, node, fact):
            return ["Exception"] if isinstance(node, (ast.Call, ast.YieldFrom, ast.Yield, ast.Raise)) else []

        def raise_fact(self, node, fact, token):
            return [frozenset()]  # an error exit carries its own payload rules (C02.keep); only the skipped frame is decided here

        def _uses(self, node, v):
            for x in ast.walk(node):
                if isinstance(x, ast.Name) and x.id == v and isinstance(x.ctx, ast.Load):
                    return True
            return False

        def transfer(self, node, fact):
            held = fact
            v = take(node)
            if v is not None:
                self.takes += 1
                if v in held and not any(n is node for n in self.viol):
                    self.viol.append(node)
                return [held | {v}]
            if isinstance(node, ast.Call):
                nm = node.func.attr if isinstance(node.func, ast.Attribute) else getattr(node.func, "id", "")
                if nm not in ("len", "bool", "isinstance"):
                    rel = {h for h in held if any(self._uses(a, h) for a in list(node.args) + [k.value for k in node.keywords])}
                    if isinstance(node.func, ast.Attribute) and isinstance(node.func.value, ast.Name) and node.func.value.id in held:
                        rel.add(node.func.value.id)  # data.decode(...), data.removesuffix(...)
                    held = held - rel
            elif isinstance(node, (ast.Return, ast.Raise, ast.Yield)):
                held = held - {h for h in held if self._uses(node, h)}
            elif isinstance(node, (ast.Assign, ast.AnnAssign, ast.AugAssign)) and node.value is not None and not isinstance(node.value, (ast.YieldFrom, ast.Yield)):
                # the frame flows into another variable / a container: followed no further, counts as used
                held = held - {h for h in held if self._uses(node.value, h)}
            return [held]

    n = 0
    for fn in eng.db.all_functions():
        if isinstance(fn.node, ast.Lambda) or ".serializers." not in "." + fn.module.name + ".":
            continue
        if not any(take(st) for st in own_nodes(fn.node)):
            continue
        n += 1
        an = Frames(eng)
        out = Interp(an, fn).run()
        dropped = [(f, tr) for f, tr in out.ret.items() if f]
        for v in an.viol[:1]:
            run.finding("C02.keep", fn, v, f"`{take(v)}` is bound to the next frame while the previous one has not been handed to the decoder: a frame (e.g. an empty one) is skipped without a parse error on this receive path only")
        for f, tr in dropped[:1]:
            if not an.viol:
                run.finding("C02.keep", fn, _stmt_line(fn, tr[-1]) if tr else fn.node, f"the generator returns while the frame in `{sorted(f)[0]}` was never decoded or reported")
        run.ob("C02.keep", f"{fn.short}:every-frame-reaches-the-decoder", not an.viol and not dropped, takes=an.takes)
    run.floor("C02.keep serializer generators reading frames", n, 4)


def _stmt_line(fn, line):
    best = None
    for x in own_nodes(fn.node):
        if isinstance(x, ast.stmt) and getattr(x, "lineno", -1) == line:
            best = x
    return best if best is not None else fn.node


def check_parse_error_carries_remainder(eng, run):
    """the protocol layer hands the serializer's remainder on unchanged: every StreamProtocolParseError built in a handler of an
    IncrementalDeserializeError (or a subclass: LimitOverrunError) carries `<exc>.remaining_data`, and one built after the packet
    was decoded carries the variable the decoder's remainder was bound to.  A handler that substitutes b"" (or anything else) drops
    the bytes behind the rejected frame on this path only - the two receive paths then disagree on the next frames."""
    n = 0
    for fn in eng.db.all_functions():
        if isinstance(fn.node, ast.Lambda) or not fn.module.name.startswith("easynetwork.protocol"):
            continue
        for t in [x for x in own_nodes(fn.node) if isinstance(x, ast.Try)]:
            for h in t.handlers:
                names = eng.lattice.handler_classes(fn, h.type) if h.type is not None else []
                for r in [x for b in h.body for x in ast.walk(b) if isinstance(x, ast.Raise) and isinstance(x.exc, ast.Call) and "StreamProtocolParseError" in ast.unparse(x.exc.func)]:
                    first = r.exc.args[0] if r.exc.args else None
                    incremental = any(nm.split(".")[-1] in ("IncrementalDeserializeError", "LimitOverrunError") for nm in (names or []))
                    if incremental:
                        n += 1
                        ok = h.name is not None and isinstance(first, ast.Attribute) and first.attr == "remaining_data" and isinstance(first.value, ast.Name) and first.value.id == h.name
                        if not ok:
                            run.finding("C02.keep", fn, r, f"the parse error built for `{ast.unparse(h.type)}` carries `{ast.unparse(first) if first is not None else 'nothing'}` instead of "
                                        f"`{h.name or 'exc'}.remaining_data`: the bytes that follow the rejected frame are dropped on this receive path only")
                        run.ob("C02.keep", f"{fn.short}:{ast.unparse(h.type)}:remainder-handed-on", ok)
    run.floor("C02.keep protocol handlers of incremental deserialization errors", n, 2)


def check_scanner_result_unchanged(eng, run):
    """the buffered path takes the frame bounds from the shared separator scanner as they are: the names bound from
    `yield from _buffered_readuntil(...)` (separator index, offset of the next frame, received length) are not re-bound or advanced
    afterwards.  Skipping 'superfluous' separators that happen to be in the buffer already makes empty frames vanish on this path
    only, and only for some chunkings."""
    n = 0
    for fn in eng.db.all_functions():
        if isinstance(fn.node, ast.Lambda) or fn.name != "buffered_incremental_deserialize" or not fn.module.name.startswith("easynetwork.serializers"):
            continue
        for st in own_nodes(fn.node):
            if isinstance(st, (ast.Assign, ast.AnnAssign)) and isinstance(getattr(st, "value", None), ast.YieldFrom) and isinstance(st.value.value, ast.Call) \
                    and (dotted(st.value.value.func) or "").split(".")[-1] == "_buffered_readuntil":
                tg = st.targets[0] if isinstance(st, ast.Assign) else st.target
                names = {x.id for x in (tg.elts if isinstance(tg, ast.Tuple) else [tg]) if isinstance(x, ast.Name)}
                n += 1
                rebinds = [x for x in own_nodes(fn.node) if x is not st and isinstance(x, (ast.Assign, ast.AugAssign, ast.AnnAssign, ast.NamedExpr))
                           and any(isinstance(t, ast.Name) and t.id in names for t in (x.targets if isinstance(x, ast.Assign) else [x.target])) and x.lineno > st.lineno]
                for x in rebinds[:1]:
                    run.finding("C02.scan", fn, x, f"`{ast.unparse(x)[:60]}` moves a frame bound that the shared separator scanner has computed: the buffered path then cuts the stream at other places "
                                "than the non-buffered one (frames dropped or merged depending on what is already in the buffer)")
                run.ob("C02.scan", f"{fn.short}:scanner-result-used-unchanged", not rebinds, bound=sorted(names))
    run.floor("C02.scan buffered deserializers built on the shared scanner", n, 2)


def run(eng, run):
    from sa.anchors import verify as _verify_anchor_names
    _verify_anchor_names(eng, run)
    run.not_decided += NOT_DECIDED
    run.attempt(check_frames_decoded, eng, run)
    run.attempt(check_scanner_result_unchanged, eng, run)
    run.attempt(check_parse_error_carries_remainder, eng, run)
    run.attempt(check_bound, eng, run)
    run.attempt(check_keep, eng, run)
    run.attempt(check_lim, eng, run)
    run.attempt(check_one_error, eng, run)
    from rules import c01, c10
    run.attempt(c01.check_consume_once, eng, run, rule="C02.keep")
    from sa.report import RuleAlias
    run.attempt(c01.check_scan, eng, RuleAlias(run, "C02.scan"))  # 'two independent separator scanners must agree' (shape facts of C01.scan)
    run.attempt(c01.check_json_close, eng, run, rule="C02.err")
    run.attempt(c01.check_esc, eng, RuleAlias(run, "C02.scan"))  # a mis-read escape ends a string early: a valid frame becomes an error and the next ones are swallowed
    from rules import c07
    run.attempt(c07.check_early, eng, RuleAlias(run, "C02.lim"))  # what is measured against the limit is the frame, not whatever is buffered behind it
    from rules import c15 as _c15
    run.attempt(_c15.check_receivers, eng, RuleAlias(run, "C02.keep"))  # a request parsed out of buffered data is not lost to a timeout on one path only
    run.attempt(c07.check_fixed, eng, RuleAlias(run, "C02.lim"))  # the buffered path's limit is the buffer's length: both paths must enforce the configured one
    run.attempt(c10.check_conservation, eng, run, rule="C02.bound")
    run.attempt(c10.check_raw_buffer_reads, eng, run, rule="C02.bound")
    from rules import c05 as _c05s
    run.attempt(_c05s.check_sep, eng, RuleAlias(run, "C02.scan"))  # a strip-family call eats payload bytes on the path that uses it only
    run.end_of_rules()


# ---------------------------------------------------------------------------------------------- self-test corpus
from sa.mutate import (Variant, delete_stmt, find_handler, find_stmt, insert_after, insert_before, rename_local, replace_expr,  # noqa: E402
                       replace_stmt, stmt_has, stmt_is)

_BRU = "serializers.base_stream:_buffered_readuntil"
_AUTO = "serializers.base_stream:AutoSeparatedPacketSerializer.buffered_incremental_deserialize"
_LINE = "serializers.line:StringLineSerializer.buffered_incremental_deserialize"
_FIX = "serializers.base_stream:FixedSizePacketSerializer.buffered_incremental_deserialize"
_PROTO = "protocol:StreamProtocol.build_packet_from_chunks"
_BPROTO = "protocol:BufferedStreamProtocol.build_packet_from_buffer"
_CONS = "lowlevel._stream:StreamDataConsumer.next"
_LIM = "exceptions:LimitOverrunError.__init__"

MUTANTS = [
    Variant("limit-error-gets-whole-buffer", _BRU, lambda fn: replace_expr(fn, "memoryview(buffer)[:buflen]", "buffer"), "C02.bound",
            why="regression of the F1 fix: stale bytes shape the remainder after an oversized frame"),
    Variant("scanner-find-unbounded", _BRU, lambda fn: replace_expr(fn, "buffer.find(separator, offset, buflen)", "buffer.find(separator, offset)"), "C02.bound",
            why="a separator left in the buffer by an earlier frame is matched"),
    Variant("auto-remainder-open-ended", _AUTO, lambda fn: replace_expr(fn, "buffer_view[offset:buflen]", "buffer_view[offset:]"), "C02.bound"),
    Variant("line-data-whole-view", _LINE, lambda fn: replace_expr(fn, "buffer_view[:offset] if self.__keep_end else buffer_view[:sepidx]", "buffer_view[:]"), "C02.bound"),
    Variant("fixed-remainder-open-ended", _FIX, lambda fn: replace_expr(fn, "buffer[packet_size:nread]", "buffer[packet_size:]"), "C02.bound"),
    Variant("protocol-drops-remainder", _PROTO, lambda fn: replace_expr(fn, "StreamProtocolParseError(exc.remaining_data, exc)", "StreamProtocolParseError(b'', exc)"), "C02.keep",
            why="frames following a malformed one are lost"),
    Variant("buffered-protocol-conversion-error-loses-remainder", _BPROTO, lambda fn: replace_expr(fn, "StreamProtocolParseError(remaining_data, exc)", "StreamProtocolParseError(b'', exc)"), "C02.keep"),
    Variant("consumer-does-not-store-remainder", _CONS, lambda fn: delete_stmt(find_handler(fn, "StreamProtocolParseError"), stmt_has("exc.remaining_data")), "C02.keep"),
    Variant("limit-error-full-separator-compare", _LIM, lambda fn: replace_expr(fn, "separator[:remaining_data.nbytes]", "separator"), "C02.lim",
            why="a half-received separator no longer survives the overrun"),
]

BENIGN = [
    Variant("scanner-rename-buflen", _BRU, lambda fn: rename_local(fn, "buflen", "received"), why="local renamed"),
    Variant("limit-error-copy-instead-of-view", _BRU, lambda fn: replace_expr(fn, "memoryview(buffer)[:buflen]", "bytes(memoryview(buffer)[:buflen])"), why="a copy of the received part instead of a view"),
    Variant("auto-rename-view", _AUTO, lambda fn: rename_local(fn, "buffer_view", "view"), why="local renamed"),
]


MUTANTS += [
    Variant("json-incremental-recursion-unmapped", "serializers.json:JSONSerializer.incremental_deserialize",
            lambda fn: [setattr(h, "type", ast.parse("ValueError", mode="eval").body) for t in ast.walk(fn) if isinstance(t, ast.Try) for h in t.handlers
                        if h.type is not None and "RecursionError" in ast.unparse(h.type)],
            "C02.err", why="a frame within the limit but nested too deep crashes the consumer: later frames are lost (seed C02-5)"),
    Variant("consumer-keeps-dead-parser-after-parse-error", "lowlevel._stream:StreamDataConsumer.next",
            lambda fn: (delete_stmt(fn, stmt_is("self.__consumer = None")),
                        [h.body.insert(0, ast.parse("self.__consumer = None").body[0]) for t in ast.walk(fn) if isinstance(t, ast.Try) and any("consumer.send" in ast.unparse(b) for b in t.body)
                         for h in t.handlers if h.type is not None and ast.unparse(h.type) in ("StopIteration", "Exception")]),
            "C02.err", why="a malformed frame split over two reads wedges the consumer (seed C02-4)"),
]
