"""C08 - TLS transport is a transparent, encrypted byte stream (DESIGN.md section 3, C08)."""
from __future__ import annotations

import ast

from sa.analyses.base import RuleAnalysis
from sa.analyses.buffers import through_local
from sa.analyses.locks import LockHeld, held_names
from sa.db import AnalysisError, ClassInfo, FunctionInfo, dotted, mangle, norm_stmt, own_nodes
from sa.exc import CANCELLED
from sa.flow import FnExit, Interp, TestAtom, WithEnter, call_of

CLAIM = {
    "text": "Decides plaintext confinement, flush ordering and lock separation of the TLS transports: in AsyncTLSStreamTransport the only value that ever reaches the wrapped transport's send_all / send_all_from_iterable is the whole content of the outgoing BIO (`self._write_bio.read()` with no size bound, in the same expression), the plaintext parameters and the plaintext backlog flow only into the SSL object's write, bytes read from the wrapped transport flow only into the incoming BIO, and results handed to the caller come from the SSL object; in the retry loop pending ciphertext is flushed (under nothing but `_write_bio.pending`) before the transport is read on WANT_READ, unconditionally on WANT_WRITE, and before a successful result is returned; the send and receive directions are guarded by two distinct fair locks that are never held together (a parked reader cannot block writers); on OSError / SSLError both BIOs are marked EOF before the error propagates; the blocking SSLStreamTransport never touches the raw socket after wrapping it. (drain) every send entry point that queues plaintext reaches, on every normal path to its return, the retry call that applies the write-all helper to the backlog itself, and the write-all loop can only end on an empty backlog (no break/return, the head is replaced by its unsent suffix or removed). A 0-byte read marks the incoming BIO EOF; a chunk leaves the plaintext backlog only after SSLObject.write() accepted it; on the wrapped asyncio transport the lent read buffer is withdrawn on every exit and by the delivery callback, and every record handed to transport.write() is followed - not preceded - by the awaited drain. Round 4 (C08.recv): the byte buffers of the TLS transport and of the asyncio stream protocol are allocated per instance (no memoised factory, module-level object or mutable default); the pause/resume pairing and read water marks of the asyncio stream protocol under the TLS transport are decided here as well. Round 5: the fair lock under the TLS write lock (C12.fifo); handshake / shutdown timeouts reach the TLS layer uncrossed and unduplicated; a refused send_eof() does not poison later writes (C04.once). Round 6 (finding F10, fixed): on the read paths of _retry_ssl_method (SSLWantReadError arm, after a successful SSL call) the transport send lock is awaited only under a dominating test that the write BIO holds pending output - a reader never waits behind its own side's writer; the whole iterable handed to the blocking TLS transport is written. Round 7: the read BIO is marked as ended only in OSError handlers of blocks that read from the wrapped transport (a failed flush leaves the read direction alone).",
    "note": "Trusted: the ssl module encrypts what goes through SSLObject/MemoryBIO. Not decided: byte transparency of the decrypted stream, liveness under all fragmentations.",
    "technique": "taint (source/sink) queries and reaching-definition shape checks on the ast program database, ordering typestate by abstract interpretation, lock-held analysis",
}
NOT_DECIDED = ["byte-for-byte transparency (below the ssl API)", "deadlock-freedom / liveness over all fragmentations and delays"]

TLS = "lowlevel.api_async.transports.tls.AsyncTLSStreamTransport"


def _stmt_at(fn, line):
    best = None
    for n in own_nodes(fn.node):
        if isinstance(n, ast.stmt) and getattr(n, "lineno", -1) == line:
            if best is None or not isinstance(n, (ast.Try, ast.With, ast.AsyncWith, ast.For, ast.If, ast.While)):
                best = n
    return best if best is not None else fn.node


def _cname(c):
    return (c.func.attr if isinstance(c.func, ast.Attribute) else getattr(c.func, "id", "")) if c is not None else ""


def _wire_calls(fn):
    return [n for n in ast.walk(fn.node) if isinstance(n, ast.Call) and _cname(n) in ("send_all", "send_all_from_iterable", "send") and (dotted(n.func.value) or "").endswith("._transport")]


def check_conf(eng, run):
    tls = eng.db.cls(TLS)
    n_sinks = 0
    for fn in tls.methods.values():
        if isinstance(fn.node, ast.Lambda):
            continue
        for c in _wire_calls(fn):
            n_sinks += 1
            a = c.args[0] if c.args else None
            whole = isinstance(a, ast.Call) and _cname(a) == "read" and (dotted(a.func.value) or "").endswith("_write_bio") and not a.args and not a.keywords
            bounded = isinstance(a, ast.Call) and _cname(a) == "read" and (dotted(a.func.value) or "").endswith("_write_bio") and (a.args or a.keywords)
            if bounded:
                # a bounded read is only complete inside a `while <bio>.pending` loop
                in_loop = any(isinstance(w, ast.While) and "pending" in ast.unparse(w.test) and any(c in list(ast.walk(s)) for s in w.body) for w in own_nodes(fn.node))
                if not in_loop:
                    run.finding("C08.conf", fn, _stmt_at(fn, c.lineno), "only a bounded part of the outgoing BIO is sent and nothing loops until it is empty: the tail of a large write stays in memory after send_all() returned and the peer waits for ever")
                    run.ob("C08.conf", f"{fn.short}:wire-write@+{c.lineno - fn.lineno}", False)
                    continue
                whole = True
            if not whole:
                run.finding("C08.conf", fn, _stmt_at(fn, c.lineno), f"`{ast.unparse(a) if a is not None else ''}` reaches the wrapped transport: only the content of the outgoing BIO (ciphertext) may - application bytes would be sent unencrypted")
            run.ob("C08.conf", f"{fn.short}:wire-write@+{c.lineno - fn.lineno}", whole)
    run.floor("C08.conf wire writes", n_sinks, 2)
    # plaintext parameters flow only into the backlog / the SSL object
    for name in ("send_all", "send_all_from_iterable"):
        fn = tls.methods[name]
        p = fn.params()[1].arg
        bad = []
        for n in own_nodes(fn.node):
            if isinstance(n, ast.Call) and any(isinstance(x, ast.Name) and x.id == p for a in list(n.args) + [k.value for k in n.keywords] for x in ast.walk(a)):
                nm = _cname(n)
                recv = dotted(n.func.value) if isinstance(n.func, ast.Attribute) else ""
                ok = nm in ("memoryview", "map", "append", "extend", "len", "bytes") or (recv or "").endswith("_data_deque")
                if not ok:
                    bad.append(n)
        for b in bad:
            run.finding("C08.conf", fn, _stmt_at(fn, b.lineno), f"the plaintext parameter `{p}` flows into `{ast.unparse(b.func)}` instead of the plaintext backlog of the SSL object")
        run.ob("C08.conf", f"{fn.short}:plaintext-only-to-backlog", not bad)
    # backlog consumed only by ssl_object.write
    w = tls.methods.get("__write_all_to_ssl_object")
    if w is None:
        raise AnalysisError("anchor vanished: __write_all_to_ssl_object")
    calls = [n for n in own_nodes(w.node) if isinstance(n, ast.Call) and isinstance(n.func, ast.Attribute) and _cname(n) not in ("cast", "popleft", "appendleft", "append") and not isinstance(n.func.value, ast.Constant)]
    ok = all(_cname(c) == "write" and dotted(c.func.value) == w.params()[0].arg for c in calls) and bool(calls)
    if not ok:
        run.finding("C08.conf", w, w.node, "the plaintext backlog is handed to something other than ssl_object.write()")
    run.ob("C08.conf", f"{w.short}:backlog-only-to-ssl-write", ok)
    # incoming: transport bytes only into the read BIO
    rd = eng.db.cls("lowlevel.api_async.transports.tls._IncomingDataReader").methods.get("readinto")
    if rd is None:
        raise AnalysisError("anchor vanished: _IncomingDataReader.readinto")
    rets = [through_local(rd, n.value) for n in own_nodes(rd.node) if isinstance(n, ast.Return) and n.value is not None]
    ok = all((isinstance(r, ast.Call) and _cname(r) == "write" and dotted(r.func.value) == rd.params()[1].arg) or (isinstance(r, ast.Constant)) for r in rets) and \
        any(isinstance(n, ast.Call) and _cname(n) == "recv_into" for n in ast.walk(rd.node))
    if not ok:
        run.finding("C08.conf", rd, rd.node, "bytes received from the wrapped transport no longer flow (only) into the incoming BIO")
    run.ob("C08.conf", f"{rd.short}:ciphertext-only-to-read-bio", ok)
    # results to the caller come from the SSL object
    for name in ("recv", "recv_into"):
        fn = tls.methods[name]
        rets = [through_local(fn, r.value) for r in own_nodes(fn.node) if isinstance(r, ast.Return) and r.value is not None and not isinstance(r.value, ast.Constant)]
        ok = bool(rets) and all(isinstance(r, ast.Await) and isinstance(r.value, ast.Call) and _cname(r.value) == "_retry_ssl_method" and r.value.args
                                and (dotted(r.value.args[0]) or "").endswith("_ssl_object.read") for r in rets)
        if not ok:
            run.finding("C08.conf", fn, fn.node, "data handed to the caller does not come from ssl_object.read(): ciphertext (or unauthenticated bytes) could be returned")
        run.ob("C08.conf", f"{fn.short}:result-from-ssl-object", ok)
    # blocking transport: the raw socket is not used after wrap_socket
    s = eng.db.fn("lowlevel.api_sync.transports.socket:SSLStreamTransport.__init__")
    raw = s.params()[1].arg
    bad = []
    for fn in s.cls.methods.values():
        for n in own_nodes(fn.node):
            if isinstance(n, ast.Assign) and isinstance(n.value, ast.Name) and n.value.id == raw and fn is s and any(isinstance(t, ast.Attribute) for t in n.targets):
                bad.append((fn, n))
            if isinstance(n, ast.Call) and isinstance(n.func, ast.Attribute) and dotted(n.func.value) == raw and fn is s and _cname(n) in ("send", "recv", "sendall", "recv_into", "sendmsg"):
                bad.append((fn, n))
    for fn, n in bad:
        run.finding("C08.conf", fn, _stmt_at(fn, n.lineno), "the raw (unencrypted) socket is kept / used for I/O after being wrapped")
    run.ob("C08.conf", f"{s.short}:raw-socket-not-used", not bad)


class Flush(RuleAnalysis):
    """fact: frozenset flags: 'flushed' (since the last ssl call outcome), 'armed:<arm>'"""
    tokens = ("ssl.SSLWantReadError", "ssl.SSLWantWriteError", "ssl.SSLError", "OSError", CANCELLED)
    precise_raise_tokens = True
    inline_helpers = True  # a flush block extracted into a private coroutine is read in place

    def __init__(self, engine, method_param):
        super().__init__(engine)
        self.p = method_param
        self.viol = []
        self.flushes = []
        self.reads = 0
        self.returns = 0

    def initial(self, fn):
        return [frozenset()]

    def may_raise(self, node, fact):
        if isinstance(node, ast.Call) and isinstance(node.func, ast.Name) and node.func.id == self.p:
            return ["ssl.SSLWantReadError", "ssl.SSLWantWriteError", "ssl.SSLError", "OSError"]
        if isinstance(node, ast.Await):
            return ["OSError", CANCELLED]
        return []

    def handler_entry(self, handler, token, fact):
        return [frozenset({f"h:{token}"})]

    def transfer(self, node, fact):
        c = call_of(node)
        if isinstance(node, ast.Call) and isinstance(node.func, ast.Name) and node.func.id == self.p:
            return [frozenset()]  # a new ssl call: whatever was flushed before does not count
        if isinstance(node, TestAtom) and "_write_bio.pending" in ast.unparse(node.test):
            from sa.norm import strip_not
            cj = [ast.unparse(strip_not(v)[0]) for v in node.test.values] if isinstance(node.test, ast.BoolOp) else [ast.unparse(strip_not(node.test)[0])]  # `if not pending: return` is the same test
            extra = [x for x in cj if x != "self._write_bio.pending"]
            if extra:
                self.viol.append((node.test, f"the flush of pending ciphertext is skipped under an extra condition {extra}: records produced meanwhile stay in memory and the peer waits for ever"))
            return [fact | {"flushed"}]
        if isinstance(node, ast.Await) and c is not None and _cname(c) in ("send_all",) and "_write_bio.read" in ast.unparse(c):
            self.flushes.append(node)
            return [fact | {"flushed"}]
        if isinstance(node, ast.Await) and c is not None and _cname(c) == "readinto":
            self.reads += 1
            if "flushed" not in fact:
                self.viol.append((node, "the transport is read (WANT_READ) without first flushing pending ciphertext: a handshake flight / our request stays in memory while we wait for the peer's answer - deadlock"))
        if isinstance(node, ast.Return) and node.value is not None:
            self.returns += 1
            if "flushed" not in fact:
                self.viol.append((node, "a successful SSL operation returns without flushing the ciphertext it produced: send_all() returns although nothing reached the wrapped transport"))
        return [fact]


def check_flush(eng, run):
    tls = eng.db.cls(TLS)
    fn = tls.methods["_retry_ssl_method"]
    an = Flush(eng, fn.params()[1].arg)
    Interp(an, fn).run()
    if an.reads == 0 or an.returns == 0:
        raise AnalysisError("anchor vanished: readinto / return in _retry_ssl_method")
    seen = set()
    for node, msg in an.viol:
        if msg in seen:
            continue
        seen.add(msg)
        run.finding("C08.flush", fn, _stmt_at(fn, getattr(node, "lineno", fn.lineno)), msg)
    run.ob("C08.flush", f"{fn.short}:flush-before-read-and-before-return", not an.viol, flush_sites=len(an.flushes))
    # WANT_WRITE: unconditional flush
    ok = False
    from sa.norm import handler_arms
    for t in [x for x in own_nodes(fn.node) if isinstance(x, ast.Try)]:
        for h in handler_arms(t):  # real handlers, or the isinstance arms of one dispatching handler
            if h.type is not None and "SSLWantWriteError" in ast.unparse(h.type):
                sends = [n for st in h.body for n in ast.walk(st) if isinstance(n, ast.Call) and _cname(n) == "send_all"]
                # ... unconditional: the flush itself is not under a test (a guarded debug log next to it is nobody's business)
                conditional = any(isinstance(n, ast.If) and any(s_ in list(ast.walk(n)) for s_ in sends) for st in h.body for n in ast.walk(st))
                ok = bool(sends) and not conditional
    if not ok:
        run.finding("C08.flush", fn, fn.node, "the WANT_WRITE arm no longer flushes the outgoing BIO unconditionally")
    run.ob("C08.flush", f"{fn.short}:want-write-flushes", ok)
    # eof on both BIOs before OSError / SSLError propagate
    n_arms = 0
    for t in [x for x in own_nodes(fn.node) if isinstance(x, ast.Try)]:
        for h in handler_arms(t):
            ty = ast.unparse(h.type) if h.type is not None else ""
            if ty in ("OSError", "_ssl_module.SSLError") and h.body:
                n_arms += 1
                # the arm itself plus the private helpers it calls (the two write_eof() calls may have been extracted)
                from sa.norm import nodes_inl, private_helper
                src = "\n".join(ast.unparse(st) for st in h.body)
                for c_ in [x for st in h.body for x in ast.walk(st) if isinstance(x, ast.Call)]:
                    g_ = private_helper(fn, c_)
                    if g_ is not None:
                        src += "\n" + "\n".join(ast.unparse(n_) for n_, _o in nodes_inl(g_) if isinstance(n_, ast.Call))
                ok = "_read_bio.write_eof()" in src and "_write_bio.write_eof()" in src and isinstance(h.body[-1], ast.Raise)
                if not ok:
                    run.finding("C08.eofbio", fn, h.body[0], f"the `except {ty}` arm no longer marks both BIOs EOF before re-raising: a half-broken SSL state could be reused")
                run.ob("C08.eofbio", f"{fn.short}:except {ty}", ok)
    run.floor("C08.eofbio arms", n_arms, 2)


class Drain(RuleAnalysis):
    """fact: 'idle' | 'queued' (plaintext appended to the backlog, not yet handed to the SSL object) | 'drained'."""
    tokens = ("Exception", CANCELLED)

    def __init__(self, engine, backlog_attr, drains, start="idle"):
        super().__init__(engine)
        self.backlog = backlog_attr
        self.drains = drains          # names of methods known to drain the backlog on every normal exit
        self.start = start
        self.viol = []
        self.queues = 0
        self.drain_sites = 0

    def initial(self, fn):
        return [self.start]

    def may_raise(self, node, fact):
        if isinstance(node, (ast.Await, ast.Call, ast.Raise)):
            return ["Exception"] if not isinstance(node, ast.Await) else list(self.tokens)
        return []

    def _is_drain(self, c):
        name = _cname(c)
        if name == "_retry_ssl_method":
            # the write-all helper applied to the backlog itself
            args = [dotted(through_local(self.fn, a)) or "" for a in c.args]  # arguments may have been bound to locals first
            return bool(args) and any(a.endswith("." + self.backlog) for a in args[1:]) and any(
                a.split(".")[-1].lstrip("_").endswith(w.lstrip("_")) for a in args[:1] for w in self.drains.get("writers", ()))
        return name in self.drains.get("methods", ()) and isinstance(c.func, ast.Attribute) and dotted(c.func.value) == self.fn.self_name

    def transfer(self, node, fact):
        c = call_of(node)
        if isinstance(node, ast.Call) and isinstance(node.func, ast.Attribute) and (dotted(node.func.value) or "").endswith("." + self.backlog) \
                and node.func.attr in ("append", "extend", "appendleft", "extendleft", "insert"):
            self.queues += 1
            return ["queued"]
        if isinstance(node, ast.Await) and c is not None and self._is_drain(c):
            self.drain_sites += 1
            return ["drained"]
        if isinstance(node, (ast.Return, FnExit)) and fact == "queued":
            self.viol.append(node)
        return [fact]


def check_drain(eng, run):
    """Every send entry point that queues plaintext hands the *whole* backlog to the SSL object before it returns normally."""
    tls = eng.db.cls(TLS)
    # the write-all helper: a loop on the backlog parameter that can only end when it is empty
    writers = []
    for fn in tls.methods.values():
        ps = [a.arg for a in fn.params()]
        for w in [n for n in own_nodes(fn.node) if isinstance(n, ast.While)]:
            if isinstance(w.test, ast.Name) and w.test.id in ps and any(isinstance(n, ast.Call) and _cname(n) == "write" for n in ast.walk(w)):
                esc = [n for n in ast.walk(w) if isinstance(n, (ast.Break, ast.Return))]
                for n in esc:
                    run.finding("C08.drain", fn, _stmt_at(fn, n.lineno), "the write-all loop leaves before the plaintext backlog is empty: send_all() returns with bytes never encrypted nor sent")
                # every iteration shrinks the backlog: either the head is replaced by its unsent suffix or it is deleted
                b = w.test.id
                dels = [n for n in ast.walk(w) if isinstance(n, ast.Delete) and any(isinstance(t, ast.Subscript) and dotted(t.value) == b for t in n.targets)] + \
                       [n for n in ast.walk(w) if isinstance(n, ast.Call) and _cname(n) in ("popleft", "pop") and isinstance(n.func, ast.Attribute) and dotted(n.func.value) == b]
                run.ob("C08.drain", f"{fn.short}:write-all-loop-ends-only-on-empty-backlog", not esc and bool(dels), exits=len(esc), pops=len(dels))
                if not dels:
                    run.finding("C08.drain", fn, w, "the write-all loop never removes a fully written chunk from the backlog")
                writers.append(fn.name)
    if not writers:
        raise AnalysisError("anchor vanished: write-all loop over the plaintext backlog in AsyncTLSStreamTransport")
    # which private helpers drain on every normal exit (summary), then the public senders
    backlog = "_data_deque"
    drains = {"writers": tuple(writers), "methods": ()}
    helpers = []
    for fn in tls.methods.values():
        if fn.name in ("send_all", "send_all_from_iterable", "_retry_ssl_method") or fn.name in writers or not fn.is_async:
            continue
        an = Drain(eng, backlog, drains, start="queued")
        Interp(an, fn).run()
        if an.drain_sites:
            helpers.append(fn)
            for node in an.viol:
                run.finding("C08.drain", fn, _stmt_at(fn, getattr(node, "lineno", fn.lineno)) if not isinstance(node, FnExit) else fn.node,
                            "returns normally without handing the plaintext backlog to the SSL object: the caller's send_all() completes although its bytes were never written")
            run.ob("C08.drain", f"{fn.short}:drains-on-every-normal-exit", not an.viol, drain_sites=an.drain_sites)
    drains = {"writers": tuple(writers), "methods": tuple(h.name for h in helpers)}
    n = 0
    for name in ("send_all", "send_all_from_iterable"):
        fn = tls.methods[name]
        an = Drain(eng, backlog, drains)
        Interp(an, fn).run()
        if not an.queues:
            raise AnalysisError(f"anchor vanished: {name} no longer queues into {backlog}")
        n += 1
        for node in an.viol:
            run.finding("C08.drain", fn, _stmt_at(fn, getattr(node, "lineno", fn.lineno)) if not isinstance(node, FnExit) else fn.node,
                        "returns normally after queueing plaintext without draining the backlog into the SSL object")
        run.ob("C08.drain", f"{fn.short}:queued-data-drained-before-return", not an.viol, queue_sites=an.queues, drain_sites=an.drain_sites)
    run.floor("C08.drain senders", n, 2)


class ZeroRead(RuleAnalysis):
    """the scenario 'the wrapped transport returned 0 bytes': tests on the byte count are evaluated for 0; fact 'open' | 'eof'"""
    tokens = ("Exception",)

    def __init__(self, engine, var):
        super().__init__(engine)
        self.var = var
        self.eofs = 0

    def initial(self, fn):
        return ["open"]

    def may_raise(self, node, fact):
        return []

    def transfer(self, node, fact):
        if isinstance(node, ast.Call) and isinstance(node.func, ast.Attribute) and node.func.attr == "write_eof":
            self.eofs += 1
            return ["eof"]
        return [fact]

    def branch(self, test, fact):
        t, neg = test, False
        while isinstance(t, ast.UnaryOp) and isinstance(t.op, ast.Not):
            t, neg = t.operand, not neg
        val = None
        left = t.left.target if isinstance(t, ast.Compare) and isinstance(t.left, ast.NamedExpr) else (t.left if isinstance(t, ast.Compare) else None)
        if isinstance(t, ast.Compare) and len(t.ops) == 1 and isinstance(left, ast.Name) and left.id == self.var and isinstance(t.comparators[0], ast.Constant) \
                and isinstance(t.comparators[0].value, int):
            c = t.comparators[0].value
            val = {ast.Gt: 0 > c, ast.GtE: 0 >= c, ast.Lt: 0 < c, ast.LtE: 0 <= c, ast.Eq: 0 == c, ast.NotEq: 0 != c}.get(type(t.ops[0]))
        elif isinstance(t, ast.Name) and t.id == self.var:
            val = False
        elif isinstance(t, ast.NamedExpr) and isinstance(t.target, ast.Name) and t.target.id == self.var:
            val = False
        if val is None:
            return [fact], [fact]
        if neg:
            val = not val
        return ([fact], None) if val else (None, [fact])


def check_zero_read(eng, run, rule="C08.eofbio"):
    """end of the ciphertext stream: when the wrapped transport returns 0 bytes the reader marks the incoming BIO EOF on every path
    (otherwise the SSL object keeps asking for more data and the retry loop spins for ever instead of reporting end-of-stream /
    a truncation)"""
    mod = eng.db.module("lowlevel.api_async.transports.tls")
    n = 0
    for ci in mod.classes.values():
        for fn in ci.methods.values():
            if isinstance(fn.node, ast.Lambda):
                continue
            reads = [x for x in own_nodes(fn.node) if isinstance(x, ast.Await) and isinstance(x.value, ast.Call) and _cname(x.value) in ("recv_into", "recv")
                     and not (dotted(x.value.func.value) or "").endswith("_ssl_object")]
            eofs = [x for x in own_nodes(fn.node) if isinstance(x, ast.Call) and _cname(x) == "write_eof"]
            if not reads or not eofs:
                continue
            # the name bound to the byte count
            var = None
            for x in own_nodes(fn.node):
                if isinstance(x, ast.NamedExpr) and x.value in reads and isinstance(x.target, ast.Name):
                    var = x.target.id
                if isinstance(x, (ast.Assign, ast.AnnAssign)) and getattr(x, "value", None) in reads:
                    tg = x.targets[0] if isinstance(x, ast.Assign) else x.target
                    var = tg.id if isinstance(tg, ast.Name) else var
            if var is None:
                continue
            n += 1
            an = ZeroRead(eng, var)
            out = Interp(an, fn).run()
            bad = [tr for f, tr in out.ret.items() if f == "open"]
            for tr in bad[:1]:
                run.finding(rule, fn, _stmt_at(fn, tr[-1]) if tr else fn.node, f"a 0-byte read (`{var}` == 0: the peer closed the connection) can return without `write_eof()` on the incoming BIO: "
                            "the TLS layer never learns that the stream ended, the retry loop asks for more data for ever and end-of-stream / truncation is never reported", tr)
            run.ob(rule, f"{fn.short}:zero-read-marks-BIO-eof", not bad, count_var=var)
    run.floor(f"{rule} ciphertext readers", n, 1)


class WriteThenRemove(RuleAnalysis):
    """inside the write-all loop: fact 'no' | 'yes' - has ssl_object.write() accepted the head chunk in this iteration?"""
    tokens = ("ssl.SSLWantReadError",)

    def __init__(self, engine, backlog):
        super().__init__(engine)
        self.backlog = backlog
        self.viol = []
        self.removals = 0

    def initial(self, fn):
        return ["no"]

    def may_raise(self, node, fact):
        return list(self.tokens) if isinstance(node, ast.Call) and _cname(node) == "write" else []

    def transfer(self, node, fact):
        if isinstance(node, TestAtom) and dotted(node.test) == self.backlog:
            return ["no"]  # a new iteration
        if isinstance(node, ast.Call) and _cname(node) == "write":
            return ["yes"]
        removal = (isinstance(node, ast.Delete) and any(isinstance(t, ast.Subscript) and dotted(t.value) == self.backlog for t in node.targets)) or \
                  (isinstance(node, ast.Call) and _cname(node) in ("popleft", "pop") and isinstance(node.func, ast.Attribute) and dotted(node.func.value) == self.backlog)
        if removal:
            self.removals += 1
            if fact == "no":
                self.viol.append(node)
        return [fact]


def check_remove_after_write(eng, run, rule="C08.drain"):
    """a plaintext chunk leaves the backlog only after the SSL object has accepted it: write() raises WANT_READ / WANT_WRITE when the
    TLS engine needs I/O first, and the retry re-enters the helper with the backlog as it is - a chunk removed beforehand is gone"""
    tls = eng.db.cls(TLS)
    n = 0
    for fn in tls.methods.values():
        ps = [a.arg for a in fn.params()]
        for w in [x for x in own_nodes(fn.node) if isinstance(x, ast.While)]:
            if isinstance(w.test, ast.Name) and w.test.id in ps and any(isinstance(c, ast.Call) and _cname(c) == "write" for c in ast.walk(w)):
                n += 1
                an = WriteThenRemove(eng, w.test.id)
                Interp(an, fn).run()
                for node in an.viol[:1]:
                    run.finding(rule, fn, _stmt_at(fn, node.lineno), f"`{ast.unparse(node)[:50]}` takes the chunk out of the backlog before `write()` has accepted it: when the write raises "
                                "SSLWantReadError / SSLWantWriteError the retry finds the backlog without it and send_all() succeeds although the chunk was never sent")
                run.ob(rule, f"{fn.short}:chunk-removed-only-after-the-write", not an.viol and an.removals > 0, removals=an.removals)
    run.floor(f"{rule} write-all loops", n, 1)


def check_underlying(eng, run):
    """the wrapped asyncio transport the TLS layer reads ciphertext from (always through recv_into with its own buffer) and writes
    records to: the lent buffer is withdrawn on every exit / by the delivery callback (rules of C10), and a record handed to
    transport.write() is followed - not preceded - by the awaited drain (rule of C20): a record taken out of the write BIO and then
    dropped by a cancellation desynchronises the TLS stream"""
    from rules import c10, c20
    from sa.report import RuleAlias
    c10.check_lend(eng, run, rule="C08.recv", cancel_arm=False)
    c10.check_withdraw(eng, run, rule="C08.recv")
    c20.check_drain(eng, RuleAlias(run, "C08.flush"))


def check_locks(eng, run):
    tls = eng.db.cls(TLS)
    fn = tls.methods["_retry_ssl_method"]
    s = fn.self_name
    send_lock, recv_lock = f"{s}.__transport_send_lock", f"{s}.__transport_recv_lock"

    def site(node, an):
        c = call_of(node)
        return isinstance(node, ast.Await) and c is not None and (_cname(c) == "readinto" or (_cname(c) == "send_all" and (dotted(c.func.value) or "").endswith("._transport")))

    an = LockHeld(eng, {send_lock, recv_lock}, site)
    Interp(an, fn).run()
    bad = []
    for node, held in an.sites:
        want = recv_lock if _cname(call_of(node)) == "readinto" else send_lock
        h = held_names(held)
        if h != {want}:
            bad.append((node, h, want))
    seen = set()
    for node, h, want in bad:
        if node.lineno in seen:
            continue
        seen.add(node.lineno)
        run.finding("C08.locks", fn, _stmt_at(fn, node.lineno), f"`{_cname(call_of(node))}` runs while holding {sorted(h) or 'no lock'} (must hold exactly {want}): a reader parked on the transport would block every writer (or two flushes interleave)")
    run.ob("C08.locks", f"{fn.short}:one-lock-per-direction", not bad and bool(an.sites), sites=len(an.sites))
    # two distinct fair locks created in the constructor
    init = tls.methods.get("__post_init__")
    creates = {}
    if init is not None:
        for n in own_nodes(init.node):
            if isinstance(n, ast.Assign) and isinstance(n.value, ast.Call) and _cname(n.value) in ("create_fair_lock", "create_lock"):
                creates[dotted(n.targets[0])] = n
    ok = send_lock in creates and recv_lock in creates and creates[send_lock] is not creates[recv_lock]
    if not ok:
        run.finding("C08.locks", init or fn, (init or fn).node, "the send and receive locks are not two separate locks created in the constructor")
    run.ob("C08.locks", "AsyncTLSStreamTransport:two-distinct-locks", ok)


def check_reader_not_behind_writer(eng, run):
    """full duplex without deadlock (finding F10): a task that only wants to *read* - the SSLWantReadError arm and the path after a
    successful SSL call - waits for the transport send lock only when the write BIO holds something to send.  Taking it
    unconditionally parks each side's reader behind its own writer, which is parked in send_all() until the peer reads: with both
    sides writing more than the transport buffers, nothing moves any more.  (The SSLWantWriteError arm always has output to flush.)"""
    tls = eng.db.cls(TLS)
    fn = tls.methods["_retry_ssl_method"]
    send_lock = f"{fn.self_name}.__transport_send_lock"

    class Pending(RuleAnalysis):
        """fact: frozenset of 'pending' (a test on the write BIO's pending count was true on this path) / 'wantwrite' (inside the
        SSLWantWriteError arm)"""
        tokens = ("SSLWantReadError", "SSLWantWriteError", "Exception", CANCELLED)
        inline_helpers = True

        def __init__(self, e):
            super().__init__(e)
            self.sites = []

        def initial(self, f):
            return [frozenset()]

        def may_raise(self, node, fact):
            if isinstance(node, (ast.Await, ast.Call)) or (isinstance(node, WithEnter) and node.is_async):
                return list(self.tokens)
            return []

        def handler_entry(self, handler, token, fact):
            t = ast.unparse(handler.type) if handler.type is not None else ""
            return [(fact - {"pending"}) | ({"wantwrite"} if "WantWrite" in t else set())]

        def transfer(self, node, fact):
            if isinstance(node, WithEnter):
                from sa.analyses.locks import canon_lock
                c = canon_lock(node.item.context_expr, self.fn)
                if c is not None and c.split(".", 1)[-1] == send_lock.split(".", 1)[-1]:
                    self.sites.append((node, fact))
            return [fact]

        def branch(self, test, fact):
            if any(isinstance(x, ast.Attribute) and x.attr == "pending" and "write" in (dotted(x.value) or "") for x in ast.walk(test)):
                return [fact | {"pending"}], [fact - {"pending"}]
            if isinstance(test, ast.Call) and _cname(test) == "isinstance" and len(test.args) == 2 and "WantWrite" in ast.unparse(test.args[1]):
                return [fact | {"wantwrite"}], [fact]  # the arms of one handler told apart by isinstance()
            return [fact], [fact]

    an = Pending(eng)
    Interp(an, fn).run()
    bad = [(n, f) for n, f in an.sites if "pending" not in f and "wantwrite" not in f]
    seen = set()
    for node, _f in bad:
        st = node.stmt if hasattr(node, "stmt") else _stmt_at(fn, getattr(node, "lineno", fn.lineno))
        if norm_stmt(st) in seen:
            continue
        seen.add(norm_stmt(st))
        run.finding("C08.locks", fn, st, "the transport send lock is awaited on a read path (SSLWantReadError arm / after a successful SSL call) without a dominating test that the write BIO "
                    "holds pending output: a reader then waits behind its own side's writer, which is parked in send_all() until the peer reads - with both directions active and more "
                    "data than the transport buffers, both sides deadlock")
    if not an.sites:
        raise AnalysisError("anchor vanished: acquisitions of the transport send lock in _retry_ssl_method()")
    run.ob("C08.locks", f"{fn.short}:send-lock-on-read-paths-only-with-pending-output", not bad, acquisitions=len(an.sites))


def check_write_failure_keeps_read_side(eng, run):
    """the two directions fail separately: `_read_bio.write_eof()` (no more ciphertext will ever be fed to the SSL object) is a reaction
    to a failure of the *read* side or of the SSL layer.  An OSError handler that marks the read BIO as ended guards a block that
    reads from the wrapped transport; a handler around a flush alone (EPIPE on write) must leave the read BIO alone - the peer's
    bytes that are still in flight have to be delivered."""
    from sa.norm import nodes_inl
    tls = eng.db.cls(TLS)
    fn = tls.methods["_retry_ssl_method"]
    n = 0
    for t, owner in [(x, o) for x, o in nodes_inl(fn) if isinstance(x, ast.Try)]:
        for h in t.handlers:
            names = eng.lattice.handler_classes(owner, h.type) if h.type is not None else []
            if not names or not all(nm.split(".")[-1] == "OSError" for nm in names):
                continue
            def _ends(c, o, depth=0):
                if isinstance(c, ast.Call) and isinstance(c.func, ast.Attribute) and c.func.attr == "write_eof" and "read_bio" in (dotted(c.func.value) or ""):
                    return True
                if isinstance(c, ast.Call) and depth < 2:  # the pair of write_eof() calls factored into a private helper
                    from sa.norm import private_helper
                    g = private_helper(o, c)
                    if g is not None and not isinstance(g.node, ast.Lambda):
                        return any(_ends(x, g, depth + 1) for x in own_nodes(g.node))
                return False
            ends_read = [c for b in h.body for c in ast.walk(b) if _ends(c, owner)]
            if not ends_read:
                continue
            n += 1
            reads = any(isinstance(c, ast.Call) and isinstance(c.func, ast.Attribute) and c.func.attr in ("readinto", "recv", "recv_into") for b in t.body for c in ast.walk(b))
            if not reads:
                run.finding("C08.eofbio", owner, ends_read[0], "the read BIO is marked as ended in the OSError handler of a block that only writes to the wrapped transport: a failed flush (EPIPE / ECONNRESET on write) "
                            "truncates the read direction although the peer's bytes are still in flight")
            run.ob("C08.eofbio", f"{owner.short}:read-BIO-ended-only-where-the-read-side-can-fail@+{t.lineno - owner.lineno}", reads)
    run.floor("C08.eofbio OSError handlers that end the read BIO", n, 1)


def run(eng, run):
    from sa.anchors import verify as _verify_anchor_names
    _verify_anchor_names(eng, run)
    from sa.report import RuleAlias
    run.not_decided += NOT_DECIDED
    run.attempt(check_conf, eng, run)
    run.attempt(check_flush, eng, run)
    run.attempt(check_drain, eng, run)
    run.attempt(check_zero_read, eng, run)
    run.attempt(check_remove_after_write, eng, run)
    run.attempt(check_underlying, eng, run)
    run.attempt(check_locks, eng, run)
    run.attempt(check_write_failure_keeps_read_side, eng, run)
    run.attempt(check_reader_not_behind_writer, eng, run)
    from sa.analyses.sharing import check_private_buffers
    run.attempt(check_private_buffers, eng, run, "C08.recv", ("easynetwork.lowlevel.api_async.transports", "easynetwork.lowlevel.api_async.backend._asyncio.stream"), 2)
    # the TLS transport reads its ciphertext through the asyncio stream protocol: its pause/resume pairing and water marks are
    # part of "no deadlock over any fragmentation" (a paused transport that is never resumed starves the TLS reader)
    from rules import c03
    run.attempt(c03.check_flow, eng, RuleAlias(run, "C08.recv"))
    run.attempt(c03.check_water_marks, eng, run, rule="C08.recv")
    from rules import c04 as _c04, c12 as _c12
    from sa.analyses.arms import check_crossed_keywords
    run.attempt(_c12.check_fifo, eng, RuleAlias(run, "C08.locks"))  # the TLS write lock is the backend's fair lock: one holder at a time, waiters by identity
    run.attempt(check_crossed_keywords, eng, run, "C08.conf", ("lowlevel.api_async.transports",), 2)  # handshake / shutdown timeouts reach the TLS layer uncrossed
    run.attempt(_c04.check_latch_after_operation, eng, RuleAlias(run, "C08.conf"))  # a refused send_eof() over TLS must not make later writes fail
    run.attempt(_c04.check_iterable_consumed, eng, RuleAlias(run, "C08.drain"))  # the bytes written are all the bytes of the iterable: an empty batch is not the end of it
    run.end_of_rules()


# ---------------------------------------------------------------------------------------------- self-test corpus
from sa.mutate import (Variant, delete_stmt, find_handler, find_stmt, insert_after, insert_before, rename_local, replace_expr,  # noqa: E402
                       replace_stmt, stmt_has, stmt_is)

_T = "lowlevel.api_async.transports.tls:AsyncTLSStreamTransport"
_R = _T + "._retry_ssl_method"


def _swap_flush_and_read(fn):
    h = find_handler(fn, "_ssl_module.SSLWantReadError")
    inner = next(t for t in h.body if isinstance(t, ast.Try))
    inner.body.reverse()


def _single_lock(fn):
    replace_expr(fn, "self.__transport_recv_lock", "self.__transport_send_lock")


def _nest_locks(fn):
    h = find_handler(fn, "_ssl_module.SSLWantReadError")
    inner = next(t for t in h.body if isinstance(t, ast.Try))
    first, second = inner.body
    if isinstance(first, ast.If):  # `if self._write_bio.pending:` around the flush (since the F10 fix): the mutant takes the lock unconditionally
        first = first.body[0]
    first.body.append(second)
    inner.body = [first]


MUTANTS = [
    Variant("plaintext-fast-path", _T + ".send_all", lambda fn: insert_before(fn, stmt_has("self._data_deque.append"), "if not self._data_deque and self._ssl_object.pending() == 0:\n    return await self._transport.send_all(data)"),
            "C08.conf", why="application bytes reach the wrapped transport unencrypted"),
    Variant("flush-after-read", _R, _swap_flush_and_read, "C08.flush", why="handshake flight stays in memory while we wait for the answer"),
    Variant("single-lock-both-directions", _R, _single_lock, "C08.locks", why="a parked reader blocks every writer"),
    Variant("nested-locks", _R, _nest_locks, "C08.locks"),
    Variant("no-flush-on-success", _R, lambda fn: [setattr(t, "orelse", [s for s in t.orelse if not isinstance(s, (ast.AsyncWith, ast.If))]) for t in ast.walk(fn) if isinstance(t, ast.Try) and t.orelse], "C08.flush",
            why="send_all() returns although the ciphertext is still in the BIO"),
    Variant("bounded-bio-read", _R, lambda fn: replace_expr(fn, "self._write_bio.read()", "self._write_bio.read(16384)", nth=0, count=3), "C08.conf"),
    Variant("oserror-arm-no-eof", _R, lambda fn: delete_stmt(find_handler(fn, "OSError"), stmt_is("self._write_bio.write_eof()")), "C08.eofbio"),
    Variant("want-write-conditional-flush", _R,
            lambda fn: setattr(find_handler(fn, "_ssl_module.SSLWantWriteError"), "body", ast.parse("async with self.__transport_send_lock:\n    if self._write_bio.pending > 4096:\n        await self._transport.send_all(self._write_bio.read())").body),
            "C08.flush"),
    Variant("recv-returns-transport-bytes", _T + ".recv", lambda fn: replace_stmt(fn, stmt_is("try:"), "return await self._transport.recv(bufsize)"), "C08.conf"),
]

BENIGN = [
    Variant("extract-nothing-rename", _R, lambda fn: rename_local(fn, "result", "value"), why="local renamed"),
    Variant("send-all-extra-local", _T + ".send_all", lambda fn: insert_before(fn, stmt_has("self._data_deque.append"), "n = len(data)"), why="unrelated local"),
    Variant("recv-into-rename", _T + ".recv_into", lambda fn: rename_local(fn, "nbytes", "size"), why="local renamed"),
]

_FL = _T + ".__flush_data_to_send"
_WA = _T + ".__write_all_to_ssl_object"
MUTANTS += [
    Variant("flush-skipped-when-send-lock-busy", _FL, lambda fn: insert_before(fn, stmt_has("try:"), "if self.__transport_send_lock.locked():\n    return"), "C08.drain",
            why="the second concurrent send_all() returns with its bytes still un-encrypted in the backlog (seed C08-5)"),
    Variant("send-all-only-queues", _T + ".send_all", lambda fn: replace_stmt(fn, stmt_has("return await self.__flush_data_to_send()"), "return None"), "C08.drain"),
    Variant("write-all-stops-after-partial-write", _WA, lambda fn: replace_stmt(fn, stmt_has("write_backlog[0] = data[sent:]"), "write_backlog[0] = data[sent:]\nbreak"), "C08.drain",
            why="a partial SSL write leaves the rest of the backlog unsent"),
    Variant("write-all-one-chunk-per-call", _WA, lambda fn: insert_after(fn, stmt_has("del write_backlog[0]"), "return"), "C08.drain"),
]
BENIGN += [
    Variant("flush-awaited-then-return", _T + ".send_all", lambda fn: replace_stmt(fn, stmt_has("return await self.__flush_data_to_send()"), "await self.__flush_data_to_send()\nreturn None"),
            why="same drain, explicit return"),
    Variant("write-all-popleft", _WA, lambda fn: replace_stmt(fn, stmt_has("del write_backlog[0]"), "write_backlog.popleft()"), why="deque.popleft() instead of del [0]"),
]


_IDRR = "lowlevel.api_async.transports.tls:_IncomingDataReader.readinto"
def _count_test(fn, op, const):
    c = next(n for n in ast.walk(fn) if isinstance(n, ast.Compare) and isinstance(n.ops[0], ast.Gt))
    c.ops, c.comparators = [op], [ast.Constant(const)]


MUTANTS += [
    Variant("zero-byte-read-written-as-data", _IDRR, lambda fn: _count_test(fn, ast.GtE(), 0), "C08.eofbio",
            why="TCP EOF is written to the BIO as empty data: the retry loop spins on WANT_READ instead of reporting end-of-stream (seed C03-8)"),
]
BENIGN += [
    Variant("zero-byte-read-test-ge-1", _IDRR, lambda fn: _count_test(fn, ast.GtE(), 1), why="same test written as >= 1"),
]



def _pop_before_write(fn):
    w = next(n for n in ast.walk(fn) if isinstance(n, ast.While))
    w.body = ast.parse("data = write_backlog.popleft()\nif data.itemsize != 1:\n    data = data.cast('B')\nsent = ssl_object.write(data)\nif sent < len(data):\n    write_backlog.appendleft(data[sent:])").body


MUTANTS += [
    Variant("write-all-pops-before-the-write", _WA, _pop_before_write, "C08.drain",
            why="SSLObject.write() raises WANT_READ: the popped chunk is lost, send_all() succeeds without sending it (seed C08-7)"),
]
