"""C11 - a timeout is a budget for the whole blocking operation (DESIGN.md section 3, C11)."""
from __future__ import annotations

import ast

from sa.analyses.budget import BLOCKING, Budget
from sa.db import AnalysisError, FunctionInfo, dotted, mangle, norm_stmt, own_nodes
from sa.flow import Interp

CLAIM = {
    "text": "Decides budget threading for every blocking function that carries a timeout (sync transports, endpoints, clients, the selector retry loop, lock_with_timeout, the receive iterators, the standalone server's shutdown/join): on every path - in particular around every loop - the value handed to a blocking primitive, yielded or returned as the remaining budget, or stored for the next call is *fresh*, i.e. it has been re-computed (by a timer that enclosed every blocking call made since) or handed back by the callee after each wait; a blocking callee that takes a timeout is given the current budget and nothing else; a budget known to be zero never reaches a selector/event wait; the selector wait is capped by min(remaining budget, retry interval); exhaustion surfaces as ETIMEDOUT; the clients use the budget yielded by lock_with_timeout (lock acquisition is part of the budget); the iterators leave a fresh budget behind on every normal return. A function that carries a budget in the clients acquires locks only through lock_with_timeout(), directly and in the same-class helpers it calls; the unbounded select() is guarded by an infinity test on the computed wait itself. Round 4: the exception edge of a blocking call carries a partly spent budget (a retry loop around it must re-compute); send loops make progress for every abstract input (C04.prog). Round 5: no timeout / delay / deadline value is tested by truthiness (zero is not 'absent'); the asyncio backend's current_time() is the running loop's clock and the deadline machinery reads no other clock. Round 6: every return of ElapsedTime.recompute_timeout is derived from the measured elapsed time (or is the clamp constant): no wait is free; a budget recomputed in the expression that yields / returns it is read like the assignment form. Round 7: a TimeoutError handler of the blocking clients / endpoints calls no accessor of the object (they take its lock without a deadline).",
    "note": "Trusted: ElapsedTime measures what it encloses; time.perf_counter is monotonic; a None/inf timeout means no deadline. Not decided: measured time, and that TimeoutError is raised only if the operation really could not complete in time.",
    "technique": "typestate (fresh / stale / zero budget, with the set of timers covering the waits) by abstract interpretation over the structured CFG including loop back-edges; shape checks for the cap and the exhausted exits",
}
NOT_DECIDED = ["real elapsed time", "that TimeoutError is raised only if the operation really could not complete within T"]

MODULE_PREFIXES = ("easynetwork.lowlevel.api_sync", "easynetwork.clients", "easynetwork.lowlevel._utils", "easynetwork.servers._base", "easynetwork.servers.threads_helper", "easynetwork.servers.standalone")


def _stmt_at(fn, line):
    best = None
    for n in own_nodes(fn.node):
        if isinstance(n, ast.stmt) and getattr(n, "lineno", -1) == line:
            if best is None or not isinstance(n, (ast.Try, ast.With, ast.AsyncWith, ast.For, ast.If, ast.While)):
                best = n
    return best if best is not None else fn.node


def budget_functions(eng):
    out = []
    for fn in eng.db.all_functions():
        if isinstance(fn.node, ast.Lambda) or not fn.module.name.startswith(MODULE_PREFIXES):
            continue
        if fn.is_async and "clients._iter" not in fn.module.name:
            continue
        var = next((a.arg for a in fn.params() if "timeout" in a.arg and a.arg != "retry_interval"), None)
        if var is None:
            continue
        out.append((fn, var))
    return out


def report(run, fn, an, rule_default="C11.cycle", label=None):
    seen = set()
    bad = False
    for rule, node, msg in an.viol:
        st = _stmt_at(fn, getattr(node, "lineno", fn.lineno))
        if (rule, norm_stmt(st)) in seen:
            continue
        seen.add((rule, norm_stmt(st)))
        bad = True
        run.finding(rule, fn, st, msg)
    return not bad


def check_budget(eng, run):
    n_sites = 0
    n_fn = 0
    for fn, var in budget_functions(eng):
        an = Budget(eng, var)
        out = Interp(an, fn).run()
        if not an.blocking_sites:
            continue
        n_fn += 1
        n_sites += len(an.blocking_sites)
        ok = report(run, fn, an)
        for z in an.zero_waits:
            run.finding("C11.zero", fn, _stmt_at(fn, z.lineno), f"a selector/event wait is reached although `{var}` is known to be zero on that path")
        run.ob("C11.cycle", f"{fn.module.name.split('easynetwork.')[1]}:{fn.short}", ok and not an.zero_waits, budget=var, blocking_sites=len(an.blocking_sites), recomputes=len(an.recomputes))
    run.floor("C11 functions with a budget and a blocking call", n_fn, 35)
    run.floor("C11 blocking call sites", n_sites, 40)
    # iterators: the budget lives in an attribute across calls
    it = eng.db.module("clients._iter")
    for cname, meth in (("ClientRecvIterator", "__next__"), ("AsyncClientRecvIterator", "__anext__")):
        ci = it.classes.get(cname)
        fn = ci.methods.get(meth) if ci else None
        if fn is None:
            raise AnalysisError(f"anchor vanished: {cname}.{meth}")
        var = f"{fn.self_name}.__timeout"
        an = Budget(eng, var)
        out = Interp(an, fn).run()
        ok = report(run, fn, an)
        stale_exit = [tr for f, tr in out.ret.items() if f[0] == "stale"]
        for tr in stale_exit[:1]:
            run.finding("C11.cycle", fn, _stmt_at(fn, tr[-1]) if tr else fn.node, f"the iterator returns a packet without re-storing the remaining budget in `{var}`: every next packet gets the full original timeout again", tr)
        if not an.blocking_sites:
            raise AnalysisError(f"anchor vanished: blocking receive in {fn.qualname}")
        run.ob("C11.cycle", f"clients._iter:{fn.short}", ok and not stale_exit, budget=var)


def retry_wait_shape(eng):
    """Shape of the selector wait in SelectorBaseTransport._retry (shared with C04.wait):
    returns (retry fn, cap_ok, [(unbounded select call, guarded?)]) where cap_ok means every bounded select waits
    min(remaining budget, retry interval) and an unbounded select() is guarded by `<that wait> == inf`."""
    db = eng.db
    retry = db.fn("lowlevel.api_sync.transports.base_selector:SelectorBaseTransport._retry")
    budget = retry.params()[2].arg if len(retry.params()) > 2 else "timeout"
    ok = False
    wt = lim = None
    from sa.analyses.buffers import through_local
    from sa.norm import cmp_canon

    def smaller_on_true(test, true_v, false_v):
        """(wait target value names) -> the limit name if `true_v if test else false_v` is min(budget, limit), else None"""
        c = cmp_canon(retry, through_local(retry, test))
        a_, b_ = dotted(true_v), dotted(false_v)
        if c is None or not a_ or not b_ or a_ == b_ or budget not in (a_, b_) or set(k for k in c[0] if k) != {a_, b_} or c[0].get("", 0) != 0:
            return None
        minus = next(k for k, v in c[0].items() if k and v < 0)   # test true  <=>  plus - minus > / >= 0  <=>  minus is the smaller one
        return (a_ if b_ == budget else b_) if a_ == minus else None

    for n in own_nodes(retry.node):
        # if <test>: wait = A  else: wait = B      (either orientation, the test possibly held in a local)
        if isinstance(n, ast.If) and n.orelse:
            tb = [s_ for s_ in n.body if isinstance(s_, (ast.Assign, ast.AnnAssign)) and getattr(s_, "value", None) is not None]
            to_ = [s_ for s_ in n.orelse if isinstance(s_, (ast.Assign, ast.AnnAssign)) and getattr(s_, "value", None) is not None]
            for x in tb:
                for y in to_:
                    tx = x.targets[0] if isinstance(x, ast.Assign) else x.target
                    ty = y.targets[0] if isinstance(y, ast.Assign) else y.target
                    if dotted(tx) and dotted(tx) == dotted(ty):
                        lim_ = smaller_on_true(n.test, x.value, y.value)
                        if lim_ is not None:
                            wt, lim = dotted(tx), lim_
        # wait = A if <test> else B
        if isinstance(n, (ast.Assign, ast.AnnAssign)) and isinstance(getattr(n, "value", None), ast.IfExp):
            lim_ = smaller_on_true(n.value.test, n.value.body, n.value.orelse)
            if lim_ is not None:
                tgt = n.targets[0] if isinstance(n, ast.Assign) else n.target
                wt, lim = dotted(tgt), lim_
        # wait = min(timeout, retry_interval)
        if isinstance(n, (ast.Assign, ast.AnnAssign)) and isinstance(getattr(n, "value", None), ast.Call) and isinstance(n.value.func, ast.Name) and n.value.func.id == "min" \
                and budget in [dotted(a) for a in n.value.args] and len(n.value.args) == 2:
            tgt = n.targets[0] if isinstance(n, ast.Assign) else n.target
            wt = dotted(tgt)
            lim = next(dotted(a) for a in n.value.args if dotted(a) != budget)
        # wait, flag = _plan(timeout, retry_interval)   - a helper whose two returns are the arms of that very if/else, as tuples or as
        # records of a NamedTuple (positional or keyword fields)
        if isinstance(n, ast.Assign) and len(n.targets) == 1 and isinstance(n.targets[0], ast.Tuple) and isinstance(n.value, ast.Call):
            from sa.norm import tuple_elts
            for g in eng.typer.call_targets(retry, n.value, dispatch=False):
                if not hasattr(g, "node") or isinstance(g.node, ast.Lambda):
                    continue
                gps = [a.arg for a in g.params()]
                if g.cls is not None and gps and not g.has_decorator("staticmethod"):
                    gps = gps[1:]
                amap = {pn: av for pn, av in zip(gps, n.value.args)}
                amap.update({k.arg: k.value for k in n.value.keywords if k.arg})
                body = [st for st in g.node.body if not (isinstance(st, ast.Expr) and isinstance(st.value, ast.Constant))]
                iff = body[0] if body and isinstance(body[0], ast.If) else None
                if iff is None or len(iff.body) != 1 or not isinstance(iff.body[0], ast.Return):
                    continue
                other = iff.orelse[0] if len(iff.orelse) == 1 else (body[1] if len(body) == 2 and not iff.orelse else None)
                if not isinstance(other, ast.Return):
                    continue

                class _Sub(ast.NodeTransformer):
                    def visit_Name(self, node):
                        return amap.get(node.id, node) if isinstance(node.ctx, ast.Load) else node
                import copy
                r1 = [_Sub().visit(copy.deepcopy(x)) for x in tuple_elts(g, iff.body[0].value)]
                r2 = [_Sub().visit(copy.deepcopy(x)) for x in tuple_elts(g, other.value)]
                test = _Sub().visit(copy.deepcopy(iff.test))
                if len(r1) == len(r2) == len(n.targets[0].elts):
                    for tgt, a_, b_ in zip(n.targets[0].elts, r1, r2):
                        lim_ = smaller_on_true(test, a_, b_)
                        if lim_ is not None and dotted(tgt):
                            wt, lim = dotted(tgt), lim_
    # the select() calls, in _retry itself or in a private helper it hands the wait to (names are mapped back through the call)
    from sa.norm import nodes_inl
    inl = list(nodes_inl(retry))

    def up(owner, nm):
        """the expression of _retry that a helper's parameter `nm` stands for (identity for _retry itself)"""
        if owner is retry or nm is None:
            return nm
        ps = [a.arg for a in owner.params()]
        if owner.cls is not None and ps and not owner.has_decorator("staticmethod"):
            ps = ps[1:]
        for c, oc in inl:
            if oc is retry and isinstance(c, ast.Call) and (dotted(c.func) or "").split(".")[-1] == owner.name:
                if nm in ps and ps.index(nm) < len(c.args):
                    return dotted(c.args[ps.index(nm)])
                for k in c.keywords:
                    if k.arg == nm:
                        return dotted(k.value)
        return None

    if wt is not None:
        sel = [(c, o) for c, o in inl if isinstance(c, ast.Call) and isinstance(c.func, ast.Attribute) and c.func.attr == "select" and c.args]
        ok = bool(sel) and all(up(o, dotted(c.args[0])) == wt for c, o in sel)
    # the unbounded select() is only reachable when the wait itself is infinite (i.e. both the budget and the interval are)
    sel0 = [(c, o) for c, o in inl if isinstance(c, ast.Call) and isinstance(c.func, ast.Attribute) and c.func.attr == "select" and not c.args]

    def is_inf_test(t, names):
        """`<name> == math.inf` / `math.isinf(<name>)` over one of names; a conjunction must cover... any one conjunct suffices"""
        if isinstance(t, ast.BoolOp) and isinstance(t.op, ast.And):
            return any(is_inf_test(v, names) for v in t.values)
        if isinstance(t, ast.Compare) and len(t.ops) == 1 and isinstance(t.ops[0], (ast.Eq, ast.Is, ast.GtE)):
            sides = [dotted(t.left) or "", dotted(t.comparators[0]) or ""]
            return any(x.split(".")[-1] == "inf" for x in sides) and any(x in names for x in sides)
        if isinstance(t, ast.Call) and (dotted(t.func) or "").split(".")[-1] == "isinf" and t.args:
            return dotted(t.args[0]) in names
        return False

    def both_inf(t):
        if isinstance(t, ast.BoolOp) and isinstance(t.op, ast.And):
            return any(is_inf_test(v, {budget}) for v in t.values) and any(is_inf_test(v, {lim}) for v in t.values)
        return False

    out = []
    for c, o in sel0:
        guarded = False
        for n in own_nodes(o.node):
            if isinstance(n, ast.If) and any(c in list(ast.walk(s)) for s in n.body):
                local_wt = {x for x in ({a.arg for a in o.params()} if o is not retry else {wt}) if x is not None and up(o, x) == wt}
                if (wt is not None and is_inf_test(n.test, local_wt)) or (o is retry and lim is not None and both_inf(n.test)):
                    guarded = True
        out.append((c, guarded))
    return retry, ok, out


def check_shapes(eng, run):
    from sa.norm import tail_delegate as _tail_delegate
    db = eng.db
    retry, ok, unbounded = retry_wait_shape(eng)
    if not ok:
        run.finding("C11.cap", retry, retry.node, "the selector wait is no longer min(remaining budget, retry interval): a wake-up interval longer than the remaining budget overshoots the timeout")
    run.ob("C11.cap", retry.short, ok)
    ok = all(g for _, g in unbounded)
    for c, g in unbounded:
        if not g:
            run.finding("C11.thread", retry, c, "selector.select() without a timeout is not confined to the arm where the computed wait (min of budget and retry interval) is infinite: "
                        "the periodic retry / the budget is ignored and the call can block for ever")
    run.ob("C11.thread", f"{retry.short}:unbounded-select-only-if-inf", ok, unbounded_selects=len(unbounded))
    # C11.err: exhaustion -> ETIMEDOUT
    for q in ("lowlevel.api_sync.transports.base_selector:SelectorBaseTransport._retry", "lowlevel.api_sync.endpoints.stream:_DataReceiverImpl.receive",
              "lowlevel.api_sync.endpoints.stream:_BufferedReceiverImpl.receive"):
        fn = _tail_delegate(db.fn(q))  # (the loop may live in a private helper the function ends in)
        last = fn.node.body[-1]
        # after the retry loop every path raises, and one of those raises is ETIMEDOUT (the other may be the end-of-stream error, in either order)
        loops_ = [i for i, st in enumerate(fn.node.body) if isinstance(st, (ast.While, ast.For)) or any(isinstance(x, (ast.While, ast.For)) for x in ast.walk(st))]
        tail = fn.node.body[loops_[-1] + 1:] if loops_ else fn.node.body[-2:]
        from sa.norm import raised_errnos
        ok = isinstance(last, ast.Raise) and any(isinstance(r, ast.Raise) and ("ETIMEDOUT" in ast.unparse(r) or "ETIMEDOUT" in raised_errnos(fn, r)) for st in tail for r in ast.walk(st))
        if not ok:
            run.finding("C11.err", fn, last, "an exhausted budget no longer surfaces as ETIMEDOUT (TimeoutError) at the end of the retry loop")
        run.ob("C11.err", fn.short, ok)
    lw = db.fn("lowlevel._utils:lock_with_timeout")
    # the blocking acquire is the right operand of `timeout == 0 or ...` and its failure raises ETIMEDOUT
    ok = False
    from sa.norm import nodes_inl as _nodes_inl
    for n, _owner in _nodes_inl(lw):  # (also in a private helper that is given the lock and the budget under their own names)
        if isinstance(n, ast.If) and isinstance(n.test, ast.BoolOp) and isinstance(n.test.op, ast.Or):
            first = ast.unparse(n.test.values[0]).replace(" ", "")
            rest = ast.unparse(n.test.values[-1])
            if first in ("timeout==0", "timeout<=0") and "acquire(True" in rest.replace("blocking=", "") and any(isinstance(s, ast.Raise) and "ETIMEDOUT" in ast.unparse(s) for s in n.body):
                ok = True
    if not ok:
        run.finding("C11.zero", lw, lw.node, "lock_with_timeout no longer skips the blocking acquire for a zero budget / no longer raises ETIMEDOUT when the lock cannot be taken in time")
    run.ob("C11.zero", lw.short, ok)
    # zero-budget drain arm of the sync receivers: continue only while reads are full
    for q in ("lowlevel.api_sync.endpoints.stream:_DataReceiverImpl.receive", "lowlevel.api_sync.endpoints.stream:_BufferedReceiverImpl.receive"):
        fn = _tail_delegate(db.fn(q))  # (the loop may live in a private helper the function ends in)
        ok = False
        for n in own_nodes(fn.node):
            from sa.norm import cmp_canon
            c = cmp_canon(fn, n.test) if isinstance(n, ast.If) else None
            # `timeout > 0` (in any spelling) ... else: `<count> < bufsize` -> break
            if c is not None and c[1] == ">" and c[0].get("timeout") == 1 and len([k for k in c[0] if k]) == 1 and c[0].get("", 0) == 0:
                for o in n.orelse:
                    co = cmp_canon(fn, o.test) if isinstance(o, ast.If) else None
                    if co is not None and co[1] == ">" and len([k for k in co[0] if k]) == 2 and any(isinstance(s_, ast.Break) for s_ in o.body):
                        ok = True
        if not ok:
            run.finding("C11.zero", fn, fn.node, "with a zero budget the receive loop no longer stops at the first short read: it would keep polling / block")
        run.ob("C11.zero", fn.short, ok)


def _plain_lock_withs(fn):
    """`with <lock>:` items that wait for a lock without any budget (not through lock_with_timeout)"""
    out = []
    for n in own_nodes(fn.node):
        if isinstance(n, ast.With):
            for it in n.items:
                ce = it.context_expr
                d = (dotted(ce.func.value) if isinstance(ce, ast.Call) and isinstance(ce.func, ast.Attribute) and ce.func.attr == "get" and not ce.args else dotted(ce)) or ""
                if d.lower().endswith("lock") and not (isinstance(ce, ast.Call) and (dotted(ce.func) or "").endswith("lock_with_timeout")):
                    out.append((n, d))
    return out


def check_unbudgeted_locks(eng, run):
    """a zero / finite timeout never waits without a bound: a function that carries a time budget acquires locks only through
    lock_with_timeout(), directly and in the same-class helpers it calls (is_closed(), ...)"""
    n = 0
    for fn, var in budget_functions(eng):
        if fn.cls is None or not fn.module.name.startswith("easynetwork.clients"):
            continue
        n += 1
        bad = [(w, d, None) for w, d in _plain_lock_withs(fn)]
        for c in own_nodes(fn.node):
            if isinstance(c, ast.Call) and isinstance(c.func, ast.Attribute) and dotted(c.func.value) == fn.self_name:
                m = fn.cls.find_method(c.func.attr)
                if m is not None and m is not fn and not isinstance(m.node, ast.Lambda):
                    for w, d in _plain_lock_withs(m):
                        bad.append((c, d, m))
        for node, d, via in bad[:2]:
            run.finding("C11.thread", fn, _stmt_at(fn, node.lineno), f"`{d}` is waited for without a bound" + (f" (inside {via.short}())" if via is not None else "") +
                        f" in a call that carries the budget `{var}`: with a zero or small timeout the call blocks for as long as another thread holds that lock")
        run.ob("C11.thread", f"{fn.module.name.split('.')[-1]}:{fn.short}:locks-only-through-lock_with_timeout", not bad)
    run.floor("C11.thread budgeted client methods", n, 8)


def check_infinite_wait_error(eng, run, rule="C11.thread"):
    """in the selector retry loop, the error raised for 'an infinite wait came back empty' is reachable only after the *unbounded*
    `select()` call: after a bounded select(wait) that merely expired (the periodic retry wake-up) the loop must go round again, not fail
    the blocked caller"""
    from sa.analyses.base import RuleAnalysis
    retry = eng.db.fn("lowlevel.api_sync.transports.base_selector:SelectorBaseTransport._retry")

    class Sel(RuleAnalysis):
        tokens = ("Exception",)
        inline_helpers = True

        def __init__(self, e):
            super().__init__(e)
            self.viol = []
            self.raises = 0

        def initial(self, f):
            return ["none"]

        def may_raise(self, node, fact):
            return ["Exception"] if isinstance(node, ast.Call) and not (isinstance(node.func, ast.Attribute) and node.func.attr == "select") else []

        def transfer(self, node, fact):
            if isinstance(node, ast.Call) and isinstance(node.func, ast.Attribute) and node.func.attr == "select":
                return ["bounded" if (node.args or node.keywords) else "unbounded"]
            if isinstance(node, ast.Raise) and node.exc is not None and "RuntimeError" in ast.unparse(node.exc) and fact != "none":
                self.raises += 1
                if fact == "bounded" and node not in self.viol:
                    self.viol.append(node)
            return [fact]

    an = Sel(eng)
    Interp(an, retry).run()
    for v in an.viol[:1]:
        run.finding(rule, retry, v, "the 'infinite wait came back empty' error can be raised after a *bounded* select() that merely expired: with timeout=None and a finite retry interval a sender blocked "
                    "longer than the interval fails in the middle of its packet and the next sender's packet follows a truncated one")
    run.ob(rule, f"{retry.short}:empty-select-error-only-after-unbounded-select", not an.viol, raises=an.raises)


def check_zero_is_not_none(eng, run):
    """a zero timeout is a value of its own ('never blocks'), not an absent one: no timeout / delay / deadline parameter or attribute is
    ever tested by truthiness (`timeout or inf`, `if not timeout:`, `x if timeout else y`) - that turns 0 into 'no timeout'"""
    n = 0

    def is_budget(e):
        d = dotted(e) or ""
        last = d.split(".")[-1].lower()
        return bool(d) and any(w in last for w in ("timeout", "deadline", "delay")) and not last.startswith(("is_", "has_")) \
            and not any(w in last for w in ("handle", "scope", "ctx", "callback", "error", "exc", "event", "task"))  # objects, not numbers

    def truthy_uses(fn):
        for x in own_nodes(fn.node):
            if isinstance(x, ast.BoolOp):
                for v in x.values[:-1] if isinstance(x.op, ast.Or) else x.values:
                    if is_budget(v):
                        yield x, v
            tests = []
            if isinstance(x, (ast.If, ast.While, ast.IfExp)):
                tests.append(x.test)
            if isinstance(x, ast.Assert):
                continue
            for t in tests:
                neg = t
                while isinstance(neg, ast.UnaryOp) and isinstance(neg.op, ast.Not):
                    neg = neg.operand
                if is_budget(neg):
                    yield x, neg

    for fn in eng.db.all_functions():
        if isinstance(fn.node, ast.Lambda) or not fn.module.name.startswith(("easynetwork.clients", "easynetwork.lowlevel.api_sync", "easynetwork.lowlevel._utils", "easynetwork.lowlevel.api_async.backend._asyncio.tasks")):
            continue
        if not any(is_budget(ast.Name(id=a.arg, ctx=ast.Load())) for a in fn.params()) and not any(isinstance(x, ast.Attribute) and is_budget(x) for x in own_nodes(fn.node)):
            continue
        n += 1
        uses = list(truthy_uses(fn))
        for node, v in uses[:1]:
            run.finding("C11.zero", fn, node if isinstance(node, ast.stmt) else _stmt_at(fn, node.lineno), f"`{ast.unparse(v)}` is tested by truthiness: a zero timeout is treated like an absent one "
                        "(e.g. replaced by infinity) - a call that must not block waits for ever")
        run.ob("C11.zero", f"{fn.module.name.split('easynetwork.')[1]}:{fn.short}:zero-timeout-not-read-as-absent", not uses)
    run.floor("C11.zero functions handling a timeout value", n, 20)


def check_one_clock(eng, run):
    """deadlines are computed and compared on one clock: the asyncio backend's current_time() is the running loop's time() - the clock
    its cancel scopes schedule with (`loop.call_at`) - and neither it nor the scope implementation reads another clock
    (time.monotonic / time.time / perf_counter), which differs from the loop's on any loop with its own notion of time"""
    be = eng.db.module("lowlevel.api_async.backend._asyncio.backend")
    ct = next((f for c in be.classes.values() for f in c.methods.values() if f.name == "current_time"), None)
    if ct is None:
        raise AnalysisError("anchor vanished: current_time() of the asyncio backend")
    from sa.analyses.buffers import through_local
    rets = [r.value for r in own_nodes(ct.node) if isinstance(r, ast.Return) and r.value is not None]
    ok = bool(rets)
    for r in rets:
        v = through_local(ct, r)
        good = isinstance(v, ast.Call) and isinstance(v.func, ast.Attribute) and v.func.attr == "time"
        if good:
            recv = through_local(ct, v.func.value)
            good = isinstance(recv, ast.Call) and (dotted(recv.func) or "").split(".")[-1] in ("get_running_loop", "get_event_loop") or "loop" in (dotted(v.func.value) or "")
        ok = ok and good
    foreign = []
    for modname in ("lowlevel.api_async.backend._asyncio.backend", "lowlevel.api_async.backend._asyncio.tasks"):
        m = eng.db.module(modname)
        for f in [x for c in m.classes.values() for x in c.methods.values()] + list(m.functions.values()):
            if isinstance(f.node, ast.Lambda):
                continue
            for c in own_nodes(f.node):
                if isinstance(c, ast.Call) and (dotted(c.func) or "") in ("time.monotonic", "time.time", "time.perf_counter", "monotonic", "perf_counter", "time.monotonic_ns"):
                    foreign.append((f, c))
    if not ok:
        run.finding("C11.cycle", ct, ct.node, "current_time() of the asyncio backend is not the running loop's time(): move_on_after()/timeout() compute deadlines on one clock while the cancel scopes "
                    "compare and schedule on the loop's - the timeout fires at the wrong moment (at once, or far beyond the budget) on a loop whose clock differs")
    for f, c in foreign[:1]:
        run.finding("C11.cycle", f, _stmt_at(f, c.lineno), f"`{ast.unparse(c)}` reads a clock other than the event loop's in the deadline machinery")
    run.ob("C11.cycle", f"{ct.short}:deadlines-on-the-loop-clock", ok and not foreign, foreign_clock_reads=len(foreign))


def check_recompute_charges_everything(eng, run):
    """the helper every budget goes through: `ElapsedTime.recompute_timeout(old)` returns, on every path, a value computed from the
    measured elapsed time (`old - elapsed`, clamped at zero) - never the old budget itself.  A shortcut that returns `old` unchanged
    for 'negligible' waits makes a drip of short waits free: the total wait is then unbounded."""
    from sa.analyses.buffers import assignments
    ci = eng.db.cls("lowlevel._utils.ElapsedTime")
    fn = ci.methods.get("recompute_timeout")
    if fn is None:
        raise AnalysisError("anchor vanished: ElapsedTime.recompute_timeout")
    old = [a.arg for a in fn.params()][-1]
    rets = [r for r in own_nodes(fn.node) if isinstance(r, ast.Return) and r.value is not None]
    if not rets:
        raise AnalysisError("anchor vanished: return of ElapsedTime.recompute_timeout")

    def measured(e):
        if any(isinstance(c, ast.Call) and isinstance(c.func, ast.Attribute) and c.func.attr == "get_elapsed" for c in ast.walk(e)):
            return True
        asg = assignments(fn)
        todo, seen = [x.id for x in ast.walk(e) if isinstance(x, ast.Name)], set()
        while todo:
            nm = todo.pop()
            if nm in seen:
                continue
            seen.add(nm)
            for v in asg.get(nm, []):
                if any(isinstance(c, ast.Call) and isinstance(c.func, ast.Attribute) and c.func.attr == "get_elapsed" for c in ast.walk(v)):
                    return True
                if isinstance(v, ast.Constant):
                    continue
                todo += [x.id for x in ast.walk(v) if isinstance(x, ast.Name)]
        return False

    bad = []
    for r in rets:
        v = r.value
        # a clamp constant (`return 0.0`) is a budget that is used up: fine; anything else must be derived from the measurement
        if isinstance(v, ast.Constant) and v.value == 0:
            continue
        if not measured(v) or (isinstance(v, ast.Name) and v.id == old):
            bad.append(r)
        else:
            # every value bound to the returned name is derived from the measurement (a path that re-binds it to the old budget is not)
            if isinstance(v, ast.Name):
                for val in assignments(fn).get(v.id, []):
                    if not (isinstance(val, ast.Constant) and val.value == 0) and not measured(val):
                        bad.append(r)
    for r in bad[:1]:
        run.finding("C11.cycle", fn, r, f"`{ast.unparse(r)}` hands back a budget that was not reduced by the measured elapsed time: waits on this path are free, so a sequence of them "
                    "(a drip of partial reads, spurious wake-ups) keeps a call with timeout T running without bound")
    run.ob("C11.cycle", f"{fn.short}:every-return-charges-the-elapsed-time", not bad, returns=len(rets))


def check_expiry_path_does_not_wait(eng, run):
    """when the budget is used up the call reports it at once: in the blocking clients and endpoints, a handler of TimeoutError (the expiry
    of the wait) calls nothing but exception constructors before it raises.  A look at the object's own state through a public
    accessor (`self.fileno()`, `self.is_closed()`) goes through the send lock with no deadline: an expired receive then waits for
    whoever is sending."""
    n = 0
    for fn in eng.db.all_functions():
        if isinstance(fn.node, ast.Lambda) or fn.cls is None or not fn.module.name.startswith(("easynetwork.clients.tcp", "easynetwork.clients.udp", "easynetwork.lowlevel.api_sync.endpoints")):
            continue
        for t in [x for x in own_nodes(fn.node) if isinstance(x, ast.Try)]:
            for h in t.handlers:
                if h.type is None or "TimeoutError" not in ast.unparse(h.type):
                    continue
                n += 1
                calls = [c for b in h.body for c in ast.walk(b) if isinstance(c, ast.Call)]
                waits = [c for c in calls if isinstance(c.func, ast.Attribute) and isinstance(c.func.value, ast.Name) and c.func.value.id == fn.self_name]
                for c in waits[:1]:
                    run.finding("C11.thread", fn, h, f"the TimeoutError handler of {fn.name}() calls `{ast.unparse(c)[:40]}`: accessors of the client take its lock without a deadline, so a receive whose budget "
                                "has expired (also timeout=0) blocks for as long as another thread is sending")
                run.ob("C11.thread", f"{fn.short}:expiry-handler-does-not-wait", not waits)
    run.count("timeout_handlers", n) if hasattr(run, "count") else None


def run(eng, run):
    from sa.anchors import verify as _verify_anchor_names
    _verify_anchor_names(eng, run)
    run.not_decided += NOT_DECIDED
    run.attempt(check_budget, eng, run)
    run.attempt(check_shapes, eng, run)
    run.attempt(check_unbudgeted_locks, eng, run)
    run.attempt(check_zero_is_not_none, eng, run)
    run.attempt(check_one_clock, eng, run)
    run.attempt(check_expiry_path_does_not_wait, eng, run)
    run.attempt(check_recompute_charges_everything, eng, run)
    run.attempt(check_infinite_wait_error, eng, run)
    # a send loop that stops making progress (an empty chunk that is never dropped) spins for ever, whatever the timeout
    from rules import c04
    from sa.report import RuleAlias
    run.attempt(c04.check_prog, eng, RuleAlias(run, "C11.cycle"))
    run.end_of_rules()


# ---------------------------------------------------------------------------------------------- self-test corpus
from sa.mutate import (Variant, delete_stmt, find_stmt, insert_after, insert_before, rename_local, replace_expr, replace_stmt,  # noqa: E402
                       stmt_has, stmt_is)

_RETRY = "lowlevel.api_sync.transports.base_selector:SelectorBaseTransport._retry"
_SR = "lowlevel.api_sync.endpoints.stream:_DataReceiverImpl.receive"
_SA = "lowlevel.api_sync.transports.abc:StreamWriteTransport.send_all"
_LW = "lowlevel._utils:lock_with_timeout"
_TCP = "clients.tcp:TCPNetworkClient"
_IT = "clients._iter:ClientRecvIterator.__next__"
_JOIN = "servers.threads_helper:NetworkServerThread.join"


def _save_original(fn):
    # pass the loop-invariant original timeout to recv inside the receiver loop
    fn.body.insert(0, ast.parse("timeout0 = timeout").body[0])
    replace_expr(fn, "transport.recv(bufsize, timeout)", "transport.recv(bufsize, timeout0)")


MUTANTS = [
    Variant("receiver-original-timeout-in-loop", _SR, _save_original, "C11", why="every partial read gets the full original timeout"),
    Variant("retry-no-recompute", _RETRY, lambda fn: delete_stmt(fn, stmt_is("timeout = elapsed.recompute_timeout(timeout)")), "C11.cycle",
            why="each retry-interval wake-up restarts the budget"),
    Variant("retry-always-retry-interval", _RETRY, lambda fn: replace_stmt(fn, stmt_is("if timeout <= retry_interval"), "is_retry_interval = True\nwait_time = retry_interval"), "C11.cap"),
    Variant("send-all-no-recompute", _SA, lambda fn: delete_stmt(fn, stmt_is("timeout = elapsed.recompute_timeout(timeout)")), "C11.cycle"),
    Variant("lock-with-timeout-unmeasured-acquire", _LW,
            lambda fn: replace_stmt(fn, stmt_is("with ElapsedTime() as elapsed"), "if timeout == 0 or not lock.acquire(True, timeout):\n    raise error_from_errno(_errno.ETIMEDOUT)\nwith ElapsedTime() as elapsed:\n    pass"),
            "C11.cycle", why="the lock wait is not deducted from the budget"),
    Variant("client-ignores-yielded-budget", _TCP + ".recv_packet", lambda fn: replace_expr(fn, "_utils.lock_with_timeout(self.__receive_lock.get(), timeout)", "_utils.lock_with_timeout(self.__receive_lock.get(), timeout)") or
            [setattr(w.items[0], "optional_vars", ast.Name(id="_remaining", ctx=ast.Store())) for w in ast.walk(fn) if isinstance(w, ast.With) and "lock_with_timeout" in ast.unparse(w.items[0].context_expr)],
            "C11", why="the time spent waiting for the lock is not counted"),
    Variant("iterator-does-not-store-budget", _IT, lambda fn: delete_stmt(fn, stmt_is("if self.__timeout is not None")), "C11.cycle",
            why="every packet of iter_received_packets gets the full timeout"),
    Variant("join-passes-original-timeout", _JOIN, lambda fn: delete_stmt(fn, stmt_is("if timeout is not None")), "C11.cycle"),
    Variant("retry-exhausted-returns", _RETRY, lambda fn: replace_stmt(fn, stmt_is("raise _utils.error_from_errno(_errno.ETIMEDOUT)"), "raise _utils.error_from_errno(_errno.EAGAIN)"), "C11.err"),
    Variant("recompute-with-foreign-timer", _SA,
            lambda fn: replace_stmt(fn, stmt_is("with data[total_sent:] as buffer, _utils.ElapsedTime() as elapsed"),
                                    "with _utils.ElapsedTime() as elapsed:\n    pass\nwith data[total_sent:] as buffer:\n    sent = self.send(buffer, timeout)"),
            "C11.cycle", why="the timer does not enclose the send"),
]

BENIGN = [
    Variant("retry-rename-wait-time", _RETRY, lambda fn: rename_local(fn, "wait_time", "delay"), why="local renamed"),
    Variant("send-all-recompute-via-local", _SA,
            lambda fn: replace_stmt(fn, stmt_is("timeout = elapsed.recompute_timeout(timeout)"), "timeout = elapsed.recompute_timeout(timeout)\nremaining = timeout"), why="extra local"),
    Variant("receiver-rename-elapsed", _SR, lambda fn: rename_local(fn, "elapsed", "timer"), why="timer renamed"),
]

_TCPR = _TCP + ".recv_packet"
MUTANTS += [
    Variant("recv-packet-closed-check-through-public-is-closed", _TCPR, lambda fn: replace_expr(fn, "endpoint.is_closed()", "self.is_closed()"), "C11.thread",
            why="recv_packet(timeout=0) waits for the send lock held by a stalled sender (seed C11-4)"),
    Variant("retry-ready-wakeup-not-charged", _RETRY, lambda fn: replace_stmt(fn, stmt_is("timeout = elapsed.recompute_timeout(timeout)"),
                                                                         "if available and is_retry_interval:\n    continue\ntimeout = elapsed.recompute_timeout(timeout)"), "C11.cycle",
            why="drip-fed readiness: the waits that end with a ready fd are never deducted (seed C11-6)"),
    Variant("tcp-send-lock-wait-not-deducted", _TCP + ".send_packet", lambda fn: [setattr(it, "optional_vars", None) for w in ast.walk(fn) if isinstance(w, ast.With) for it in w.items if "lock_with_timeout" in ast.unparse(it.context_expr)], "C11.cycle",
            why="the send gets the caller's full timeout after waiting for the lock (seed C11-5)"),
]
