"""C15 - stream server: each request reaches the handler exactly once, in order (DESIGN.md section 3, C15)."""
from __future__ import annotations

import ast

from sa.analyses.base import RuleAnalysis
from sa.analyses.contain import Containment, SwallowRegistry
from sa.db import AnalysisError, FunctionInfo, dotted, mangle, norm_stmt, own_nodes
from sa.exc import CANCELLED
from sa.flow import FnExit, Interp, TestAtom, WithEnter, call_of

CLAIM = {
    "text": "Decides the plumbing invariants of the three generator-driving layers (the low-level stream server's client task, the high-level stream and datagram handler generators, the datagram server's inner loop) and of the two request receivers: every async generator created there is closed (aclose awaited) on every exit edge and never driven after its close or replaced while live; every action (a received request, a thrown error, an upward-yielded value) is forwarded to the current generator exactly once - never dropped, overwritten or replayed, in particular not across a generator restart; the timeout passed to the next wait is the one most recently yielded by the current generator and is used for exactly one wait; the receivers drain before reading, feed every chunk they read, turn disconnects into StopAsyncIteration and every other outcome into a ThrowAction (so a parse error is thrown into the handler at its position instead of killing the task), and yield shielded when a request was already buffered; a new wait is only started after re-testing that the connection is not closing. The server-side client API stores its closing flag before it closes the connection on the graceful and on the cancelled path (close-path typestate of C14), and the caller's buffer lent to the event loop by the buffered receive path is withdrawn on every exit (lend typestate of C10). The asyncio transport under both receive paths reads its raw buffer only as `[:level]`, conserves bytes in its copy-out paths and keeps its read water marks within the buffer (rules of C10/C03). Round 4: is_closing() of the asyncio stream transport answers from the adapter's own flag only (raised only in its close paths); the framing helpers under the buffered request receiver search and read only the received part of the buffer (C02.bound, C01.scan); the buffer lent to the event loop is withdrawn in the callback. Round 5: after a parse error the consumer holds no dead parser; the JSON framer skips inter-document whitespace; nothing but parse errors escapes the deserialisation entry points (C10.parser, C01.ws, C06.esc under C15.recv). Round 6: the closing flag that the handler restart loop reads (_ConnectedClientAPI.is_closing) is raised only by the close paths (aclose, the disconnect hook and private steps of them), never by a failed send; eof_received() keeps the transport open so that buffered requests are still delivered. Round 7: aclose() of the adapters raises the closing flag on every path; `async with contextlib.aclosing(gen)` is read as try/finally aclose.",
    "note": "Trusted: AsyncGenAction.asend semantics (SendAction->asend, ThrowAction->athrow); the consumers deliver requests in stream order (C01/C02/C03). Not decided: value-level ordering inside the serializers; that TimeoutError is raised only if no request arrived in time (time).",
    "technique": "typestate by abstract interpretation: generator lifecycle (none/live/closed), action linearity (fresh/used), timeout provenance (fresh/stale/consumed), gate-before-wait; exception containment for the receivers; sibling comparison",
}
NOT_DECIDED = ["value-level ordering inside a chunk (C01/C02)", "that a yielded timeout fires only if no complete request arrived in time (time)"]

GEN_CREATORS = {"client_connected_cb", "datagram_received_cb", "new_request_handler", "handle", "on_connection"}
ACTION_CTORS = {"SendAction", "ThrowAction"}
DRIVERS = {"asend", "athrow"}


def _stmt_at(fn, line):
    best = None
    for n in own_nodes(fn.node):
        if isinstance(n, ast.stmt) and getattr(n, "lineno", -1) == line:
            if best is None or not isinstance(n, (ast.Try, ast.With, ast.AsyncWith, ast.For, ast.If, ast.While)):
                best = n
    return best if best is not None else fn.node


def _cname(c):
    if c is None:
        return ""
    return c.func.attr if isinstance(c.func, ast.Attribute) else getattr(c.func, "id", "")


class GenDrive(RuleAnalysis):
    """fact = (gens: tuple[(var, state)], action: 'none'|'fresh'|'used', tmo: 'none'|'fresh'|'stale'|'used')"""
    tokens = ("StopAsyncIteration", "Exception", CANCELLED, "BaseException")
    inline_helpers = True  # a part of the driving loop extracted into a private coroutine (namesake arguments) is read in place

    def __init__(self, engine, gen_vars: set[str], action_var: str | None, timeout_var: str | None):
        super().__init__(engine)
        self.gen_vars = gen_vars
        self.action_var = action_var
        self.timeout_var = timeout_var
        self.viol: list[tuple[str, object, str]] = []
        self.n_defs = 0
        self.n_sends = 0
        self.n_waits = 0

    def initial(self, fn):
        return [(tuple(sorted((g, "none") for g in self.gen_vars)), "none", "none")]

    def may_raise(self, node, fact):
        if isinstance(node, ast.Await):
            return list(self.tokens)
        if isinstance(node, ast.Yield):
            return ["Exception", CANCELLED, "BaseException"]  # the driver may throw anything in
        if isinstance(node, WithEnter) and node.is_async:
            ce = node.item.context_expr
            if isinstance(ce, ast.Call) and (dotted(ce.func) or "").split(".")[-1] == "aclosing":
                return []  # aclosing.__aenter__ only returns the generator
            return ["Exception", CANCELLED, "BaseException"]
        if isinstance(node, ast.Call):
            nm = _cname(node)
            if nm == "aclosing":
                return []
            if nm in ACTION_CTORS or nm in ("isinstance", "remove_traceback_frames_in_place", "client_is_closing", "is_closing", "nullcontext", "timeout", "isawaitable"):
                return []
            if self.cannot_raise(node):
                return []  # logging, pure predicates, the tables of sa/tables.py
            return ["Exception"]
        return []

    def _g(self, fact):
        return dict(fact[0])

    def _mk(self, gens, action, tmo):
        return (tuple(sorted(gens.items())), action, tmo)

    def _driver_target(self, call):
        """(generator var) driven by this call: action.asend(gen) / anext_without_asyncgen_hook(gen) / gen.aclose()"""
        nm = _cname(call)
        if nm in DRIVERS | {"anext_without_asyncgen_hook", "anext"} and call.args and isinstance(call.args[0], ast.Name) and call.args[0].id in self.gen_vars:
            return call.args[0].id
        return None

    def transfer(self, node, fact):
        gens, action, tmo = self._g(fact), fact[1], fact[2]
        c = call_of(node)
        # ---- Await atoms: drive / close
        if isinstance(node, ast.Await):
            if c is not None:
                nm = _cname(c)
                recv = dotted(c.func.value) if isinstance(c.func, ast.Attribute) else None
                if nm == "aclose" and recv in self.gen_vars:
                    gens[recv] = "closed"
                    return [self._mk(gens, action, tmo)]
                g = self._driver_target(c)
                if g is not None:
                    if gens.get(g) != "live":
                        self.viol.append(("C15.close", node, f"generator `{g}` is driven while it is {gens.get(g)} (after its close / before its creation)"))
                    if nm in DRIVERS and recv == self.action_var:
                        self.n_sends += 1
                        if action != "fresh":
                            self.viol.append(("C15.once", node, f"`{self.action_var}.asend()` with an action that is {('already forwarded (replayed)' if action == 'used' else 'undefined')}: a request would reach the handler twice / a stale one after a generator restart"))
                        action = "used"
                    return [self._mk(gens, action, tmo)]
                if nm == "next" and self.timeout_var and recv is not None and "receiver" in recv:
                    self.n_waits += 1
                    if not (c.args and isinstance(c.args[0], ast.Name) and c.args[0].id == self.timeout_var):
                        self.viol.append(("C15.next", node, "the wait for the next request is not given the timeout yielded by the handler generator"))
                    elif tmo != "fresh":
                        self.viol.append(("C15.next", node, f"the wait uses a timeout that is {tmo}: not the value most recently yielded by the current generator"))
                    tmo = "used"
                    return [self._mk(gens, action, tmo)]
            elif isinstance(node.value, ast.Name) and node.value.id in self.gen_vars:
                gens[node.value.id] = "closed"  # awaiting a coroutine hook consumes it
                return [self._mk(gens, action, tmo)]
            return [fact]
        if isinstance(node, ast.Call) and _cname(node) in ("timeout", "move_on_after") and self.timeout_var and node.args \
                and isinstance(node.args[0], ast.Name) and node.args[0].id == self.timeout_var:
            self.n_waits += 1
            if tmo != "fresh":
                self.viol.append(("C15.next", node, f"the wait uses a timeout that is {tmo}: not the value most recently yielded by the current generator"))
            return [self._mk(gens, action, "used")]
        if isinstance(node, ast.Yield):
            if self.timeout_var and isinstance(node.value, ast.Name) and node.value.id == self.timeout_var:
                self.n_waits += 1
                if tmo != "fresh":
                    self.viol.append(("C15.next", node, f"a timeout that is {tmo} is yielded upward: not the value most recently yielded by the current generator"))
                tmo = "used"
            return [self._mk(gens, action, tmo)]
        if isinstance(node, (ast.Assign, ast.AnnAssign)) and getattr(node, "value", None) is not None:
            tgts = node.targets if isinstance(node, ast.Assign) else [node.target]
            names = [t.id for t in tgts if isinstance(t, ast.Name)]
            v = node.value
            vc = v.value if isinstance(v, ast.Await) else v
            for nme in names:
                if nme in self.gen_vars and isinstance(vc, ast.Call) and not isinstance(v, ast.Await):
                    if gens.get(nme) == "live":
                        self.viol.append(("C15.close", node, f"generator `{nme}` is replaced while still live (never closed)"))
                    gens[nme] = "live"
                    if tmo != "none":
                        tmo = "stale"  # a timeout yielded by the previous generator does not govern the new one
                if nme == self.action_var:
                    is_def = isinstance(vc, ast.Call) and (_cname(vc) in ACTION_CTORS or _cname(vc) in ("next", "__parse_datagram") or "parse_datagram" in _cname(vc))
                    if is_def:
                        self.n_defs += 1
                        if action == "fresh":
                            self.viol.append(("C15.once", node, f"`{nme}` is overwritten before it was forwarded: a request / thrown error is dropped"))
                        action = "fresh"
                    elif isinstance(v, ast.Constant) and v.value is None:
                        if action == "fresh":
                            self.viol.append(("C15.once", node, f"`{nme}` is cleared before it was forwarded: a request / thrown error is dropped"))
                        action = "none"
                if nme == self.timeout_var and isinstance(v, ast.Await) and isinstance(vc, ast.Call):
                    g = self._driver_target(vc)
                    if g is not None and gens.get(g) == "live":
                        tmo = "fresh"
                    elif g is not None:
                        tmo = "stale"
            return [self._mk(gens, action, tmo)]
        if isinstance(node, ast.Delete):
            for t in node.targets:
                if isinstance(t, ast.Name) and t.id == self.action_var:
                    if action == "fresh":
                        self.viol.append(("C15.once", node, f"`{t.id}` is deleted before it was forwarded"))
                    action = "none"
            return [self._mk(gens, action, tmo)]
        return [fact]

    def with_exit(self, node, fact):
        # `async with contextlib.aclosing(gen):` awaits gen.aclose() on every exit of the block, like try/finally
        ce = node.item.context_expr
        if isinstance(ce, ast.Call) and (dotted(ce.func) or "").split(".")[-1] == "aclosing" and ce.args and isinstance(ce.args[0], ast.Name) and ce.args[0].id in self.gen_vars:
            gens = self._g(fact)
            gens[ce.args[0].id] = "closed"
            return [(node.kind, node.token, self._mk(gens, fact[1], fact[2]))]
        return [(node.kind, node.token, fact)]

    def raise_fact(self, node, fact, token):
        gens, action, tmo = self._g(fact), fact[1], fact[2]
        c = call_of(node)
        if isinstance(node, ast.Await) and c is not None:
            nm = _cname(c)
            recv = dotted(c.func.value) if isinstance(c.func, ast.Attribute) else None
            if nm == "aclose" and recv in self.gen_vars:
                gens[recv] = "closed"
            g = self._driver_target(c)
            if g is not None:
                if nm in DRIVERS and recv == self.action_var:
                    action = "used"
            return [self._mk(gens, action, tmo)]
        if isinstance(node, ast.Await) and isinstance(node.value, ast.Name) and node.value.id in self.gen_vars:
            gens[node.value.id] = "closed"  # the coroutine hook was started: it is consumed even if it fails
            return [self._mk(gens, action, tmo)]
        return [fact]


def _roles(fn):
    """(generator vars, action var, timeout var) discovered from how the names are used, not from their spelling"""
    gens, action, tmo = set(), None, None
    for n in own_nodes(fn.node):
        if isinstance(n, ast.Call):
            nm = _cname(n)
            if nm in DRIVERS | {"anext_without_asyncgen_hook", "anext"} and n.args and isinstance(n.args[0], ast.Name):
                gens.add(n.args[0].id)
                if nm in DRIVERS and isinstance(n.func, ast.Attribute) and isinstance(n.func.value, ast.Name):
                    action = n.func.value.id
            if nm == "aclose" and isinstance(n.func, ast.Attribute) and isinstance(n.func.value, ast.Name):
                gens.add(n.func.value.id)
    for n in own_nodes(fn.node):
        if isinstance(n, (ast.Assign, ast.AnnAssign)) and isinstance(getattr(n, "value", None), ast.Await) and isinstance(n.value.value, ast.Call):
            c = n.value.value
            if _cname(c) in DRIVERS | {"anext_without_asyncgen_hook", "anext"} and c.args and isinstance(c.args[0], ast.Name) and c.args[0].id in gens:
                tg = n.targets if isinstance(n, ast.Assign) else [n.target]
                for t in tg:
                    if isinstance(t, ast.Name):
                        tmo = t.id
    return gens, action, tmo


def drive_instances(eng):
    out = _drive_functions(eng)
    res = []
    for fn, *_ in out:
        gens, action, tmo = _roles(fn)
        if not gens or action is None:
            raise AnalysisError(f"anchor vanished: generator driving shape in {fn.qualname}")
        res.append((fn, gens, action, tmo))
    return res


def _drive_functions(eng):
    db = eng.db
    out = []
    s = db.cls("lowlevel.api_async.servers.stream.AsyncStreamServer")
    cc = s.methods.get(mangle(s.name, "__client_coroutine")) or s.methods.get("__client_coroutine")
    out.append((cc, {"request_handler_generator"}, "action", "timeout"))
    misc = db.module("servers.misc")
    h = misc.functions["build_lowlevel_stream_server_handler"].nested["handler"]
    out.append((h, {"_on_connection_hook", "request_handler_generator"}, "action", "timeout"))
    hd = misc.functions["build_lowlevel_datagram_server_handler"].nested["handler"]
    out.append((hd, {"request_handler_generator"}, "action", "timeout"))
    d = db.cls("lowlevel.api_async.servers.datagram.AsyncDatagramServer")
    il = d.methods.get(mangle(d.name, "__client_coroutine_inner_loop")) or d.methods.get("__client_coroutine_inner_loop")
    out.append((il, {"request_handler_generator"}, "action", "timeout"))
    for f, *_ in out:
        if f is None:
            raise AnalysisError("anchor vanished: a generator-driving function")
    return out


def check_drive(eng, run):
    for fn, gens, action, tmo in drive_instances(eng):
        # generator parameters are live from the start (inner loop receives its generator)
        params = {a.arg for a in fn.params()}
        an = GenDrive(eng, gens, action, tmo)
        if gens & params:
            orig_init = an.initial
            an.initial = lambda f, gens=gens, params=params: [(tuple(sorted((g, "live" if g in params else "none") for g in gens)), "none", "none")]
        out = Interp(an, fn).run()
        # exits: no generator left live
        leaks = []
        for kind, tok, fmap in [("return", None, out.ret)] + [("raise", t, m) for t, m in out.exc.items()]:
            for fact, tr in fmap.items():
                for g, st in fact[0]:
                    if st == "live":
                        leaks.append((g, kind if tok is None else f"raise[{tok.split('.')[-1]}]", tr))
                if fact[1] == "fresh" and tok is None:
                    an.viol.append(("C15.once", _stmt_at(fn, tr[-1]) if tr else fn.node, f"the function returns with an action that was never forwarded"))
        seen = set()
        for g, label, tr in leaks:
            st = _stmt_at(fn, tr[-1]) if tr else fn.node
            if (g, norm_stmt(st)) in seen:
                continue
            seen.add((g, norm_stmt(st)))
            run.finding("C15.close", fn, st, f"exit {label} leaves generator `{g}` live: its aclose() is not awaited (the handler's finally blocks never run / run at garbage collection)", tr)
        by = {}
        for rule, node, msg in an.viol:
            by.setdefault(rule, []).append((node, msg))
        for rule, items in by.items():
            seen = set()
            for node, msg in items:
                st = node if isinstance(node, ast.stmt) else _stmt_at(fn, getattr(node, "lineno", fn.lineno))
                if norm_stmt(st) in seen:
                    continue
                seen.add(norm_stmt(st))
                run.finding(rule, fn, st, msg)
        if an.n_sends == 0 or an.n_defs == 0:
            raise AnalysisError(f"anchor vanished: action definitions / asend in {fn.qualname}")
        run.ob("C15.close", fn.short, not leaks and not by.get("C15.close"), generators=sorted(gens))
        run.ob("C15.once", fn.short, not by.get("C15.once"), action_defs=an.n_defs, asends=an.n_sends)
        run.ob("C15.next", fn.short, not by.get("C15.next"), waits=an.n_waits)
        if an.n_waits == 0:
            run.finding("C15.next", fn, fn.node, "the timeout yielded by the handler generator is never used for the next wait")


# ------------------------------------------------------------------------------------------ receivers
class RecvShape(RuleAnalysis):
    """drain-before-read for the server request receivers; gate-before-wait for the driving loops"""
    tokens = ("StopIteration", "Exception", CANCELLED)

    def __init__(self, engine):
        super().__init__(engine)
        self.viol = []
        self.reads = 0

    def initial(self, fn):
        return [False]

    def may_raise(self, node, fact):
        c = call_of(node)
        if c is not None and _cname(c) == "next":
            return ["StopIteration"]
        if isinstance(node, ast.Await):
            return ["Exception", CANCELLED]
        return []

    def transfer(self, node, fact):
        c = call_of(node)
        if c is not None and _cname(c) == "next" and isinstance(node, ast.Call):
            return [True]
        if c is not None and _cname(c) in ("recv", "recv_into") and isinstance(node, ast.Await):
            self.reads += 1
            if not fact:
                self.viol.append(node)
        return [fact]

    def raise_fact(self, node, fact, token):
        c = call_of(node)
        if c is not None and _cname(c) == "next" and isinstance(node, ast.Call):
            return [True]
        return [fact]


def check_receivers(eng, run):
    db = eng.db
    mod = db.module("lowlevel.api_async.servers.stream")
    facts = {}
    for cname in ("_RequestReceiver", "_BufferedRequestReceiver"):
        ci = mod.classes.get(cname)
        if ci is None:
            raise AnalysisError(f"anchor vanished: {cname}")
        fn = ci.methods["next"]
        an = RecvShape(eng)
        Interp(an, fn).run()
        ok_drain = not an.viol and an.reads > 0
        for v in an.viol[:1]:
            run.finding("C15.recv", fn, _stmt_at(fn, v.lineno), "the transport is read before the consumer was drained: a request that is already buffered is delayed behind a new read (or lost at EOF)")
        # every outcome is wrapped: only StopAsyncIteration leaves next()
        reg = SwallowRegistry(eng)

        def fault(node, a):
            return isinstance(node, (ast.Call, ast.Await)) and not a.in_handler()

        ca = Containment(eng, fault, reg)
        ca.precise_raise_tokens = True
        out = Interp(ca, fn).run()
        escaping = sorted(t for t, m in out.exc.items() if m and t != "StopAsyncIteration")
        # explicit raises: only StopAsyncIteration on the `else` of the outer try
        ok_wrap = not escaping
        if escaping:
            tr = next(iter(out.exc[escaping[0]].values()))
            run.finding("C15.recv", fn, _stmt_at(fn, tr[-1]) if tr else fn.node, f"{escaping[0].split('.')[-1]} can leave the request receiver instead of being returned as a ThrowAction: a parse error / transport error is raised in the server task rather than thrown into the handler at its position", tr)
        # break -> StopAsyncIteration: the try's else raises it
        outer = next((t for t in fn.node.body if isinstance(t, ast.Try)), None)
        after = fn.node.body[fn.node.body.index(outer) + 1:] if outer is not None else []
        handlers_leave = outer is not None and all(h.body and isinstance(h.body[-1], (ast.Return, ast.Raise)) for h in outer.handlers)
        ok_stop = outer is not None and (any(isinstance(s, ast.Raise) and "StopAsyncIteration" in ast.unparse(s) for s in outer.orelse) or
                                         (handlers_leave and any(isinstance(s, ast.Raise) and "StopAsyncIteration" in ast.unparse(s) for s in after))) and \
            any(isinstance(h.type, ast.Name) and h.type.id == "BaseException" and isinstance(h.body[-1], ast.Return) and "ThrowAction" in " ".join(ast.unparse(x) for x in h.body) for h in outer.handlers)
        if not ok_stop:
            run.finding("C15.recv", fn, outer or fn.node, "disconnect no longer ends the request stream with StopAsyncIteration / errors are no longer returned as ThrowAction")
        # shielded yield when a request was already buffered
        shield = [n for n in own_nodes(fn.node) if isinstance(n, ast.Await) and isinstance(n.value, ast.Call) and _cname(n.value) == "cancel_shielded_coro_yield"]
        plain = [n for n in own_nodes(fn.node) if isinstance(n, ast.Await) and isinstance(n.value, ast.Call) and _cname(n.value) in ("coro_yield", "sleep")]
        ok_shield = bool(shield) and not plain
        if not ok_shield:
            run.finding("C15.recv", fn, (plain or [fn.node])[0] if plain else fn.node, "the checkpoint taken when a request was already buffered is not cancel-shielded")
        run.ob("C15.recv", f"{fn.short}", ok_drain and ok_wrap and ok_stop and ok_shield, drain_first=ok_drain, wrapped=ok_wrap, stop_on_disconnect=ok_stop, shielded_yield=ok_shield)
        facts[cname] = (ok_drain, ok_wrap, ok_stop, ok_shield, an.reads)
    same = len(set(facts.values())) == 1
    if not same:
        fn = mod.classes["_BufferedRequestReceiver"].methods["next"]
        run.finding("C15.recv", fn, fn.node, f"the two request receivers disagree: {facts}")
    run.ob("C15.recv", "receivers-agree", same, facts={k: list(v) for k, v in facts.items()})


class Gate(RuleAnalysis):
    tokens = ("Exception",)

    def __init__(self, engine, wait_pred):
        super().__init__(engine)
        self.wait_pred = wait_pred
        self.viol = []
        self.waits = 0

    def initial(self, fn):
        return [False]

    def may_raise(self, node, fact):
        return []

    def transfer(self, node, fact):
        if isinstance(node, TestAtom) and "is_closing" in ast.unparse(node.test):
            return [True]
        if self.wait_pred(node):
            self.waits += 1
            if not fact:
                self.viol.append(node)
            return [False]
        return [fact]


def check_conn(eng, run):
    db = eng.db
    s = db.cls("lowlevel.api_async.servers.stream.AsyncStreamServer")
    cc = s.methods.get(mangle(s.name, "__client_coroutine")) or s.methods.get("__client_coroutine")
    an = Gate(eng, lambda n: isinstance(n, ast.Await) and call_of(n) is not None and _cname(call_of(n)) == "next" and "request_receiver" in ast.unparse(call_of(n).func))
    Interp(an, cc).run()
    ok = an.waits > 0 and not an.viol
    for v in an.viol[:1]:
        run.finding("C15.conn", cc, _stmt_at(cc, v.lineno), "a new request is awaited without re-testing transport.is_closing(): a handler that closed the client still gets further requests")
    if an.waits == 0:
        raise AnalysisError("anchor vanished: request_receiver.next in __client_coroutine")
    run.ob("C15.conn", f"{cc.short}:is_closing-before-each-wait", ok)
    h = db.module("servers.misc").functions["build_lowlevel_stream_server_handler"].nested["handler"]
    an = Gate(eng, lambda n: isinstance(n, ast.Call) and _cname(n) in ("new_request_handler", "handle"))
    Interp(an, h).run()
    ok = an.waits > 0 and not an.viol
    for v in an.viol[:1]:
        run.finding("C15.conn", h, _stmt_at(h, v.lineno), "a new handle() generator is created without re-testing client.is_closing()")
    run.ob("C15.conn", f"{h.short}:is_closing-before-each-generator", ok)

    # the connection hook finishing early (before its first yield, or after consuming some requests) does not end the
    # connection: every normal return of the generator lies after the request phase was set up (disconnection hook
    # registered) - except the `initializer yielded None` exit
    class EarlyReturn(RuleAnalysis):
        tokens = ("StopAsyncIteration", "Exception")

        def __init__(self, e):
            super().__init__(e)
            self.viol = []

        def initial(self, f):
            return [frozenset()]

        def may_raise(self, node, fact):
            if isinstance(node, ast.Await):
                return list(self.tokens)
            return []

        def transfer(self, node, fact):
            c = call_of(node)
            if isinstance(node, ast.Call) and _cname(c) == "push_async_callback":
                return [fact | {"reg"}]
            if isinstance(node, ast.Return) and "reg" not in fact and "none-client" not in fact:
                self.viol.append(node)
            return [fact]

        def branch(self, test, fact):
            if isinstance(test, ast.Compare) and isinstance(test.ops[0], ast.Is) and isinstance(test.comparators[0], ast.Constant) and test.comparators[0].value is None and dotted(test.left) in client_vars:
                return [fact | {"none-client"}], [fact]
            return [fact], [fact]

    client_vars = {it.optional_vars.id for w in own_nodes(h.node) if isinstance(w, ast.AsyncWith) for it in w.items[:1] if isinstance(it.optional_vars, ast.Name)}
    an = EarlyReturn(eng)
    Interp(an, h).run()
    for v in an.viol[:1]:
        run.finding("C15.conn", h, v, "the handler generator returns before the request phase was set up (on_connection finished early): the connection is closed right after on_connection(), no request reaches handle() and on_disconnection() is skipped")
    run.ob("C15.conn", f"{h.short}:no-return-before-request-phase", not an.viol)


def check_own_closing_flag(eng, run):
    """the request loop runs `while not transport.is_closing()`: for the asyncio stream transport that answer must be the adapter's own
    flag (set by its aclose()), not the state of the asyncio transport underneath - that one turns true as soon as the socket
    fails (RST), while complete requests are still buffered and must be delivered first"""
    n = 0
    for ci in eng.db.classes.values():
        if not (ci.module.name.endswith("_asyncio.stream.socket") or ci.module.name.endswith("servers.async_tcp")):  # (and the server-side client API: the restart loop of the handler asks it)
            continue
        fn = ci.find_method("is_closing")
        if fn is None or ci.find_method("aclose") is None or fn.cls is not ci:
            continue
        n += 1
        rets = [r for r in own_nodes(fn.node) if isinstance(r, ast.Return) and r.value is not None]
        calls = [c for r in rets for c in ast.walk(r.value) if isinstance(c, ast.Call)]
        flags = {a.attr for r in rets for a in ast.walk(r.value) if isinstance(a, ast.Attribute) and dotted(a.value) == fn.self_name}
        # the flags are raised only by the class' own close paths
        setters = {m.name for m in ci.methods.values() for st in own_nodes(m.node) if isinstance(st, (ast.Assign, ast.AnnAssign)) and isinstance(getattr(st, "value", None), ast.Constant) and st.value.value is True
                   for t in (st.targets if isinstance(st, ast.Assign) else [st.target]) if isinstance(t, ast.Attribute) and t.attr in flags}
        from sa.norm import referenced_only_from
        close_paths = {"aclose", "close", "__del__", "abort", "_on_disconnect"}
        ok = bool(rets) and not calls and bool(flags) and all(referenced_only_from(ci, sname, close_paths) for sname in setters)  # (a private step of aclose() counts as aclose())
        if not ok:
            run.finding("C15.conn", fn, rets[0] if rets else fn.node, "is_closing() of the asyncio stream transport no longer answers from the adapter's own flag alone (it consults the asyncio transport / a flag raised "
                        "outside the close paths): after a connection reset the request loop stops although complete requests are still buffered - they never reach the handler")
        run.ob("C15.conn", f"{ci.name}.is_closing:own-flag-only", ok, flags=sorted(flags), raised_in=sorted(setters))
        # ... and aclose() raises it on every path (not only when the transport underneath is still open: after a reset the loop
        # would otherwise keep delivering buffered requests to a handler that has closed its client)
        ac = ci.methods.get("aclose")
        if ac is not None and flags and not isinstance(ac.node, ast.Lambda):
            from sa.analyses.must import exits_without

            def _raises_flag(x):
                return isinstance(x, (ast.Assign, ast.AnnAssign)) and isinstance(getattr(x, "value", None), ast.Constant) and x.value.value is True \
                    and any(isinstance(t, ast.Attribute) and t.attr in flags for t in (x.targets if isinstance(x, ast.Assign) else [x.target]))
            try:
                bad2, sites2 = exits_without(eng, ac, _raises_flag, raising=lambda x: False, kinds=("ret",))
            except Exception:  # noqa: BLE001
                bad2, sites2 = [], 1
            if bad2 and sites2:
                run.finding("C15.conn", ac, ac.node, f"aclose() can return without having raised the closing flag {sorted(flags)}: is_closing() stays False after the handler closed its client, "
                            "and the request loop goes on delivering the requests that are still buffered")
            run.ob("C15.conn", f"{ci.name}.aclose:flag-raised-on-every-path", not (bad2 and sites2))
    run.floor("C15.conn asyncio stream transports with their own closing flag", n, 1)


def check_shared(eng, run):
    """(a) the restart loop of the high-level handler stops on client.is_closing(): the server-side client API stores its closing flag
    before it closes the connection, on the graceful and on the cancelled path alike (close-path typestate of C14);
    (b) a yielded timeout that expires must leave the buffered receive path usable: the caller's buffer lent to the event loop is
    withdrawn on every exit (lend typestate of C10)."""
    from rules import c10, c14
    from sa.analyses.closing import CloserRegistry
    from sa.report import RuleAlias

    api = eng.db.module("servers.async_tcp").classes.get("_ConnectedClientAPI")
    fn = api.methods.get("aclose") if api else None
    if fn is None:
        raise AnalysisError("anchor vanished: _ConnectedClientAPI.aclose")
    c14.check_close_path(eng, RuleAlias(run, "C15.conn"), CloserRegistry(eng), fn)
    c10.check_lend(eng, run, rule="C15.recv", cancel_arm=False)
    c10.check_withdraw(eng, run, rule="C15.recv")
    # the asyncio transport under both receive paths of the server: received bytes are neither lost nor replaced on their way out of
    # the protocol's internal buffer (bounded raw-buffer reads, byte conservation, read water marks within the buffer: rules of C10/C03)
    from rules import c03
    c10.check_raw_buffer_reads(eng, run, rule="C15.recv")
    c10.check_conservation(eng, run, rule="C15.recv")
    c03.check_water_marks(eng, run, rule="C15.recv")
    # the framing helpers the buffered request receiver drives: searches and reads stay within the received part of the
    # pre-allocated buffer (a stale separator from an earlier, longer request otherwise ends the next request early)
    from rules import c01, c02
    c02.check_bound(eng, RuleAlias(run, "C15.recv"))
    c01.check_scan(eng, RuleAlias(run, "C15.recv"))


def run(eng, run):
    from sa.anchors import verify as _verify_anchor_names
    _verify_anchor_names(eng, run)
    run.not_decided += NOT_DECIDED
    run.attempt(check_drive, eng, run)
    run.attempt(check_receivers, eng, run)
    run.attempt(check_conn, eng, run)
    run.attempt(check_shared, eng, run)
    run.attempt(check_own_closing_flag, eng, run)
    # what the request receivers drive: after a parse error the consumer holds no dead parser (the next request would be answered by a
    # TypeError and the following ones dropped); the JSON framer skips inter-document whitespace (a chunk boundary before a newline must
    # not produce a spurious error between two requests); a malformed request surfaces as a parse error, not as a crash of the consumer
    from rules import c01, c06, c10
    from sa.analyses.escape import EscapeSummaries
    from sa.report import RuleAlias
    run.attempt(c10.check_parser, eng, run, rule="C15.recv", dead_only=True)
    run.attempt(c01.check_ws, eng, RuleAlias(run, "C15.recv"))
    run.attempt(c06.check_escape, eng, RuleAlias(run, "C15.recv"), EscapeSummaries(eng))
    from rules import c03 as _c03h
    from sa.report import RuleAlias as _RA15h
    run.attempt(_c03h.check_half_close, eng, _RA15h(run, "C15.recv"))  # the peer's FIN must not make asyncio close the transport: requests already buffered are still owed to the handler
    run.end_of_rules()


# ---------------------------------------------------------------------------------------------- self-test corpus
from sa.mutate import (Variant, delete_stmt, find_handler, find_stmt, insert_after, insert_before, rename_local, replace_expr,  # noqa: E402
                       replace_stmt, stmt_has, stmt_is)

_CC = "lowlevel.api_async.servers.stream:AsyncStreamServer.__client_coroutine"
_H = "servers.misc:build_lowlevel_stream_server_handler.<locals>.handler"
_HD = "servers.misc:build_lowlevel_datagram_server_handler.<locals>.handler"
_IL = "lowlevel.api_async.servers.datagram:AsyncDatagramServer.__client_coroutine_inner_loop"
_RR = "lowlevel.api_async.servers.stream:_RequestReceiver.next"
_BRR = "lowlevel.api_async.servers.stream:_BufferedRequestReceiver.next"


def _drop_finally_aclose(nth):
    def edit(fn):
        tries = [t for t in ast.walk(fn) if isinstance(t, ast.Try) and any("aclose" in ast.unparse(s) for s in t.finalbody)]
        tries.sort(key=lambda t: t.lineno)
        t = tries[nth]
        t.finalbody = [ast.parse("pass").body[0]]
    return edit


def _replay_action_after_restart(fn):
    # keep the last action across the generator restart: `finally: del action` removed and asend issued before the yield
    for t in ast.walk(fn):
        if isinstance(t, ast.Try):
            t.finalbody = [s for s in t.finalbody if "del action" not in ast.unparse(s)] or t.finalbody
    lst, i, st = find_stmt(fn, stmt_has("timeout = await anext_without_asyncgen_hook(request_handler_generator)"))
    lst[i] = ast.parse("timeout = await action.asend(request_handler_generator)").body[0]


MUTANTS = [
    Variant("client-coroutine-no-aclose", _CC, _drop_finally_aclose(0), "C15.close", why="the handler generator is not closed when the client disconnects"),
    Variant("handler-handle-gen-no-aclose", _H, _drop_finally_aclose(1), "C15.close"),
    Variant("handler-replay-action-after-restart", _H, _replay_action_after_restart, "C15.once",
            why="the request that ended the previous handle() generator is delivered again to the new one"),
    Variant("client-coroutine-constant-timeout", _CC, lambda fn: replace_expr(fn, "request_receiver.next(timeout)", "request_receiver.next(None)"), "C15",
            why="the yielded timeout is ignored"),
    Variant("inner-loop-timeout-not-updated", _IL, lambda fn: replace_stmt(fn, stmt_has("timeout = await action.asend(request_handler_generator)"), "await action.asend(request_handler_generator)", 1), "C15.next",
            why="the first yielded timeout governs every later wait"),
    Variant("receiver-raise-instead-of-throwaction", _RR, lambda fn: setattr(find_handler(fn, "BaseException"), "body", [ast.parse("raise").body[0]]), "C15.recv",
            why="a parse error kills the client task instead of being thrown into the handler"),
    Variant("receiver-unshielded-yield", _BRR, lambda fn: replace_expr(fn, "self.__backend.cancel_shielded_coro_yield()", "self.__backend.coro_yield()"), "C15.recv"),
    Variant("client-coroutine-no-closing-test", _CC, lambda fn: replace_expr(fn, "not transport.is_closing()", "True"), "C15.conn"),
    Variant("client-coroutine-action-dropped", _CC, lambda fn: insert_after(fn, stmt_has("action = await request_receiver.next(timeout)"), "action = await request_receiver.next(timeout)"), "C15.once",
            why="every second request is dropped"),
    Variant("dgram-handler-no-aclose", _HD, _drop_finally_aclose(0), "C15.close"),
]

MUTANTS.append(Variant("on-connection-early-stop-returns", _H,
                       lambda fn: setattr(next(h for t in ast.walk(fn) if isinstance(t, ast.Try) for h in t.handlers if ast.unparse(h.type) == "StopAsyncIteration" and isinstance(h.body[0], ast.Pass)), "body", [ast.parse("return").body[0]]),
                       "C15.conn", why="an on_connection generator that ends before its first yield closes the connection"))

BENIGN = [
    Variant("client-coroutine-rename-action", _CC, lambda fn: rename_local(fn, "action", "act"), why="local renamed (role variables are passed by name: see instances)"),
    Variant("handler-rename-timeout", _HD, lambda fn: rename_local(fn, "exc", "error"), why="handler variable renamed"),
    Variant("receiver-rename-data", _RR, lambda fn: rename_local(fn, "data", "chunk"), why="local renamed"),
]


_API = "servers.async_tcp:_ConnectedClientAPI.aclose"
_WFD = "lowlevel.api_async.backend._asyncio.stream.socket:StreamReaderBufferedProtocol._wait_for_data"


def _flag_after_try(fn):
    for n in list(ast.walk(fn)):
        for fld in ("body", "orelse", "finalbody"):
            blk = getattr(n, fld, None)
            if isinstance(blk, list):
                blk[:] = [st for st in blk if not (isinstance(st, ast.Assign) and "__closing" in ast.unparse(st))]
    fn.body.append(ast.parse("self.__closing = True").body[0])


MUTANTS += [
    Variant("client-api-closing-flag-set-after-the-close", _API, _flag_after_try, "C15.conn",
            why="a forced close leaves is_closing() False: handle() is restarted on a closed connection (seed C15-5)"),
    Variant("recv-into-buffer-not-withdrawn-after-timeout", _WFD,
            lambda fn: replace_stmt(fn, stmt_is("try:"), "nbytes_written_in_external_buffer = await self.__read_waiter\nself.__external_buffer_view = None", 1), "C15.recv",
            why="after an expired yielded timeout the loop is handed a released buffer: the connection is dropped (seed C15-6)"),
]
