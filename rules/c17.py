"""C17 - one client's failure (handler or connection set-up) never affects the others (DESIGN.md section 3, C17).

Decided: containment structure - around every invocation of user hooks and around every per-connection
set-up step there is a frame that must-catch every `Exception` token and does not re-raise.
Trusted: task-group semantics (an exception that does not leave a task cannot cancel its siblings).
"""
from __future__ import annotations

import ast

from sa.analyses.contain import EXC_TOKENS, TOKENS, Containment, SwallowRegistry
from sa.db import AnalysisError, ClassInfo, FunctionInfo, dotted, mangle, norm_stmt, own_nodes
from sa.exc import CANCELLED
from sa.flow import Interp, WithEnter, call_of

CLAIM = {
    "text": "Decides the containment structure: the per-client initializer context managers of the TCP and UDP servers swallow every Exception-class token thrown at their yield (summary computed from their own bodies: except*/except Exception without re-raise for TCP, for UDP every path of __aexit__ with the argument bound to an Exception or a group of Exceptions ends in `return True`, isinstance/match/`is None` tests decided from that abstract kind); in the request-handler driving generators every call, await and yield other than the initializer itself lies inside that context, so no Exception raised by any user hook (on_connection, handle before/after any yield or while handling a thrown error, on_disconnection) or thrown in by the server can leave the per-client task; the disconnection hook is registered before the request loop on a stack inside the catch-all; per-connection set-up tasks (accepted-socket task, TLS handshake wrapper) close the socket and re-raise only non-Exception BaseExceptions; the handshake error handler is total and never raises; accept errors with ignorable/capacity errnos do not leave the accept loop. Also decided: no input-dependent exception class can leave the two request receivers or the stream server's per-client task (escape analysis with generator objects followed through receivers and attributes); every exit of the UDP per-client task has taken at least one datagram off the client's queue; socket-level shutdown calls in close paths are protected by an arm that catches every OSError. In except arms of the server / listener modules an attribute of the caught exception is read only where every caught class has it or after an isinstance() narrowing that is evaluated first; the functions on the exit path of the UDP per-client catch-all contain no destructuring of a run-time value; keyword arguments configuring the per-connection timeouts are not crossed over. Round 4: every builder of the actions sent to / thrown into a handler generator (found by what it returns) is total - nothing input-dependent and no explicit raise other than StopAsyncIteration leaves it. Round 5: the errno tables consulted by the accept loop hold errno numbers (the walrus binds the looked-up value, not a comparison); keyword arguments are neither crossed nor duplicated; the UDP per-client state machine rules of C16.single run here as well. Round 6: no serializer class keeps a stream reader / byte buffer / queue instance on self and no incremental (generator) method stores to self; the listener's error callback cannot raise one peer's socket error in another client's send. Round 7: the close path of the TLS transport (C14 typestate) runs here too: a peer that never answers close_notify does not keep the failing client's connection open. Round 10: on the exit path of the UDP per-client catch-all the exception-group API (.exceptions / .split / .subgroup / .derive) is used only on values that can be groups (not on a parameter declared with a non-group member, not on the subject of a `case <OtherClass>()` arm, and no such subject is passed to a parameter declared as a group).",
    "note": "Trusted: task-group semantics; calls made *inside* except/finally arms of the set-up tasks (logging, forceful close) and the pre-yield part of the initializers do not raise (listed in the evidence as residual assumptions). Not decided: liveness (that healthy clients are answered); behaviour for non-Exception BaseExceptions (by design they stop the server).",
    "technique": "exception-containment analysis by abstract interpretation over an exception-aware structured CFG with computed context-manager swallow summaries and an exception-class lattice; isinstance() tests on the caught exception are decided from the handler's token",
}
NOT_DECIDED = ["that other clients keep being *served* in time (liveness)", "non-Exception BaseExceptions (stop the server by design)"]


def _stmt_at(fn, line):
    best = None
    for n in own_nodes(fn.node):
        if isinstance(n, ast.stmt) and getattr(n, "lineno", -1) == line:
            if best is None or not isinstance(n, (ast.Try, ast.With, ast.AsyncWith, ast.For, ast.If, ast.While)):
                best = n
    return best if best is not None else fn.node


def _exits_with_exception(out):
    bad = []
    for tok in EXC_TOKENS:
        for fact, tr in out.exc.get(tok, {}).items():
            bad.append((tok, tr))
    return bad


def initializer_bindings(eng, builder_name):
    """(server class, initializer FunctionInfo) for every call of the handler builder."""
    out = []
    for fn in eng.db.all_functions():
        for n in own_nodes(fn.node):
            if isinstance(n, ast.Call) and isinstance(n.func, ast.Name) and n.func.id == builder_name and n.args:
                a = n.args[0]
                if isinstance(a, ast.Attribute) and isinstance(a.value, ast.Name) and a.value.id == fn.self_name and fn.cls is not None:
                    m = fn.cls.find_method(mangle(fn.cls.name, a.attr)) or fn.cls.find_method(a.attr)
                    if m is not None:
                        out.append((fn.cls, m))
    return out


def check_hooks(eng, run, reg):
    db = eng.db
    misc = db.module("servers.misc")
    n_sites = 0
    for builder_name in ("build_lowlevel_stream_server_handler", "build_lowlevel_datagram_server_handler"):
        builder = misc.functions.get(builder_name)
        if builder is None:
            raise AnalysisError(f"anchor vanished: {builder_name}")
        handler = builder.nested.get("handler")
        if handler is None:
            raise AnalysisError(f"anchor vanished: {builder_name}.<locals>.handler")
        binds = initializer_bindings(eng, builder_name)
        run.floor(f"callers of {builder_name}", len(binds), 1)
        init_param = builder.params()[0].arg
        for srv_cls, init in binds:
            if init.has_decorator("contextmanager", "asynccontextmanager"):
                sw = reg.swallows_fn(init)
            else:
                sw = reg.swallows_returned(init)
            ok_sw = set(EXC_TOKENS) <= set(sw)
            if not ok_sw:
                run.finding("C17.hook", init, init.node, f"the per-client initializer of {srv_cls.name} does not swallow every Exception thrown at its yield (swallows {sorted(t.split('.')[-1] for t in sw)}): a failing request-handler hook leaves the client task and takes the whole server down")
            run.ob("C17.hook", f"{srv_cls.name}:initializer-swallows-Exception", ok_sw, initializer=init.short, swallows=sorted(t.split(".")[-1] for t in sw))

            def fault(node, an, init_param=init_param):
                if an.in_handler():
                    return False
                if isinstance(node, ast.Call) and isinstance(node.func, ast.Name) and node.func.id == init_param:
                    return False  # creating the initializer context manager
                if isinstance(node, WithEnter) and isinstance(node.item.context_expr, ast.Call) and isinstance(node.item.context_expr.func, ast.Name) \
                        and node.item.context_expr.func.id == init_param:
                    return False
                if isinstance(node, ast.Call) and isinstance(node.func, ast.Name) and node.func.id in ("isinstance", "SendAction", "ThrowAction"):
                    return False
                return isinstance(node, (ast.Call, ast.Await, ast.Yield))

            an = Containment(eng, fault, reg, bound_cms={init_param: sw})
            out = Interp(an, handler).run()
            bad = _exits_with_exception(out)
            seen = set()
            for tok, tr in bad:
                st = _stmt_at(handler, tr[-1]) if tr else handler.node
                if norm_stmt(st) in seen:
                    continue
                seen.add(norm_stmt(st))
                run.finding("C17.hook", handler, st, f"an Exception raised here (user hook / thrown-in error) is not inside the per-client catch-all of {srv_cls.name}: it leaves the client task and cancels every other client", tr)
            n_sites += len(an.fault_sites)
            run.ob("C17.hook", f"{handler.short}[{srv_cls.name}]:all-hook-sites-contained", not bad, fault_sites=len(an.fault_sites))
        # the "initialisation failed silently" protocol: `yield None` is only sound if the body returns at once
        w = next((x for x in own_nodes(handler.node) if isinstance(x, ast.AsyncWith)), None)
        ok_none = False
        if w is not None and isinstance(w.items[0].optional_vars, ast.Name):
            var = w.items[0].optional_vars.id
            for st in w.body:
                if isinstance(st, ast.Delete):
                    continue
                ok_none = isinstance(st, ast.If) and ast.unparse(st.test) == f"{var} is None" and len(st.body) == 1 and isinstance(st.body[0], ast.Return)
                break
        if not ok_none:
            run.finding("C17.hook", handler, w if w is not None else handler.node, "the generator no longer returns immediately when the initializer yields None: hooks would run outside the catch-all that is only entered for a real client")
        run.ob("C17.hook", f"{handler.short}:none-client-returns-at-once", ok_none)
        # the named hooks are really invoked from this generator (vacuity guard)
        scope_nodes = list(ast.walk(handler.node))
        for nm in {x.id for x in scope_nodes if isinstance(x, ast.Name) and x.id.startswith("_")}:
            g = misc.functions.get(nm)  # a private module-level coroutine the generator registers / calls (an extracted closure)
            if g is not None and not isinstance(g.node, ast.Lambda):
                scope_nodes += list(ast.walk(g.node))
        hooks = {c.func.attr for c in scope_nodes if isinstance(c, ast.Call) and isinstance(c.func, ast.Attribute)} & {"on_connection", "on_disconnection", "handle"}
        alias_handle = any(isinstance(n, ast.Assign) and isinstance(n.value, ast.Attribute) and n.value.attr == "handle" for n in ast.walk(handler.node))
        want = {"on_connection", "on_disconnection"} if "stream" in builder_name else set()
        if not (want <= hooks) or not ("handle" in hooks or alias_handle):
            raise AnalysisError(f"anchor vanished: hook invocations in {handler.qualname}")
    run.floor("C17.hook fault sites analysed", n_sites, 18)


def check_disc(eng, run):
    misc = eng.db.module("servers.misc")
    handler = misc.functions["build_lowlevel_stream_server_handler"].nested["handler"]
    # registration of the disconnection callback
    regs = [n for n in own_nodes(handler.node) if isinstance(n, ast.Call) and isinstance(n.func, ast.Attribute) and n.func.attr == "push_async_callback"
            and n.args and isinstance(n.args[0], ast.Name)]
    cb = None
    for r in regs:
        # the callback: a closure of the generator, or a private module-level coroutine given its arguments at registration
        f = handler.nested.get(r.args[0].id) or (misc.functions.get(r.args[0].id) if r.args[0].id.startswith("_") else None)
        if f is not None and any(isinstance(c, ast.Call) and isinstance(c.func, ast.Attribute) and c.func.attr == "on_disconnection" for c in ast.walk(f.node)):
            cb = (r, f)
    if cb is None:
        run.finding("C17.disc", handler, handler.node, "the disconnection hook is no longer registered as an exit callback of the per-client generator")
        run.ob("C17.disc", f"{handler.short}:registered", False)
        return
    reg_call, cbf = cb
    stack = dotted(reg_call.func.value)
    # the stack is a with-item that comes after the initializer in the same `async with`
    ok_stack = False
    for w in own_nodes(handler.node):
        if isinstance(w, ast.AsyncWith):
            names = [it.optional_vars.id if isinstance(it.optional_vars, ast.Name) else None for it in w.items]
            if stack in names and names.index(stack) > 0:
                ok_stack = True
    if not ok_stack:
        run.finding("C17.disc", handler, reg_call, "the disconnection callback is registered on a stack that is not nested inside the per-client catch-all: a failing hook would skip the connection close or escape the task")
    run.ob("C17.disc", f"{handler.short}:callback-stack-inside-initializer", ok_stack, stack=stack)

    # registered before the first request-handling step: typestate
    class Reg(Containment):
        def __init__(self, eng):
            super().__init__(eng, lambda n, a: False, SwallowRegistry(eng))
            self.late = []

        def transfer(self, node, fact):
            c = call_of(node)
            if c is reg_call:
                return [fact | {"reg"}]
            nm = (c.func.attr if isinstance(c.func, ast.Attribute) else getattr(c.func, "id", "")) if c is not None else ""
            if nm in ("handle", "new_request_handler") and "reg" not in fact:
                self.late.append(node)
            return [fact]

    an = Reg(eng)
    Interp(an, handler).run()
    if an.late:
        run.finding("C17.disc", handler, _stmt_at(handler, an.late[0].lineno), "request handling starts before the disconnection hook is registered: a failure in handle() would skip on_disconnection")
    run.ob("C17.disc", f"{handler.short}:registered-before-request-loop", not an.late)
    # on_connection precedes the registration (the hook only runs if on_connection succeeded)


def check_setup(eng, run, reg):
    db = eng.db
    serve = db.fn("lowlevel.api_async.backend._asyncio.stream.listener:ListenerSocketAdapter.serve")
    cct = next((g for g in serve.nested.values() if g.is_async and g.params() and "socket" in g.params()[0].arg), None)
    tserve = db.fn("lowlevel.api_async.transports.tls:AsyncTLSListener.serve")
    thw = next((g for g in tserve.nested.values() if g.is_async), None)
    if cct is None or thw is None:
        raise AnalysisError("anchor vanished: per-connection set-up tasks")
    for root, outer in ((cct, serve), (thw, tserve)):
        outer_params = {a.arg for a in outer.params()}

        def fault(node, an, outer_params=outer_params):
            if an.in_handler():
                return False
            c = call_of(node)
            if c is not None:
                nm = c.func.attr if isinstance(c.func, ast.Attribute) else getattr(c.func, "id", "")
                if nm in ("start_soon",):
                    return False  # hands the connection to the next layer (its containment is its own obligation)
                if isinstance(c.func, ast.Name) and c.func.id in outer_params:
                    return False
            return isinstance(node, (ast.Call, ast.Await))

        an = Containment(eng, fault, reg)
        out = Interp(an, root).run()
        bad = _exits_with_exception(out)
        for tok, tr in bad[:1]:
            run.finding("C17.setup", root, _stmt_at(root, tr[-1]) if tr else root.node, f"a connection set-up failure ({tok}) can leave the per-connection task: one client that resets or fails its handshake right after accept stops the server", tr)
        run.ob("C17.setup", f"{root.short}:no-Exception-escapes", not bad, fault_sites=len(an.fault_sites))
        if not an.fault_sites:
            raise AnalysisError(f"anchor vanished: no set-up step found in {root.qualname}")
    # TLS handshake error handler: total, never raises
    srv = db.cls("servers.async_tcp.AsyncTCPNetworkServer")
    h = srv.methods.get(mangle(srv.name, "__client_tls_handshake_error_handler")) or srv.methods.get("__client_tls_handshake_error_handler")
    if h is None:
        raise AnalysisError("anchor vanished: __client_tls_handshake_error_handler")
    raises = [n for n in own_nodes(h.node) if isinstance(n, ast.Raise)]
    matches = [n for n in own_nodes(h.node) if isinstance(n, ast.Match)]
    total = all(any(isinstance(c.pattern, ast.MatchAs) and c.pattern.pattern is None and c.guard is None for c in m.cases) for m in matches)
    ok = not raises and total
    if not ok:
        run.finding("C17.setup", h, raises[0] if raises else h.node, "the TLS handshake error handler can raise / is not total: a failed handshake of one client propagates")
    run.ob("C17.setup", f"{h.short}:total-no-raise", ok)
    # the user-supplied handshake_error_handler runs under its own catch-all
    def _is_own_method(v):  # `self.__default_handshake_error_handler`: a method of the listener, not the user's callback
        if isinstance(v, ast.Attribute) and isinstance(v.value, ast.Name) and thw.cls is not None:
            return (thw.cls.find_method(mangle(thw.cls.name, v.attr)) or thw.cls.find_method(v.attr)) is not None
        return False

    user_cb = {t.id for n in own_nodes(thw.node) if isinstance(n, ast.Assign) and "handshake_error_handler" in ast.unparse(n.value) and not _is_own_method(n.value)
               for t in n.targets if isinstance(t, ast.Name)} | {"handshake_error_handler"}
    calls = [n for n in own_nodes(thw.node) if isinstance(n, ast.Call) and isinstance(n.func, ast.Name) and n.func.id in user_cb]
    ok = bool(calls)
    for c in calls:
        inside = False
        for t in [x for x in own_nodes(thw.node) if isinstance(x, ast.Try)]:
            if any(c in list(ast.walk(b)) for b in t.body):
                for hd in t.handlers:
                    names = eng.lattice.handler_classes(thw, hd.type)
                    if eng.lattice.match(names, "Exception", TOKENS) == "must" and not any(isinstance(x, ast.Raise) for x in ast.walk(hd)):
                        inside = True
        ok = ok and inside
    if not ok:
        run.finding("C17.setup", thw, calls[0] if calls else thw.node, "the user's handshake_error_handler is called outside a catch-all: an exception in it leaves the per-connection task")
    run.ob("C17.setup", f"{thw.short}:user-error-handler-contained", ok)
    # accept loop: ignorable / capacity errnos do not leave raw_accept
    ra = db.fn("lowlevel.api_async.backend._asyncio.stream.listener:ListenerSocketAdapter.raw_accept")
    ok = False
    for t in [x for x in own_nodes(ra.node) if isinstance(x, ast.Try)]:
        for hd in t.handlers:
            if hd.type is not None and ast.unparse(hd.type) == "OSError":
                src = ast.unparse(hd)
                rs = [r for r in ast.walk(hd) if isinstance(r, ast.Raise) and r.exc is None]
                guarded = all(_raise_guarded(hd, r) for r in rs)
                ok = "ACCEPT_CAPACITY_ERRNOS" in src and "IGNORABLE_ACCEPT_ERRNOS" in src and guarded and bool(rs)
    if not ok:
        run.finding("C17.setup", ra, ra.node, "raw_accept() no longer filters ignorable / capacity errnos: one aborted connection in the backlog ends the accept loop")
    run.ob("C17.setup", f"{ra.short}:errno-filter", ok)


def _raise_guarded(handler, r) -> bool:
    """the bare `raise` sits under an `exc.errno not in IGNORABLE_ACCEPT_ERRNOS`-style test"""
    for n in ast.walk(handler):
        if isinstance(n, ast.If):
            def has(stmts):
                return any(r in list(ast.walk(s)) for s in stmts)
            if has(n.orelse) or has(n.body):
                chain = n
                while True:
                    if has(chain.body) and "errno" in ast.unparse(chain.test):
                        return True
                    if len(chain.orelse) == 1 and isinstance(chain.orelse[0], ast.If):
                        chain = chain.orelse[0]
                        continue
                    break
    return False


FAILABLE_ATTRS = {"peername": "getpeername() fails on a connection that was reset between accept() and the start of the client task"}


def check_errno_tables(eng, run):
    """the errno tables the accept loop consults (`*_ERRNOS` in lowlevel.constants) really hold errno *numbers*: in the comprehension that
    builds them, the walrus binds the looked-up errno itself (`(e := getattr(errno, name, None)) is not None`), not the result of the
    comparison - `e := getattr(...) is not None` makes every element True, the table collapses to {1} and every other accept error
    leaves the accept loop and stops the server"""
    m = eng.db.module("lowlevel.constants")
    n = 0
    for st in m.tree.body:
        tgt = st.target if isinstance(st, ast.AnnAssign) else (st.targets[0] if isinstance(st, ast.Assign) and len(st.targets) == 1 else None)
        if not (isinstance(tgt, ast.Name) and tgt.id.endswith("_ERRNOS")) or getattr(st, "value", None) is None:
            continue
        n += 1
        bad = []
        for comp in [x for x in ast.walk(st.value) if isinstance(x, (ast.SetComp, ast.ListComp, ast.GeneratorExp))]:
            elt_names = {x.id for x in ast.walk(comp.elt) if isinstance(x, ast.Name)}
            for w in [x for x in ast.walk(comp) if isinstance(x, ast.NamedExpr) and x.target.id in elt_names]:
                if isinstance(w.value, (ast.Compare, ast.BoolOp)) or (isinstance(w.value, ast.UnaryOp) and isinstance(w.value.op, ast.Not)):
                    bad.append(w)
        for w in bad[:1]:
            run.finding("C17.setup", m.relpath, f"{tgt.id} = ...", f"the elements of {tgt.id} are the truth values of `{ast.unparse(w.value)[:60]}`, not errno numbers: the table is {{True}} (= EPERM only), "
                        "so any other per-connection accept error is re-raised by the accept loop and stops the server for every client")
        run.ob("C17.setup", f"constants.{tgt.id}:holds-errno-numbers", not bad)
    run.floor("C17.setup errno tables", n, 2)


def check_failable_lookups(eng, run):
    """`X.extra(<attr>)` without a default raises TypedAttributeLookupError (a LookupError) when the attribute's getter fails.
    In per-connection set-up code that runs *before* the per-client catch-all is entered, a lookup of an attribute whose
    getter can fail at run time must pass a default (or sit under a handler that catches LookupError/Exception)."""
    db = eng.db
    n = 0
    srv = db.cls("servers.async_tcp.AsyncTCPNetworkServer")
    init = srv.methods.get("__client_initializer")
    if init is None:
        raise AnalysisError("anchor vanished: AsyncTCPNetworkServer.__client_initializer")
    # the catch-all is entered by the statement that registers the suppress context
    # (found by what it is, not by its name: `enter_context(self.<cm>(...))` with <cm> a context manager of the class whose own body
    # swallows every Exception thrown at its yield)
    reg = SwallowRegistry(eng)
    reg_lines = []
    for c in own_nodes(init.node):
        if isinstance(c, ast.Call) and isinstance(c.func, ast.Attribute) and c.func.attr in ("enter_context", "enter_async_context") and c.args and isinstance(c.args[0], ast.Call) \
                and isinstance(c.args[0].func, ast.Attribute) and isinstance(c.args[0].func.value, ast.Name) and c.args[0].func.value.id == init.self_name:
            g = srv.find_method(mangle(srv.name, c.args[0].func.attr)) or srv.find_method(c.args[0].func.attr)
            if g is not None and g.has_decorator("contextmanager", "asynccontextmanager") and set(EXC_TOKENS) <= set(reg.swallows_fn(g)):
                reg_lines.append(c.lineno)
    reg_line = min(reg_lines, default=None)
    if reg_line is None:
        run.finding("C17.setup", init, init.node, "the per-client initializer no longer enters its suppress-and-log context")
        run.ob("C17.setup", f"{init.short}:failable-lookups-have-defaults", False)
        return
    bad = []
    for c in own_nodes(init.node):
        if isinstance(c, ast.Call) and isinstance(c.func, ast.Attribute) and c.func.attr == "extra" and c.lineno < reg_line and c.args:
            attr = ast.unparse(c.args[0]).split(".")[-1]
            if attr in FAILABLE_ATTRS:
                n += 1
                has_default = len(c.args) > 1 or any(k.arg == "default" for k in c.keywords)
                guarded = False
                for t in [x for x in own_nodes(init.node) if isinstance(x, ast.Try)]:
                    if any(c in list(ast.walk(b)) for b in t.body):
                        for h in t.handlers:
                            names = eng.lattice.handler_classes(init, h.type)
                            if eng.lattice.match(names, "LookupError", ()) == "must":
                                guarded = True
                if not (has_default or guarded):
                    bad.append((c, attr))
    for c, attr in bad:
        run.finding("C17.setup", init, _stmt_at(init, c.lineno), f"`extra({attr})` without a default before the per-client catch-all is entered: {FAILABLE_ATTRS[attr]}; the TypedAttributeLookupError (a LookupError, not an OSError) escapes the client task and stops the whole server")
    run.ob("C17.setup", f"{init.short}:failable-lookups-have-defaults", not bad, lookups=n)
    if n == 0:
        raise AnalysisError("anchor vanished: peername lookup in the per-client initializer")


def check_roots(eng, run):
    """Per-client task roots that only forward: no explicit raise of an Exception subclass besides argument validation."""
    db = eng.db
    roots = []
    s1 = db.cls("lowlevel.api_async.servers.stream.AsyncStreamServer")
    s2 = db.cls("lowlevel.api_async.servers.datagram.AsyncDatagramServer")
    for ci in (s1, s2):
        for name in ("__client_coroutine", "__client_coroutine_inner_loop"):
            f = ci.methods.get(mangle(ci.name, name)) or ci.methods.get(name)
            if f is not None:
                roots.append(f)
    run.floor("C17.root forwarding task roots", len(roots), 3)
    for f in roots:
        bad = []
        for n in own_nodes(f.node):
            if isinstance(n, ast.Raise) and n.exc is not None:
                nm = (dotted(n.exc.func) if isinstance(n.exc, ast.Call) else dotted(n.exc)) or ""
                if nm.split(".")[-1] not in ("TypeError", "AssertionError"):
                    bad.append(n)
            if isinstance(n, ast.ExceptHandler) and n.type is not None:
                names = eng.lattice.handler_classes(f, n.type) or []
                # a handler that catches Exception and re-raises something else would convert a contained failure
        for b in bad:
            run.finding("C17.root", f, b, "explicit raise in a per-client task root outside any catch-all")
        run.ob("C17.root", f"{f.short}:no-explicit-raise", not bad)


def check_receiver_escape(eng, run):
    """a malformed request is *thrown into the handler*: nothing input-dependent leaves the request receivers or the per-client
    task of the stream server (an exception leaving that task cancels the task group: every client is disconnected)"""
    from sa.analyses.escape import EscapeSummaries
    from rules.c06 import CONFIG_TOKENS
    summ = EscapeSummaries(eng)
    n = 0
    for q, allowed in (("lowlevel.api_async.servers.stream:_RequestReceiver.next", {"StopAsyncIteration"}),
                       ("lowlevel.api_async.servers.stream:_BufferedRequestReceiver.next", {"StopAsyncIteration"}),
                       ("lowlevel.api_async.servers.stream:AsyncStreamServer.__client_coroutine", set())):
        fn = eng.db.fn(q)
        toks = summ.escapes(fn, fn.cls)
        bad = sorted(t for t in toks if t not in allowed and t not in CONFIG_TOKENS)
        n += 1
        for t in bad[:2]:
            tr = summ.witness.get((fn.qualname, fn.cls.qualname), {}).get(t, ())
            run.finding("C17.root", fn, _stmt_at(fn, tr[-1]) if tr else fn.node, f"`{t.split('.')[-1]}` raised while parsing one client's data can leave {fn.short} instead of being handed to that client's "
                        "handler as a ThrowAction: it ends the client task with an error and the server's task group is cancelled", tr)
        run.ob("C17.root", f"{fn.short}:no-input-dependent-escape", not bad, escaping=sorted(t.split(".")[-1] for t in toks))
    # every other builder of the actions sent to / thrown into a handler generator (found by what it returns): total as well
    listed = {"_RequestReceiver.next", "_BufferedRequestReceiver.next"}
    for fn in eng.db.all_functions():
        if isinstance(fn.node, ast.Lambda) or not fn.module.name.startswith("easynetwork.lowlevel.api_async.servers") or fn.short in listed or fn.cls is None:
            continue
        rets = [r for r in own_nodes(fn.node) if isinstance(r, ast.Return) and isinstance(r.value, ast.Call) and (dotted(r.value.func) or "").split(".")[-1] in ("SendAction", "ThrowAction")]
        if not rets:
            continue
        n += 1
        toks = summ.escapes(fn, fn.cls)
        bad = sorted(t for t in toks if t not in CONFIG_TOKENS and t.split(".")[-1] != "StopAsyncIteration")
        # an explicit raise that is not converted into an action by an enclosing catch-all
        for t in bad[:2]:
            tr = summ.witness.get((fn.qualname, fn.cls.qualname), {}).get(t, ())
            run.finding("C17.root", fn, _stmt_at(fn, tr[-1]) if tr else fn.node, f"`{t.split('.')[-1]}` can leave {fn.short} instead of being returned as a ThrowAction: where the caller is not inside the per-client catch-all "
                        "(the first datagram of a fresh handler) it ends the client task with an error and the server's task group is cancelled", tr)
        # ... and no explicit `raise` (other than the end-of-stream StopAsyncIteration) leaves the builder, whether or not the
        # escape analysis knows a cause for the arm it sits in (a crash of user-supplied protocol code is such a cause)
        from sa.analyses.base import RuleAnalysis

        class ExplicitRaise(RuleAnalysis):
            tokens = ("StopAsyncIteration", "Exception")

            def initial(self, f):
                return [0]

            def may_raise(self, node, fact):
                # every call can fail (that is what the arms are for); the fact counts explicit raises on the path
                if isinstance(node, ast.Call) and (dotted(node.func) or "").split(".")[-1] in ("SendAction", "ThrowAction", "RuntimeError"):
                    return []
                return ["Exception"] if isinstance(node, (ast.Call, ast.Await)) else []

            def raised_token(self, node, fact):
                if node.exc is None:
                    return None
                nm = (dotted(node.exc.func) if isinstance(node.exc, ast.Call) else dotted(node.exc)) or ""
                return ["StopAsyncIteration"] if nm.split(".")[-1] == "StopAsyncIteration" else ["Exception"]

            def transfer(self, node, fact):
                if isinstance(node, ast.Raise) and node.exc is not None and self.raised_token(node, fact) == ["Exception"]:
                    return [1]
                return [fact]

            def handler_entry(self, handler, token, fact):
                return [0]  # caught: contained

        er = ExplicitRaise(eng)
        out = Interp(er, fn).run()
        esc = [(f, tr) for f, tr in out.exc.get("Exception", {}).items() if f == 1]
        for f, tr in esc[:1]:
            if not bad:
                run.finding("C17.root", fn, _stmt_at(fn, tr[-1]) if tr else fn.node, f"an explicit raise can leave {fn.short} instead of being returned as a ThrowAction: where the caller is not inside the per-client "
                            "catch-all (the first datagram of a fresh handler) it ends the client task with an error and the server's task group is cancelled", tr)
        bad = bad or bool(esc)
        run.ob("C17.root", f"{fn.short}:action-builder-is-total", not bad, escaping=sorted(t.split(".")[-1] for t in toks))
    run.floor("C17.root receivers / stream client task", n, 4)


def check_progress(eng, run):
    """UDP: every run of the per-client handler task consumes at least one queued datagram, on every exit (also when the handler's
    generator ends before its first yield): otherwise the task-done hook re-spawns the handler for the same datagram for ever"""
    from sa.analyses.must import exits_without
    s2 = eng.db.cls("lowlevel.api_async.servers.datagram.AsyncDatagramServer")
    fn = s2.methods.get("__client_coroutine_inner_loop")
    if fn is None:
        raise AnalysisError("anchor vanished: AsyncDatagramServer.__client_coroutine_inner_loop")

    def pops(node):
        return isinstance(node, ast.Call) and isinstance(node.func, ast.Attribute) and node.func.attr in ("pop_datagram_no_wait", "pop_datagram")

    bad, sites = exits_without(eng, fn, pops)
    if sites == 0:
        raise AnalysisError("anchor vanished: datagram pop in __client_coroutine_inner_loop")
    for label, tr in bad[:1]:
        run.finding("C17.root", fn, _stmt_at(fn, tr[-1]) if tr else fn.node, f"exit {label} of the per-client handler task without having taken a datagram off the client's queue: "
                    "the pending datagram re-spawns the handler at once, for ever (a handler failing before its first yield floods the server)", tr)
    run.ob("C17.root", f"{fn.short}:consumes-a-datagram-on-every-exit", not bad, pop_sites=sites)


def check_close_raises(eng, run):
    """closing a connection the peer has reset must not raise: socket-level shutdown calls in close paths sit in a try whose arms
    catch every OSError (ENOTCONN is a plain OSError, not a ConnectionError) - aclose_forcefully() runs in the per-client task"""
    n = 0
    for fn in eng.db.all_functions():
        if isinstance(fn.node, ast.Lambda) or not fn.module.name.startswith(("easynetwork.lowlevel.api_async.backend._asyncio", "easynetwork.lowlevel.api_sync.transports.socket")):
            continue
        if fn.name not in ("aclose", "close", "_close_stream_socket"):
            continue
        pm = {}
        for p_ in ast.walk(fn.node):
            for c_ in ast.iter_child_nodes(p_):
                pm[c_] = p_
        for c in own_nodes(fn.node):
            if not (isinstance(c, ast.Call) and isinstance(c.func, ast.Attribute) and c.func.attr in ("write_eof", "shutdown")):
                continue
            recv = (dotted(c.func.value) or "").lower()
            if "bio" in recv or "executor" in recv or "server" in recv:
                continue
            n += 1
            ok = False
            x = c
            while x in pm and x is not fn.node:
                p_ = pm[x]
                if isinstance(p_, ast.Try) and any(x is b for b in p_.body):
                    for h in p_.handlers:
                        if eng.lattice.match(eng.lattice.handler_classes(fn, h.type), "OSError", ("OSError", "Exception")) == "must":
                            ok = True
                x = p_
            if not ok:
                run.finding("C17.disc", fn, _stmt_at(fn, c.lineno), f"`{ast.unparse(c)}` in a close path is not protected by an arm catching every OSError: shutting down a connection the peer reset "
                            "raises ENOTCONN, which escapes the forceful close in the per-client task and stops the whole server")
            run.ob("C17.disc", f"{fn.short}:{ast.unparse(c)[:40]}:OSError-contained", ok)
    run.floor("C17.disc socket-level shutdown calls in close paths", n, 2)


def check_error_path_constructs(eng, run):
    """the containment machinery itself must not fail: (a) in except arms of the server / listener modules an attribute of the caught
    exception is read only where every caught class has it or after an isinstance() narrowing (evaluation order included);
    (b) the functions on the exit path of the per-client catch-all (the UDP context's __aexit__ and what it calls) contain no
    destructuring of a run-time value (an address tuple has 2 or 4 elements depending on the family); (c) keyword arguments that
    configure the per-connection timeouts are not crossed over"""
    from sa.analyses.arms import check_crossed_keywords, check_handler_attrs
    check_handler_attrs(eng, run, "C17.setup", ("servers", "lowlevel.api_async.servers", "lowlevel.api_async.backend._asyncio.stream.listener", "lowlevel.api_async.transports.tls"), 2)
    check_crossed_keywords(eng, run, "C17.setup", ("servers", "lowlevel.api_async.servers", "lowlevel.api_async.transports"), 5)
    ctx = eng.db.module("servers.async_udp").classes.get("_ClientContext")
    ax = ctx.methods.get("__aexit__") if ctx else None
    if ax is None:
        raise AnalysisError("anchor vanished: servers.async_udp._ClientContext.__aexit__")
    todo, seen = [ax], set()
    n = 0
    while todo:
        fn = todo.pop()
        if fn.qualname in seen:
            continue
        seen.add(fn.qualname)
        n += 1
        bad = []
        for st in own_nodes(fn.node):
            if isinstance(st, ast.Assign) and any(isinstance(t, (ast.Tuple, ast.List)) for t in st.targets) and not isinstance(st.value, (ast.Tuple, ast.List)):
                fixed_arity = isinstance(st.value, ast.Call) and isinstance(st.value.func, ast.Attribute) and st.value.func.attr in ("split", "partition", "rpartition") and \
                    (st.value.func.attr != "split" or any(w in (dotted(st.value.func.value) or "") for w in ("exc", "group", "error")))  # BaseExceptionGroup.split() -> (match, rest)
                if not fixed_arity:
                    bad.append(st)
            if isinstance(st, ast.Call) and isinstance(st.func, ast.Attribute) and dotted(st.func.value) == fn.self_name:
                m = ctx.find_method(st.func.attr)
                if m is not None and not isinstance(m.node, ast.Lambda):
                    todo.append(m)
        for st in bad[:1]:
            run.finding("C17.hook", fn, st, f"`{ast.unparse(st)[:60]}` destructures a run-time value on the exit path of the per-client catch-all: when the shape differs (an IPv6 address has 4 elements) "
                        "the ValueError is raised *by* the catch-all, leaves the client task and stops the server")
        run.ob("C17.hook", f"{fn.short}:no-failable-destructuring-in-the-catch-all", not bad)
    run.floor("C17.hook functions on the catch-all exit path", n, 2)


_GROUPS = {"ExceptionGroup", "BaseExceptionGroup"}
_GROUP_API = {"exceptions", "split", "subgroup", "derive"}


def _ann_members(ann):
    """members of a `A | B` / Union[A, B] / Optional[A] annotation, as the bare class names"""
    if ann is None:
        return None
    if isinstance(ann, ast.BinOp) and isinstance(ann.op, ast.BitOr):
        return (_ann_members(ann.left) or []) + (_ann_members(ann.right) or [])
    if isinstance(ann, ast.Subscript):
        head = (dotted(ann.value) or "").split(".")[-1]
        if head == "Union":
            el = ann.slice.elts if isinstance(ann.slice, ast.Tuple) else [ann.slice]
            return [m for e in el for m in (_ann_members(e) or [])]
        if head == "Optional":
            return (_ann_members(ann.slice) or []) + ["None"]
        return [head]
    if isinstance(ann, ast.Constant) and ann.value is None:
        return ["None"]
    if isinstance(ann, ast.Constant) and isinstance(ann.value, str):
        try:
            return _ann_members(ast.parse(ann.value, mode="eval").body)
        except SyntaxError:
            return None
    d = dotted(ann)
    return [d.split(".")[-1]] if d else None


def _arm_kind(fn_node, node, var):
    """'group' / 'other' / None: is `node` inside a `case <Group>()` arm (or an isinstance(var, <Group>) then-arm) on `var`, or inside an
    arm whose class pattern names another class (then `var` is definitely not a group there)?  innermost arm wins."""
    best = None
    for m in ast.walk(fn_node):
        if isinstance(m, ast.Match) and isinstance(m.subject, ast.Name) and m.subject.id == var:
            for case in m.cases:
                if not any(node is x for b in case.body for x in ast.walk(b)):
                    continue
                pat = case.pattern
                while isinstance(pat, ast.MatchAs) and pat.pattern is not None:
                    pat = pat.pattern
                if isinstance(pat, ast.MatchClass):
                    name = (dotted(pat.cls) or "").split(".")[-1]
                    kind = "group" if name in _GROUPS else "other"
                    # a re-binding of the subject inside the arm (`a, exc_val = exc_val.split(...)`) ends what the pattern says about it
                    rebound = any(isinstance(x, ast.Name) and isinstance(x.ctx, ast.Store) and x.id == var and x.lineno < getattr(node, "lineno", 0)
                                  for b in case.body for x in ast.walk(b))
                    best = (m.lineno, None if rebound else kind) if best is None or m.lineno > best[0] else best
        if isinstance(m, ast.If) and isinstance(m.test, ast.Call) and dotted(m.test.func) == "isinstance" and len(m.test.args) == 2 \
                and isinstance(m.test.args[0], ast.Name) and m.test.args[0].id == var and any(node is x for b in m.body for x in ast.walk(b)):
            names = {(dotted(e) or "").split(".")[-1] for e in (m.test.args[1].elts if isinstance(m.test.args[1], ast.Tuple) else [m.test.args[1]])}
            if names and names <= _GROUPS:
                best = (m.lineno, "group") if best is None or m.lineno > best[0] else best
        # guard clause: `if not isinstance(var, <Group>): return / raise` - what follows it sees a group
        if isinstance(m, ast.If) and isinstance(m.test, ast.UnaryOp) and isinstance(m.test.op, ast.Not) and isinstance(m.test.operand, ast.Call) \
                and dotted(m.test.operand.func) == "isinstance" and len(m.test.operand.args) == 2 and isinstance(m.test.operand.args[0], ast.Name) \
                and m.test.operand.args[0].id == var and not m.orelse and isinstance(m.body[-1], (ast.Return, ast.Raise, ast.Continue, ast.Break)) \
                and getattr(node, "lineno", 0) > (m.end_lineno or m.lineno):
            t = m.test.operand.args[1]
            names = {(dotted(e) or "").split(".")[-1] for e in (t.elts if isinstance(t, ast.Tuple) else [t])}
            if names and names <= _GROUPS:
                best = (m.lineno, "group") if best is None or m.lineno > best[0] else best
    return best[1] if best else None


def check_group_api_on_the_catch_all(eng, run):
    """the exception-group API (.exceptions / .split / .subgroup / .derive) is used, on the exit path of the UDP per-client catch-all, only on
    values that can be groups: not on a parameter whose declared type has a non-group member (unless narrowed by a `case <Group>()` arm or an
    isinstance test), not on the subject of a `case <OtherClass>()` arm, and no call site passes the subject of such an arm to a parameter
    declared as a group.  Otherwise the AttributeError is raised *by* the catch-all, leaves the client task and stops the server."""
    ctx = eng.db.module("servers.async_udp").classes.get("_ClientContext")
    ax = ctx.methods.get("__aexit__") if ctx else None
    if ax is None:
        raise AnalysisError("anchor vanished: servers.async_udp._ClientContext.__aexit__")
    todo, seen, n = [ax], set(), 0
    while todo:
        fn = todo.pop()
        if fn.qualname in seen:
            continue
        seen.add(fn.qualname)
        n += 1
        a = fn.node.args
        params = {p.arg: p.annotation for p in a.posonlyargs + a.args + a.kwonlyargs}
        bad = []
        for x in own_nodes(fn.node):
            if isinstance(x, ast.Attribute) and x.attr in _GROUP_API and isinstance(x.value, ast.Name):
                v = x.value.id
                kind = _arm_kind(fn.node, x, v)
                if kind == "group":
                    continue
                if kind == "other":
                    bad.append((x, f"`{v}.{x.attr}` is read in a `case` arm that matched `{v}` against a class that is not an exception group"))
                    continue
                members = _ann_members(params.get(v)) if v in params else None
                if members and any(m in _GROUPS for m in members) and any(m not in _GROUPS and m != "None" for m in members):  # (`<Group> | None` with an `is None` test is not this rule's business)
                    bad.append((x, f"`{v}.{x.attr}` is read although `{v}` is declared `{ast.unparse(params[v])}`: the non-group member has no `{x.attr}`"))
            if isinstance(x, ast.Call) and isinstance(x.func, ast.Attribute) and dotted(x.func.value) == fn.self_name:
                m = ctx.find_method(x.func.attr)
                if m is None or isinstance(m.node, ast.Lambda):
                    continue
                todo.append(m)
                ma = m.node.args
                mparams = (ma.posonlyargs + ma.args)[1:]
                for i, arg in enumerate(x.args):
                    if i >= len(mparams) or not isinstance(arg, ast.Name):
                        continue
                    pm = _ann_members(mparams[i].annotation)
                    if pm and all(q in _GROUPS for q in pm) and _arm_kind(fn.node, arg, arg.id) == "other":
                        bad.append((x, f"`{arg.id}`, matched against a class that is not an exception group, is passed to `{m.name}({mparams[i].arg}: {ast.unparse(mparams[i].annotation)})`"))
        for x, why in bad[:2]:
            run.finding("C17.hook", fn, _stmt_at(fn, x.lineno), why + ": the AttributeError is raised *by* the per-client catch-all, leaves the client task and stops the server for every client")
        run.ob("C17.hook", f"{fn.short}:group-api-only-on-groups-in-the-catch-all", not bad)
    run.floor("C17.hook functions on the catch-all exit path (group API)", n, 2)


def check_serializers_hold_no_stream_state(eng, run):
    """one serializer object serves every connection of a server: what belongs to *one* stream (the reader that accumulates a partial
    frame, a scratch buffer, a decompressor) is created per call of the incremental methods, never kept on the serializer.  No
    serializer class stores a stream reader / byte buffer / queue instance on `self`, and no incremental (generator) method stores
    to `self` at all - the bytes of one client's unfinished packet would be prepended to another client's."""
    STATEFUL = {"GeneratorStreamReader", "BytesIO", "bytearray", "deque", "StringIO"}
    n = 0
    for ci in eng.db.classes.values():
        if not ci.module.name.startswith("easynetwork.serializers") or ci.module.name.endswith("serializers.tools"):
            continue
        for m in ci.methods.values():
            if isinstance(m.node, ast.Lambda) or m.self_name is None:
                continue
            for st in own_nodes(m.node):
                if not isinstance(st, (ast.Assign, ast.AnnAssign, ast.AugAssign)):
                    continue
                tg = st.targets if isinstance(st, ast.Assign) else [st.target]
                if not any(isinstance(t, ast.Attribute) and dotted(t.value) == m.self_name for t in tg):
                    continue
                n += 1
                v = getattr(st, "value", None)
                made = isinstance(v, ast.Call) and (dotted(v.func) or "").split(".")[-1] in STATEFUL
                bad = made or m.is_generator
                if bad:
                    run.finding("C17.root", m, st, f"`{ast.unparse(st)[:70]}` keeps per-stream state on the serializer, which is shared by all the connections of a server: the partial data of one "
                                "client's stream leaks into the packets of another client")
                run.ob("C17.root", f"{ci.name}.{m.name}:{ast.unparse(tg[0])}:no-stream-state-on-the-serializer", not bad)
    run.floor("C17.root attribute stores of the serializer classes", n, 30)


def run(eng, run):
    from sa.anchors import verify as _verify_anchor_names
    _verify_anchor_names(eng, run)
    run.not_decided += NOT_DECIDED
    run.assumptions += ["task-group semantics: an exception that does not leave a task does not cancel its siblings",
                        "calls inside except/finally arms of set-up tasks (logging, forceful close) and the pre-yield part of the initializers do not raise"]
    reg = SwallowRegistry(eng)
    run.attempt(check_hooks, eng, run, reg)
    run.attempt(check_disc, eng, run)
    run.attempt(check_setup, eng, run, reg)
    run.attempt(check_failable_lookups, eng, run)
    run.attempt(check_roots, eng, run)
    run.attempt(check_receiver_escape, eng, run)
    run.attempt(check_progress, eng, run)
    run.attempt(check_close_raises, eng, run)
    run.attempt(check_error_path_constructs, eng, run)
    run.attempt(check_group_api_on_the_catch_all, eng, run)
    run.attempt(check_errno_tables, eng, run)
    run.attempt(check_serializers_hold_no_stream_state, eng, run)
    from rules import c16 as _c16b
    run.attempt(_c16b.check_listener_errors_only_logged, eng, run, "C17.hook")  # one peer's socket error is not raised in another client's handler
    # the UDP per-client state machine: a restart that marks the client pending only after the new task was started raises
    # 'inconsistent state' in the server's task group under eager task start - one client's traffic stops the server (rules of C16.single)
    from rules import c16
    from sa.report import RuleAlias as _RA17
    run.attempt(c16.check_single_and_atomic, eng, _RA17(run, "C17.root"))
    from rules import c14 as _c14t
    from sa.analyses.closing import CloserRegistry as _CR17
    run.attempt(_c14t.check_close_path, eng, _RA17(run, "C17.disc"), _CR17(eng), eng.db.fn("lowlevel.api_async.transports.tls:AsyncTLSStreamTransport.aclose"))  # a TLS peer that never answers close_notify: the failing client's connection is still closed
    run.end_of_rules()


# ---------------------------------------------------------------------------------------------- self-test corpus
from sa.mutate import (Variant, delete_stmt, find_handler, find_stmt, insert_after, insert_before, rename_local, replace_expr,  # noqa: E402
                       replace_stmt, set_handler_type, stmt_has, stmt_is)

_TCP = "servers.async_tcp:AsyncTCPNetworkServer"
_UDPCTX = "servers.async_udp:_ClientContext.__aexit__"
_H = "servers.misc:build_lowlevel_stream_server_handler.<locals>.handler"
_HD = "servers.misc:build_lowlevel_datagram_server_handler.<locals>.handler"
_CCT = "lowlevel.api_async.backend._asyncio.stream.listener:ListenerSocketAdapter.serve.<locals>.client_connection_task"
_THW = "lowlevel.api_async.transports.tls:AsyncTLSListener.serve.<locals>.tls_handler_wrapper"


def _hook_above_with(fn):
    lst, i, st = find_stmt(fn, stmt_is("async with initializer("))
    lst.insert(i, ast.parse("await request_handler.service_init_check(lowlevel_client)").body[0])


def _udp_exception_not_swallowed(fn):
    # `case Exception(): log; return True` -> no return (falls out of the match and returns None)
    for m in [x for x in ast.walk(fn) if isinstance(x, ast.Match)]:
        for c in m.cases:
            if isinstance(c.pattern, ast.MatchClass) and ast.unparse(c.pattern.cls) == "Exception":
                c.body = [s for s in c.body if not isinstance(s, ast.Return)] + [ast.parse("return False").body[0]]


MUTANTS = [
    Variant("tcp-suppress-narrowed-to-oserror", _TCP + ".__suppress_and_log_remaining_exception", lambda fn: set_handler_type(fn, "Exception", "OSError"), "C17.hook",
            expect_fn="__client_initializer", why="a ValueError in handle() takes the server down"),
    Variant("tcp-suppress-reraises", _TCP + ".__suppress_and_log_remaining_exception",
            lambda fn: find_handler(fn, "Exception").body.append(ast.parse("raise").body[0]), "C17.hook", expect_fn="__client_initializer"),
    Variant("handler-hook-above-initializer", _H, _hook_above_with, "C17.hook", why="a hook runs outside the catch-all"),
    Variant("udp-aexit-exception-returns-false", _UDPCTX, _udp_exception_not_swallowed, "C17.hook", expect_fn="__client_initializer",
            why="UDP handler exceptions propagate into the server task group"),
    Variant("accept-task-always-reraises", _CCT, lambda fn: replace_stmt(fn, stmt_is("if not isinstance(exc, Exception)"), "raise"), "C17.setup",
            why="a client that sends RST right after accept stops the server"),
    Variant("tls-wrapper-exception-arm-reraises", _THW, lambda fn: find_handler(fn, "Exception").body.append(ast.parse("raise").body[0]), "C17.setup"),
    Variant("tls-wrapper-user-handler-unprotected", _THW,
            lambda fn: replace_stmt(fn, stmt_is("try:"), "handshake_error_handler(exc)", 1), "C17.setup",
            why="an exception in the user's handshake_error_handler leaves the task"),
    Variant("disconnect-registered-after-loop-start", _H,
            lambda fn: (delete_stmt(fn, stmt_has("push_async_callback(disconnect_client)")), insert_after(fn, stmt_is("client_is_closing = client.is_closing"), "request_handler_generator = new_request_handler(client)\nrequest_handler_exit_stack.push_async_callback(disconnect_client)")),
            "C17.disc"),
    Variant("handshake-error-handler-raises", _TCP + ".__client_tls_handshake_error_handler",
            lambda fn: fn.body.append(ast.parse("raise exc").body[0]), "C17.setup"),
    Variant("dgram-handler-hook-above-initializer", _HD, _hook_above_with, "C17.hook"),
]

MUTANTS.append(Variant("initializer-peername-without-default", _TCP + ".__client_initializer",
                       lambda fn: replace_expr(fn, "lowlevel_client.extra(INETSocketAttribute.peername, None)", "lowlevel_client.extra(INETSocketAttribute.peername)"), "C17.setup",
                       why="a client that resets right after accept() stops the server"))

BENIGN = [
    Variant("tcp-suppress-inline-rename", _TCP + ".__suppress_and_log_remaining_exception", lambda fn: rename_local(fn, "excgrp", "group"), why="local renamed"),
    Variant("accept-task-isinstance-local", _CCT,
            lambda fn: replace_stmt(fn, stmt_is("if not isinstance(exc, Exception)"), "fatal = not isinstance(exc, Exception)\nif not isinstance(exc, Exception):\n    raise"),
            why="extra local computed before the test"),
    Variant("handler-rename-client", _HD, lambda fn: rename_local(fn, "request_handler_generator", "gen"), why="local renamed"),
]

_BRRN = "lowlevel.api_async.servers.stream:_BufferedRequestReceiver.next"
_ILD = "lowlevel.api_async.servers.datagram:AsyncDatagramServer.__client_coroutine_inner_loop"
_ADA = "lowlevel.api_async.backend._asyncio.stream.socket:AsyncioTransportStreamSocketAdapter.aclose"


def _fast_path_outside_the_try(fn):
    fn.body[0:0] = ast.parse(
        "consumer = self.consumer\ntry:\n    request = consumer.next(None)\nexcept StopIteration:\n    pass\nelse:\n"
        "    await self.__backend.cancel_shielded_coro_yield()\n    return SendAction(request)").body


def _pop_after_first_yield(fn):
    t = next(n for n in ast.walk(fn) if isinstance(n, ast.Try))
    pop = next(s for s in t.body if "pop_datagram_no_wait" in ast.unparse(s))
    t.body.remove(pop)
    t.orelse.insert(0, pop)


MUTANTS += [
    Variant("buffered-receiver-fast-path-outside-the-conversion", _BRRN, _fast_path_outside_the_try, "C17.root",
            why="a malformed request buffered behind a valid one kills the client task and with it the server (seed C17-4)"),
    Variant("udp-datagram-popped-after-the-first-yield", _ILD, _pop_after_first_yield, "C17.root",
            why="a handler that fails before its first yield is re-spawned for ever on the same datagram (seed C17-5)"),
    Variant("adapter-close-catches-connection-errors-only", _ADA, lambda fn: set_handler_type(fn, "OSError", "ConnectionError"), "C17.disc",
            why="ENOTCONN from shutdown() on a reset connection escapes the forceful close (seed C17-6)"),
]


_UDPLOG = "servers.async_udp:_ClientContext.__log_exception"
_TLSL = "servers.async_tcp:AsyncTCPNetworkServer.__create_ssl_over_tcp_listeners"


def _swap_and_operands(fn):
    b = next(x for x in ast.walk(fn) if isinstance(x, ast.BoolOp) and isinstance(x.op, ast.And) and "isinstance(exc, OSError)" in ast.unparse(x) and "errno" in ast.unparse(x))
    b.values.reverse()


def _cross_tls_timeouts(fn):
    c = next(x for x in ast.walk(fn) if isinstance(x, ast.Call) and any(k.arg == "handshake_timeout" for k in x.keywords))
    hk = next(k for k in c.keywords if k.arg == "handshake_timeout")
    sk = next(k for k in c.keywords if k.arg == "shutdown_timeout")
    hk.value, sk.value = sk.value, hk.value


MUTANTS += [
    Variant("accept-error-arm-reads-errno-before-the-isinstance-test", _CCT, _swap_and_operands, "C17.setup",
            why="a non-OSError set-up failure makes the error handler raise AttributeError: the accept loop and every client are cancelled (seed C17-9)"),
    Variant("udp-error-logger-destructures-the-peer-address", _UDPLOG,
            lambda fn: fn.body.insert(next(i for i, s_ in enumerate(fn.body) if not (isinstance(s_, ast.Expr) and isinstance(s_.value, ast.Constant))), ast.parse("host, port = self.__lowlevel_client.address").body[0]),
            "C17.hook", why="IPv6 address 4-tuple: ValueError raised by the catch-all itself stops the server (seed C17-8)"),
    Variant("tls-listener-timeouts-crossed", _TLSL, _cross_tls_timeouts, "C17.setup",
            why="the configured handshake timeout no longer bounds a stalled handshake (seed C17-7)"),
]


MUTANTS += [
    Variant("udp-closed-client-error-passed-bare", _UDPCTX, lambda fn: replace_expr(fn, "ExceptionGroup('', [exc_val])", "exc_val"), "C17.hook",
            why="a bare ClientClosedError reaches a helper written for groups: one more edit there (exc.exceptions) and the catch-all itself raises"),
    Variant("udp-group-api-on-the-bare-error", _UDPCTX, lambda fn: replace_expr(fn, "ExceptionGroup('', [exc_val])", "ExceptionGroup('', list(exc_val.exceptions))"), "C17.hook",
            why="AttributeError raised by the catch-all: the server stops for every client"),
]
