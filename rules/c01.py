"""C01 - stream round-trip: packets survive any chunking of the byte stream (DESIGN.md section 3, C01)."""
from __future__ import annotations

import ast

from sa.analyses.base import RuleAnalysis
from sa.analyses.buffers import assignments, deps, linear, yield_vars
from sa.analyses.buffers import through_local
from sa.db import AnalysisError, ClassInfo, FunctionInfo, dotted, mangle, norm_stmt, own_nodes
from sa.exc import CANCELLED
from sa.flow import Interp, TestAtom, call_of

CLAIM = {
    "text": "Decides the structural mechanisms without which no chunking other than 'one packet per read' can round-trip: (rem) every incremental / buffered deserializer generator and every helper it delegates to hands back a remainder that is data-dependent on the accumulating reader state after the frame (never a constant, except in the two tabled cases), also on its IncrementalDeserializeError exits; (inj) both stream consumers detach the parked generator before resuming it, re-park it only on the need-more-data exit, and store the returned remainder as the new buffer before returning a packet; (tbl) in each framing serializer the writer and all readers use the same framing datum (separator attribute, newline literal, packet size attribute); (scan) the two separator scanners search only when at least one separator length of unsearched data exists, resume at buflen + k - seplen with k <= 1 (never skipping a position where a separator straddling two reads could start, never a negative offset), advance past a match by exactly the separator length, and agree with each other on these facts. (copy) what a buffered deserializer hands to the user-level deserialize() is a copy of the frame, never a view of the re-used receive buffer; (esc) the JSON framer's escape predicate walks back through the whole run of backslashes in a loop that toggles/counts only on the escape byte and stops at the first other byte (no constant look-back), and the quote case consults it on exactly the prefix that ends at the quote. The buffered consumer's count of saved remainder bytes is handed to the parser exactly once (cleared before anything adds to it again and before every exit); the JSON framer's end-of-frame test holds for every non-positive enclosure count (closers decrement unconditionally); every text conversion in a serializer with a configured encoding names that attribute. The stapled (composite) serializer's dispatch constructs, for every (sent, received) class pair, the class its @overload declares; below the serializers the asyncio protocol's copy-out paths conserve bytes and the asynchronous receivers never hold a packet across a cancellable suspension point (rules shared from C10). Round 4: a buffer that is compacted in place is copied out before the move on every path; a buffer lent to the event loop is withdrawn before the callback returns (lend / withdraw typestate of C10). Round 5: create_deserializer_buffer() returns a fresh allocation on every call (never an object kept in an attribute or cache); the JSON splitter measures the frame, not the buffered data, against the limit (C07.early).",
    "note": "Trusted: bytes.find semantics; the serializers' one-shot serialize/deserialize are inverse on valid data. Not decided: byte-level equality of the delivered packets over all chunkings; the JSON raw parser's bracket/quote/escape tracking (value level).",
    "technique": "def-use / data-dependence closures, linear-form normalisation of index expressions, typestate by abstract interpretation for the consumers, sibling comparison of extracted fact tuples",
}
NOT_DECIDED = ["byte-level round-trip equality over all chunkings", "bracket / quote / escape tracking of the raw JSON parser across chunks (value level)"]


def _stmt_of(fn, node):
    best = None
    for n in own_nodes(fn.node):
        if isinstance(n, ast.stmt) and n.lineno <= getattr(node, "lineno", 0) <= getattr(n, "end_lineno", n.lineno):
            if best is None or (n.lineno >= best.lineno and not isinstance(n, (ast.Try, ast.With, ast.For, ast.If, ast.While))):
                best = n
    return best or fn.node


def _cname(c):
    return (c.func.attr if isinstance(c.func, ast.Attribute) else getattr(c.func, "id", "")) if c is not None else ""


# ------------------------------------------------------------------------------------------ C01.scan
def scanner_facts(fn: FunctionInfo, preallocated: bool) -> dict:
    """facts of a separator scanner: guard, search shape, resume offset linear form, post-match offset"""
    facts: dict = {}
    asg = assignments(fn)
    finds = [n for n in own_nodes(fn.node) if isinstance(n, ast.Call) and _cname(n) == "find" and isinstance(n.func, ast.Attribute)]
    if len(finds) != 1:
        facts["error"] = f"{len(finds)} search calls (expected exactly 1)"
        return facts
    find = finds[0]
    bufname = dotted(find.func.value)
    sepname = dotted(find.args[0]) if find.args else None
    offname = dotted(find.args[1]) if len(find.args) > 1 else None
    facts["search_start"] = offname is not None
    facts["search_end_bounded"] = len(find.args) >= 3
    # names for buffer length and separator length, by how they are defined
    seplens = {k for k, vs in asg.items() for v in vs if isinstance(v, ast.Call) and getattr(v.func, "id", "") == "len" and v.args and dotted(v.args[0]) == sepname}
    buflens = {k for k, vs in asg.items() for v in vs if (isinstance(v, ast.Call) and getattr(v.func, "id", "") == "len" and v.args and dotted(v.args[0]) == bufname)} | (yield_vars(fn) if preallocated else set())
    facts["_names"] = (sorted(buflens), sorted(seplens), offname)

    def role(lin):
        out = {}
        for k, v in lin.items():
            r = "buflen" if (k in buflens or k == f"len({bufname})") else "seplen" if (k in seplens or k == f"len({sepname})") else "offset" if k == offname else "const" if k == "" else f"?{k}"
            out[r] = out.get(r, 0) + v
        return {k: v for k, v in out.items() if v != 0 or k == "const"}

    # guard: the innermost If that contains the search (in either arm; mirrored / negated forms are normalised)
    from sa.norm import cmp_canon, lin_resolved
    guard = None
    guard_side = True
    for iff in own_nodes(fn.node):
        if isinstance(iff, ast.If):
            in_body = any(find in list(ast.walk(s)) for s in iff.body)
            in_else = any(find in list(ast.walk(s)) for s in iff.orelse)
            if (in_body or in_else) and (guard is None or iff.lineno > guard.lineno):
                guard, guard_side = iff, in_body
    g_ok = False
    if guard is not None:
        test = guard.test if guard_side else ast.UnaryOp(op=ast.Not(), operand=guard.test)
        c = cmp_canon(fn, test)
        if c is not None:
            rr = role(c[0])
            # buflen - offset - seplen >= 0
            g_ok = c[1] == ">=" and rr.get("buflen") == 1 and rr.get("offset") == -1 and rr.get("seplen") == -1 and rr.get("const", 0) == 0 and not any(k.startswith("?") for k in rr)
    facts["guard_buflen_minus_offset_ge_seplen"] = g_ok
    # resume offset: assignments to the offset variable
    resume = []
    post = []
    for n in own_nodes(fn.node):
        if isinstance(n, (ast.Assign, ast.AnnAssign)) and getattr(n, "value", None) is not None:
            tg = n.targets if isinstance(n, ast.Assign) else [n.target]
            if any(dotted(t) == offname for t in tg):
                lin = linear(n.value)
                if lin is None:
                    continue
                rr = role(lin)
                if "buflen" in rr:
                    inside = guard is not None and any(n in list(ast.walk(s)) for s in guard.body)
                    resume.append((rr, inside))
                elif any(k.startswith("?") for k in rr):
                    post.append(rr)
    facts["resume"] = [r for r, _ in resume]
    facts["resume_ok"] = bool(resume) and all(r.get("buflen") == 1 and r.get("seplen") == -1 and r.get("const", 0) <= 1 and not any(k.startswith("?") for k in r) and inside for r, inside in resume)
    facts["resume_k"] = sorted({r.get("const", 0) for r, _ in resume})
    # post-match: the frame end handed on is `sepidx + seplen` - through the offset variable, another local, or directly in the result
    sepidx = None
    for n in own_nodes(fn.node):
        if isinstance(n, (ast.Assign, ast.AnnAssign, ast.NamedExpr)) and getattr(n, "value", None) is find:
            tg = n.targets[0] if isinstance(n, ast.Assign) else n.target
            sepidx = tg.id if isinstance(tg, ast.Name) else None
    # (also in a private helper that the scanner hands the match to through namesake arguments: `return self.__consume(buffer, separator, sepidx, ...)`)
    from sa.norm import nodes_inl, private_helper, tuple_elts
    cands = []
    for n, owner in nodes_inl(fn):
        if owner is not fn:
            call = next((c for c in own_nodes(fn.node) if isinstance(c, ast.Call) and private_helper(fn, c) is owner), None)
            ps = [x.arg for x in owner.params()]
            if owner.cls is not None and ps and not owner.has_decorator("staticmethod"):
                ps = ps[1:]
            if call is None or call.keywords or not all(isinstance(a_, ast.Name) and i_ < len(ps) and a_.id == ps[i_] for i_, a_ in enumerate(call.args)):
                continue
        if isinstance(n, (ast.Assign, ast.AnnAssign)) and getattr(n, "value", None) is not None:
            cands.append((n.value, owner))
        if isinstance(n, ast.Return) and n.value is not None:
            cands += [(x, owner) for x in tuple_elts(owner, n.value)]
        if isinstance(n, ast.Subscript) and isinstance(n.slice, ast.Slice):
            cands += [(x, owner) for x in (n.slice.lower, n.slice.upper) if x is not None]
    post_ok = False
    for e, owner in cands:
        lin = lin_resolved(owner, e)
        if lin is None or sepidx is None:
            continue
        rr = {}
        for k, v in lin.items():
            r_ = "sepidx" if k == sepidx else "seplen" if (k in seplens or k == f"len({sepname})") else "const" if k == "" else f"?{k}"
            rr[r_] = rr.get(r_, 0) + v
        if rr.get("sepidx") == 1 and rr.get("seplen") == 1 and rr.get("const", 0) == 0 and not any(k.startswith("?") for k in rr):
            post_ok = True
    facts["post_match_ok"] = post_ok or (bool(post) and all(p.get("seplen") == 1 and sum(1 for k in p if k.startswith("?")) == 1 and p.get("const", 0) == 0 for p in post))
    return facts


def check_scan(eng, run):
    db = eng.db
    a = db.fn("serializers.tools:GeneratorStreamReader.read_until")
    b = db.fn("serializers.base_stream:_buffered_readuntil")
    fa, fb = scanner_facts(a, False), scanner_facts(b, True)
    for fn, f, pre in ((a, fa, False), (b, fb, True)):
        if "error" in f:
            run.finding("C01.scan", fn, fn.node, f"separator scanner shape changed: {f['error']}")
            run.ob("C01.scan", fn.short, False)
            continue
        probs = []
        if not f["guard_buflen_minus_offset_ge_seplen"]:
            probs.append("the search is not guarded by `buflen - offset >= seplen`: the resume offset can become negative (bytes.find then counts from the end and skips separators that already arrived) or the search runs on less than one separator length")
        if not f["resume_ok"]:
            probs.append(f"after an unsuccessful search the offset is not `buflen + k - seplen` with k <= 1 set inside the guarded branch (found {f['resume']}): a separator straddling two reads is skipped / searched from a wrong position")
        if not f["post_match_ok"]:
            probs.append("after a match the offset is not `sepidx + seplen`")
        if pre and not f["search_end_bounded"]:
            probs.append("the search in the pre-allocated buffer has no end bound")
        if not f["search_start"]:
            probs.append("the search does not start at the resume offset (quadratic rescans / re-matching)")
        for p in probs:
            run.finding("C01.scan", fn, fn.node, p)
        run.ob("C01.scan", fn.short, not probs, facts={k: v for k, v in f.items() if not k.startswith("_")})
    keys = ("guard_buflen_minus_offset_ge_seplen", "resume_ok", "resume_k", "post_match_ok", "search_start")
    same = "error" not in fa and "error" not in fb and all(fa[k] == fb[k] for k in keys)
    if not same and "error" not in fa and "error" not in fb:
        run.finding("C01.scan", b, b.node, f"the two separator scanners disagree: {[(k, fa[k], fb[k]) for k in keys if fa[k] != fb[k]]}")
    run.ob("C01.scan", "read_until~_buffered_readuntil", same)


# ------------------------------------------------------------------------------------------ C01.rem
ACCUM_HINTS = ("read_all", "read", "unused_data", "getvalue")
REM_EXCEPTIONS = {
    # (function short name, reason)
    "_JSONParser._split_partial_document": "returns (document, b'') only under `consumed == len(partial_document)`: nothing is left",
    "AbstractCompressorSerializer.__generic_incremental_deserialize": "decompression error before the frame end is known: the stream is unrecoverable by construction (remaining_data=b'')",
}


def deserializer_generators(eng):
    db = eng.db
    root = db.cls("serializers.abc.AbstractIncrementalPacketSerializer")
    out = []
    seen = set()
    todo = []
    for ci in [root] + root.all_subclasses():
        for name in ("incremental_deserialize", "buffered_incremental_deserialize"):
            f = ci.methods.get(name)
            if f is not None and f.is_generator:
                todo.append(f)
    for q in ("serializers.json:_JSONParser.raw_parse", "serializers.json:_JSONParser._split_partial_document", "serializers.base_stream:_wrap_generic_incremental_deserialize",
              "serializers.base_stream:_wrap_generic_buffered_incremental_deserialize"):
        f = db.fn_opt(q)
        if f is not None:
            todo.append(f)
    while todo:
        f = todo.pop()
        if f.qualname in seen:
            continue
        seen.add(f.qualname)
        out.append(f)
        # private generator helpers of the same class
        if f.cls is not None:
            for n in own_nodes(f.node):
                if isinstance(n, ast.Attribute) and isinstance(n.value, ast.Name) and n.value.id == f.self_name:
                    g = f.cls.methods.get(n.attr)
                    if g is not None and g.is_generator and "deserialize" in g.name and g.qualname not in seen:
                        todo.append(g)
    return out


def _remainder_ok(fn, expr) -> bool:
    if isinstance(expr, ast.Constant):
        return False
    d = deps(fn, expr)
    if "<yield>" in d:
        return True
    params = {a.arg for a in fn.params()}
    if d & params - {fn.self_name or ""}:
        return True
    asg = assignments(fn)
    for nm in d:
        for v in asg.get(nm, []):
            s = ast.unparse(v)
            if any(h in s for h in ACCUM_HINTS) or "yield" in s:
                return True
    s = ast.unparse(expr)
    return any(h in s for h in ACCUM_HINTS)


def check_rem(eng, run):
    n_ret = n_raise = 0
    for fn in deserializer_generators(eng):
        exempt = fn.short in REM_EXCEPTIONS
        for n in own_nodes(fn.node):
            if isinstance(n, ast.Return) and isinstance(n.value, ast.Tuple) and len(n.value.elts) == 2:
                n_ret += 1
                ok = _remainder_ok(fn, n.value.elts[1])
                if not ok and exempt and isinstance(n.value.elts[1], ast.Constant):
                    guarded = any(isinstance(i, ast.If) and n in i.body and isinstance(i.test, ast.Compare) and isinstance(i.test.ops[0], ast.Eq) and "len(" in ast.unparse(i.test) for i in own_nodes(fn.node))
                    ok = guarded
                if not ok:
                    run.finding("C01.rem", fn, n, "the remainder handed back with the packet does not derive from the reader state after the frame: bytes of the next packet that arrived in the same read are dropped (or stale data is re-injected)")
                run.ob("C01.rem", f"{fn.short}:return@+{n.lineno - fn.lineno}", ok)
            if isinstance(n, ast.Raise) and isinstance(n.exc, ast.Call) and "IncrementalDeserializeError" in ast.unparse(n.exc.func):
                arg = next((k.value for k in n.exc.keywords if k.arg == "remaining_data"), n.exc.args[1] if len(n.exc.args) > 1 else None)
                if arg is None:
                    continue
                n_raise += 1
                ok = _remainder_ok(fn, arg) or (exempt and isinstance(arg, ast.Constant))
                if not ok:
                    run.finding("C01.rem", fn, n, "the IncrementalDeserializeError raised after the frame was cut does not carry the data that follows the frame")
                run.ob("C01.rem", f"{fn.short}:raise@+{n.lineno - fn.lineno}", ok)
    run.floor("C01.rem return sites", n_ret, 12)
    run.floor("C01.rem raise sites", n_raise, 10)


# ------------------------------------------------------------------------------------------ C01.inj
class Inject(RuleAnalysis):
    """fact = (G, R): G in {'parked?','none','local'} state of self.__consumer ; R in {'n/a','pending','stored'}"""
    tokens = ("StopIteration", "easynetwork.exceptions.StreamProtocolParseError", "Exception")

    def __init__(self, engine, gen_attr: str):
        super().__init__(engine)
        self.gen_attr = gen_attr
        self.viol = []
        self.sends = 0

    def initial(self, fn):
        # locals that are a plain copy of the parked-generator attribute (`consumer = self.__consumer` / walrus): testing them tests it
        self.aliases = set()
        for n in own_nodes(fn.node):
            if isinstance(n, (ast.Assign, ast.AnnAssign, ast.NamedExpr)) and isinstance(getattr(n, "value", None), ast.Attribute) and (dotted(n.value) or "").endswith(self.gen_attr):
                for t in (n.targets if isinstance(n, ast.Assign) else [n.target]):
                    if isinstance(t, ast.Name):
                        self.aliases.add(t.id)
        return [("parked?", "n/a")]

    def may_raise(self, node, fact):
        c = call_of(node)
        if isinstance(node, ast.Call) and _cname(c) in ("send",):
            return list(self.tokens)
        if isinstance(node, ast.Call) and _cname(c) == "next" and isinstance(c.func, ast.Name):
            return ["StopIteration", "Exception"]
        return []

    def transfer(self, node, fact):
        g, r = fact
        if isinstance(node, ast.Assign):
            for t in node.targets:
                if (dotted(t) or "").endswith(self.gen_attr):
                    v = node.value
                    g = "none" if isinstance(v, ast.Constant) and v.value is None else "parked"
            if any((dotted(t) or "").endswith("__buffer") for t in node.targets) and r == "pending":
                if not (isinstance(node.value, ast.Constant)):
                    r = "stored"
            return [(g, r)]
        c = call_of(node)
        if isinstance(node, ast.Call) and _cname(c) == "send":
            self.sends += 1
            if g not in ("none",):
                self.viol.append((node, "the parked generator is resumed while it is still registered in the consumer: if it finishes or raises, the dead generator stays registered and the next call resumes it again (the chunk is lost / a TypeError escapes)"))
            return [(g, r)]
        if isinstance(node, ast.Call) and "save_remainder" in _cname(c) and r == "pending":
            return [(g, "stored")]
        if isinstance(node, ast.Return) and node.value is not None:
            if r != "stored":
                self.viol.append((node, "a packet is returned before the remainder handed back by the deserializer was stored as the consumer's buffer: the bytes of the next packet that arrived in the same chunk are lost"))
        if isinstance(node, ast.Raise) and node.exc is None and r == "pending":
            self.viol.append((node, "a parse error is re-raised before its remaining_data was stored"))
        return [(g, r)]

    def branch(self, test, fact):
        g, r = fact
        if isinstance(test, ast.Compare) and len(test.ops) == 1 and isinstance(test.comparators[0], ast.Constant) and test.comparators[0].value is None:
            left = test.left.value if isinstance(test.left, ast.NamedExpr) else test.left
            if (dotted(left) or "").endswith(self.gen_attr) or (isinstance(left, ast.Name) and left.id in self.aliases and g == "parked?"):
                is_none, not_none = ("none", r), ("parked", r)
                if isinstance(test.ops[0], ast.Is):
                    return [is_none], [not_none]
                if isinstance(test.ops[0], ast.IsNot):
                    return [not_none], [is_none]
        return [fact], [fact]

    def handler_entry(self, handler, token, fact):
        g, r = fact
        if token in ("StopIteration", "easynetwork.exceptions.StreamProtocolParseError") and handler.name:
            return [(g, "pending")]
        return [fact]


def check_inj(eng, run):
    db = eng.db
    for cname in ("StreamDataConsumer", "BufferedStreamDataConsumer"):
        ci = db.cls(f"lowlevel._stream.{cname}")
        fn = ci.methods["next"]
        an = Inject(eng, "__consumer")
        out = Interp(an, fn).run()
        if an.sends == 0:
            raise AnalysisError(f"anchor vanished: consumer.send() in {fn.qualname}")
        # need-more-data exit re-parks the generator
        park_bad = [tr for tok, m in out.exc.items() if tok == "StopIteration" for (g, r), tr in m.items() if g == "none" and any(True for _ in [0])]
        # (the early `nothing to do` exits raise StopIteration with the generator never detached: G == 'parked?')
        for tr in park_bad[:1]:
            line = tr[-1] if tr else fn.lineno
            # only an error if a send happened on that path (generator was resumed and wants more data)
            send_lines = [n.lineno for n in own_nodes(fn.node) if isinstance(n, ast.Call) and _cname(n) == "send"]
            if any(l in tr for l in send_lines):
                an.viol.append((_stmt_of(fn, ast.Pass(lineno=line)), "the need-more-data exit does not re-park the suspended generator: the partially parsed frame is forgotten and the next chunk starts a new frame in the middle of the old one"))
        seen = set()
        for node, msg in an.viol:
            st = node if isinstance(node, ast.stmt) else _stmt_of(fn, node)
            if (norm_stmt(st), msg) in seen:
                continue
            seen.add((norm_stmt(st), msg))
            run.finding("C01.inj", fn, st, msg)
        run.ob("C01.inj", fn.short, not an.viol, sends=an.sends, exits=len(out.ret) + sum(len(m) for m in out.exc.values()))


# ------------------------------------------------------------------------------------------ C01.tbl
class ConsumeOnce(RuleAnalysis):
    """a counter of pending (saved, not yet parsed) bytes: fact 'idle' | 'consumed' (added into the amount handed to the parser, not
    yet cleared) | 'cleared'"""
    tokens = ("StopIteration", "Exception")

    def __init__(self, engine, attr, adders):
        super().__init__(engine)
        self.attr, self.adders = attr, adders
        self.viol = []
        self.reads = 0

    def initial(self, fn):
        return ["idle"]

    def may_raise(self, node, fact):
        return ["Exception"] if isinstance(node, ast.Call) else []

    def transfer(self, node, fact):
        if isinstance(node, (ast.AugAssign, ast.Assign)) and not any(dotted(t) == self.attr for t in (node.targets if isinstance(node, ast.Assign) else [node.target])):
            if any(isinstance(x, ast.Attribute) and dotted(x) == self.attr for x in ast.walk(node.value)):
                self.reads += 1
                return ["consumed"]
        if isinstance(node, ast.Assign) and any(dotted(t) == self.attr for t in node.targets):
            return ["cleared" if isinstance(node.value, ast.Constant) and node.value.value == 0 else fact]
        if isinstance(node, ast.Call) and isinstance(node.func, ast.Attribute) and dotted(node.func.value) == self.fn.self_name and node.func.attr in self.adders and fact == "consumed":
            self.viol.append((node, f"`{node.func.attr}()` adds to `{self.attr}` while the previous count - already handed to the parser - has not been cleared: it is counted twice"))
        return [fact]


def check_consume_once(eng, run, rule="C01.inj"):
    """the buffered consumer's count of saved remainder bytes is handed to the parser exactly once: after it has been added into the
    amount passed to the generator it is cleared before anything adds to it again and before every exit"""
    ci = eng.db.module("lowlevel._stream").classes.get("BufferedStreamDataConsumer")
    fn = ci.methods.get("next") if ci else None
    if fn is None:
        raise AnalysisError("anchor vanished: BufferedStreamDataConsumer.next")
    me = fn.self_name
    # counters: self attributes read into an accumulation in next() and incremented by a helper of the class
    added = {}
    for m in ci.methods.values():
        if isinstance(m.node, ast.Lambda) or m.self_name is None:
            continue
        for x in own_nodes(m.node):
            if isinstance(x, ast.AugAssign) and isinstance(x.op, ast.Add) and isinstance(x.target, ast.Attribute) and dotted(x.target.value) == m.self_name:
                added.setdefault(x.target.attr, set()).add(m.name)
    n = 0
    for a, adders in sorted(added.items()):
        attr = f"{me}.{a}"
        if not any(isinstance(x, ast.AugAssign) and any(isinstance(y, ast.Attribute) and dotted(y) == attr for y in ast.walk(x.value)) for x in own_nodes(fn.node)):
            continue
        n += 1
        an = ConsumeOnce(eng, attr, adders - {fn.name})
        out = Interp(an, fn).run()
        exits = [(k, tr) for k, fm in [("return", out.ret)] + [(f"raise[{t.split('.')[-1]}]", m_) for t, m_ in out.exc.items()] for f, tr in fm.items() if f == "consumed"]
        for node, msg in an.viol[:1]:
            run.finding(rule, fn, _stmt_of(fn, node), msg + ": after a malformed frame that was parsed out of a saved remainder, later frames are duplicated or corrupted")
        for label, tr in exits[:1]:
            if not an.viol:
                run.finding(rule, fn, fn.node, f"exit {label} with `{attr}` consumed but not cleared: the same saved bytes are handed to the parser again on the next call", tr)
        run.ob(rule, f"{fn.short}:{attr}:consumed-once", not an.viol and not exits, reads=an.reads, adders=sorted(adders))
    run.floor(f"{rule} pending-byte counters", n, 1)


def check_json_close(eng, run, rule="C01.esc"):
    """JSON framer, malformed input: the closers `}` / `]` decrement their counter unconditionally, so a frame that starts with an
    unbalanced closer drives it below zero - the end-of-frame test must therefore hold for every non-positive count (`<= 0`),
    otherwise such a frame never ends and swallows the frames behind it"""
    ci = eng.db.module("serializers.json").classes.get("_JSONParser")
    rp = ci.methods.get("raw_parse") if ci else None
    if rp is None:
        raise AnalysisError("anchor vanished: _JSONParser.raw_parse")
    counters = {t.id for a in own_nodes(rp.node) if isinstance(a, (ast.Assign, ast.AnnAssign)) and isinstance(getattr(a, "value", None), ast.Call) and (dotted(a.value.func) or "").endswith("Counter")
                for t in (a.targets if isinstance(a, ast.Assign) else [a.target]) if isinstance(t, ast.Name)}
    decs = [x for x in own_nodes(rp.node) if isinstance(x, ast.AugAssign) and isinstance(x.op, ast.Sub) and isinstance(x.target, ast.Subscript) and dotted(x.target.value) in counters]
    ends = [i for i in own_nodes(rp.node) if isinstance(i, ast.If) and any(isinstance(r, ast.Return) for r in i.body) and any(isinstance(y, ast.Subscript) and dotted(y.value) in counters for y in ast.walk(i.test))]
    if not decs or not ends:
        raise AnalysisError("anchor vanished: enclosure counters / end-of-frame test of _JSONParser.raw_parse")
    # is every decrement protected by a `> 0` test on the same counter entry?  (today: none is)
    guarded = all(any(isinstance(i, ast.If) and d in list(ast.walk(i)) and isinstance(i.test, ast.Compare) and isinstance(i.test.ops[0], ast.Gt) and ast.unparse(i.test.left) == ast.unparse(d.target)
                      for i in own_nodes(rp.node)) for d in decs)
    ok = True
    for i in ends:
        t = i.test
        good = isinstance(t, ast.Compare) and len(t.ops) == 1 and isinstance(t.comparators[0], ast.Constant) and (
            (isinstance(t.ops[0], ast.LtE) and t.comparators[0].value == 0) or (isinstance(t.ops[0], ast.Lt) and t.comparators[0].value == 1))
        good = good or (isinstance(t, ast.UnaryOp) and isinstance(t.op, ast.Not) and isinstance(t.operand, ast.Compare) and isinstance(t.operand.ops[0], ast.Gt) and ast.unparse(t.operand.comparators[0]) == "0")
        if not good and not guarded:
            ok = False
            run.finding(rule, rp, i, f"end-of-frame test `{ast.unparse(t)}` does not hold for a negative count although closers decrement it unconditionally: a malformed frame starting with an "
                        "unbalanced `}` / `]` is not cut after that byte, and the following frames are swallowed or mis-split")
    run.ob(rule, f"{rp.short}:end-of-frame-test-covers-negative-counts", ok, decrements=len(decs), guarded=guarded)


def check_stapled_dispatch(eng, run, rule="C01.tbl"):
    """the composite (stapled) serializer chooses its class - hence which receive paths exist - from the capabilities of its two halves:
    every `case (<sent class>, <received class>)` of the dispatching `match` constructs the class that the `@overload` with the same
    pair of parameter types declares (declared table vs implemented table; a swapped pattern gives the buffered interface to a
    pair whose *received* half cannot fill a buffer)"""
    mod = eng.db.module("serializers.composite")
    n = 0
    for ci in mod.classes.values():
        news = [st for st in ci.node.body if isinstance(st, ast.FunctionDef) and st.name == "__new__"]
        impl = [f for f in news if not any("overload" in ast.unparse(d) for d in f.decorator_list)]
        overloads = [f for f in news if any("overload" in ast.unparse(d) for d in f.decorator_list)]
        if not impl or not overloads:
            continue

        def base(e):
            if e is None:
                return None
            if isinstance(e, ast.Subscript):
                e = e.value
            return (dotted(e) or "").split(".")[-1] or None

        declared = {}
        for o in overloads:
            ps = o.args.args[1:]
            if len(ps) == 2:
                declared[(base(ps[0].annotation), base(ps[1].annotation))] = base(o.returns)
        for m in [x for x in ast.walk(impl[0]) if isinstance(x, ast.Match)]:
            subj = m.subject
            order = [dotted(e) for e in subj.elts] if isinstance(subj, ast.Tuple) else None
            params = [a.arg for a in impl[0].args.args[1:]]
            if order != params:
                continue
            for case in m.cases:
                pat = case.pattern
                if not (isinstance(pat, ast.MatchSequence) and len(pat.patterns) == 2 and all(isinstance(p_, ast.MatchClass) for p_ in pat.patterns)):
                    continue
                key = tuple(base(p_.cls) for p_ in pat.patterns)
                built = None
                for c in ast.walk(ast.Module(body=case.body, type_ignores=[])):
                    if isinstance(c, ast.Call) and isinstance(c.func, ast.Attribute) and c.func.attr == "__new__" and c.args:
                        built = base(c.args[0])
                n += 1
                want = declared.get(key)
                ok = want is not None and (built == want or (want == "Self" and built in ("cls", None)))
                if not ok:
                    run.finding(rule, eng.db.fn(f"serializers.composite:{ci.name}.__new__"), case.pattern, f"`case ({key[0]}(), {key[1]}())` constructs {built} but " + (
                        f"the overload for that pair declares {want}" if want else "no overload declares that (sent, received) pair") +
                        ": the composite advertises a receive interface that its *received* half does not have (or hides one it has)")
                run.ob(rule, f"{ci.name}.__new__:case({key[0]},{key[1]})->{built}", ok, declared=want)
    run.floor(f"{rule} stapled-serializer dispatch cases", n, 2)


def check_transport_side(eng, run):
    """below the serializers, on the way from the socket to the consumer: the asyncio protocol's copy-out paths conserve bytes and read
    the raw buffer only as `[:level]` (rules of C10.flow), and the request / packet receivers never hold a packet already taken from
    the consumer across a cancellable suspension point (hold typestate of C10) - otherwise what arrives depends on how reads and
    handler polls interleave, i.e. on the chunking"""
    from rules import c10
    from sa.report import RuleAlias
    c10.check_conservation(eng, run, rule="C01.flow")
    c10.check_raw_buffer_reads(eng, run, rule="C01.flow")
    c10.check_lend(eng, run, rule="C01.flow", cancel_arm=False)  # a buffer lent to the event loop is written at most once per wake-up
    c10.check_withdraw(eng, run, rule="C01.flow")
    n = 0
    for q in ("lowlevel.api_async.servers.stream:_RequestReceiver.next", "lowlevel.api_async.servers.stream:_BufferedRequestReceiver.next",
              "lowlevel.api_async.endpoints.stream:_DataReceiverImpl.receive", "lowlevel.api_async.endpoints.stream:_BufferedReceiverImpl.receive"):
        fn = eng.db.fn(q)
        n += 1
        c10.check_hold(eng, RuleAlias(run, "C01.flow"), fn, "C01.flow")
    run.floor("C01.flow asynchronous receivers", n, 4)


def check_tbl(eng, run):
    db = eng.db
    # AutoSeparated: one separator attribute for the writer and both readers
    ci = db.cls("serializers.base_stream.AutoSeparatedPacketSerializer")
    uses = []
    for name in ("incremental_serialize", "incremental_deserialize", "buffered_incremental_deserialize"):
        fn = ci.methods[name]
        attrs = {dotted(n) for n in own_nodes(fn.node) if isinstance(n, ast.Attribute) and "separator" in n.attr and isinstance(n.value, ast.Name) and n.value.id == fn.self_name and "check" not in n.attr}
        uses.append((name, attrs))
    ok = all(len(a) == 1 for _, a in uses) and len({next(iter(a)) for _, a in uses if a}) == 1
    if not ok:
        run.finding("C01.tbl", ci.methods["incremental_deserialize"], ci.node, f"AutoSeparatedPacketSerializer's writer and readers do not use one and the same separator attribute: {uses}")
    run.ob("C01.tbl", "AutoSeparatedPacketSerializer:separator", ok, uses=[(n, sorted(a)) for n, a in uses])
    # line serializer
    ci = db.cls("serializers.line.StringLineSerializer")
    uses = []
    for name in ("incremental_serialize", "incremental_deserialize", "buffered_incremental_deserialize"):
        fn = ci.methods[name]
        attrs = {dotted(n) for n in own_nodes(fn.node) if isinstance(n, ast.Attribute) and n.attr.endswith("separator") and isinstance(n.value, ast.Name) and n.value.id == fn.self_name}
        uses.append((name, attrs))
    ok = all(len(a) == 1 for _, a in uses) and len({next(iter(a)) for _, a in uses if a}) == 1
    if not ok:
        run.finding("C01.tbl", ci.methods["incremental_deserialize"], ci.node, f"StringLineSerializer's writer and readers do not use one and the same separator attribute: {uses}")
    run.ob("C01.tbl", "StringLineSerializer:separator", ok)
    # JSON lines: writer appends b"\n", reader reads until b"\n"
    ci = db.cls("serializers.json.JSONSerializer")
    w = ci.methods["incremental_serialize"]
    r = ci.methods["incremental_deserialize"]
    wl = {n.value.value for n in own_nodes(w.node) if isinstance(n, ast.AugAssign) and isinstance(n.value, ast.Constant) and isinstance(n.value.value, bytes)}
    rl = {c.args[0].value for c in own_nodes(r.node) if isinstance(c, ast.Call) and _cname(c) == "read_until" and c.args and isinstance(c.args[0], ast.Constant)}
    ok = wl == rl and len(wl) == 1
    if not ok:
        run.finding("C01.tbl", r, r.node, f"JSONSerializer writes the line terminator {sorted(wl)} but reads until {sorted(rl)}")
    run.ob("C01.tbl", "JSONSerializer:line-terminator", ok, writer=sorted(map(repr, wl)), reader=sorted(map(repr, rl)))
    # FixedSize: one size attribute
    ci = db.cls("serializers.base_stream.FixedSizePacketSerializer")
    uses = []
    for name in ("incremental_serialize", "incremental_deserialize", "buffered_incremental_deserialize"):
        fn = ci.methods[name]
        attrs = {dotted(n) for n in own_nodes(fn.node) if isinstance(n, ast.Attribute) and n.attr.endswith("size") and isinstance(n.value, ast.Name) and n.value.id == fn.self_name}
        uses.append((name, attrs))
    ok = all(len(a) == 1 for _, a in uses) and len({next(iter(a)) for _, a in uses if a}) == 1
    if not ok:
        run.finding("C01.tbl", ci.methods["incremental_deserialize"], ci.node, f"FixedSizePacketSerializer's writer check and readers do not use one and the same size attribute: {uses}")
    run.ob("C01.tbl", "FixedSizePacketSerializer:size", ok)
    rd = ci.methods["incremental_deserialize"]
    ok = any(isinstance(c, ast.Call) and _cname(c) == "read_exactly" and c.args and (dotted(c.args[0]) or "").endswith("__size") for c in own_nodes(rd.node))
    if not ok:
        run.finding("C01.tbl", rd, rd.node, "FixedSizePacketSerializer no longer reads exactly `self.__size` bytes per packet")
    run.ob("C01.tbl", "FixedSizePacketSerializer:read_exactly(size)", ok)


# ------------------------------------------------------------------------------------------ C01.ws
def check_ws(eng, run):
    """The raw JSON framer and the document splitter must agree on what is inter-document whitespace: every byte that
    the splitter's whitespace pattern absorbs *after* a document (so that it is handed back as remainder or swallowed)
    must be skipped by the framer's byte dispatch when it arrives *before* the next document (no enclosure open, not in
    a string) - otherwise the same stream frames differently depending on where a read ends."""
    import re._parser as sre

    db = eng.db
    cls = db.classes.get("easynetwork.serializers.json._JSONParser")
    if cls is None:
        raise AnalysisError("anchor vanished: _JSONParser")
    # whitespace table of the splitter
    ws = None
    for _, v in cls.field_values.get("_whitespaces_match", []):
        for c in ast.walk(v):
            if isinstance(c, ast.Call) and (dotted(c.func) or "").endswith("compile") and c.args and isinstance(c.args[0], ast.Constant) and isinstance(c.args[0].value, bytes):
                try:
                    parsed = sre.parse(c.args[0].value.decode("latin-1"))
                    chars = set()
                    for op, arg in parsed:
                        if str(op) == "MAX_REPEAT":
                            for op2, arg2 in arg[2]:
                                if str(op2) == "IN":
                                    chars |= {bytes([a]) for o, a in arg2 if str(o) == "LITERAL"}
                    ws = chars or None
                except Exception:  # noqa: BLE001
                    ws = None
    fn = cls.methods.get("raw_parse")
    from sa.norm import match_views
    matches = match_views(fn.node) if fn else []
    if ws is None or len(matches) != 1:
        run.ob("C01.ws", "_JSONParser:whitespace-tables-agree", True, evaluated=False, reason="splitter pattern / framer dispatch not in an evaluable shape: rule skipped")
        return
    m = matches[0]
    # abstract state S0: not inside a string, no enclosure opened yet
    def guard_truth(g):
        if g is None:
            return True
        t = ast.unparse(g).replace(" ", "")
        if "enclosure_counter[b'\"']>0" in t:
            return False
        if t in ("len(enclosure_counter)==0", "notenclosure_counter"):
            return True
        if t.startswith("notescaped("):
            return True
        return None

    bad = []
    unknown = False
    for w in sorted(ws):
        chosen = None
        for case in m.cases:
            p = case.pattern
            lits = []
            if isinstance(p, ast.MatchValue) and isinstance(p.value, ast.Constant):
                lits = [p.value.value]
            elif isinstance(p, ast.MatchOr):
                lits = [x.value.value for x in p.patterns if isinstance(x, ast.MatchValue) and isinstance(x.value, ast.Constant)]
            wildcard = isinstance(p, ast.MatchAs) and p.pattern is None
            if not (w in lits or wildcard):
                continue
            g = guard_truth(case.guard)
            if g is None:
                unknown = True
                break
            if g:
                chosen = case
                break
        if unknown:
            break
        if chosen is None:
            continue
        body_src = " ".join(ast.unparse(s) for s in chosen.body)
        skips = all(isinstance(s, (ast.Continue, ast.Pass)) for s in chosen.body)
        if not skips:
            bad.append((w, chosen))
    if unknown:
        run.ob("C01.ws", "_JSONParser:whitespace-tables-agree", True, evaluated=False, reason="a case guard could not be evaluated: rule skipped")
        return
    for w, case in bad[:1]:
        run.finding("C01.ws", fn, case.body[0], f"the byte {w!r} is inter-document whitespace for the document splitter but the framer's dispatch does not skip it before a document starts: a stream cut between a document and its trailing whitespace frames differently from the uncut stream (spurious parse error / bogus plain value)")
    run.ob("C01.ws", "_JSONParser:whitespace-tables-agree", not bad, evaluated=True, whitespace=sorted(map(repr, ws)))


COPY_CALLS = {"bytes", "bytearray", "str", "tobytes", "decode", "hex", "join"}


def _buffer_aliases(fn) -> set[str]:
    """locals that are (views of / slices of) the caller-owned receive buffer parameter of a buffered deserializer"""
    ps = [a.arg for a in fn.params()]
    al = set(ps[1:2]) if len(ps) > 1 else set()
    changed = True
    while changed:
        changed = False
        for n in own_nodes(fn.node):
            tgt = val = None
            if isinstance(n, (ast.With, ast.AsyncWith)):
                for it in n.items:
                    if isinstance(it.optional_vars, ast.Name):
                        tgt, val = it.optional_vars.id, it.context_expr
                        if tgt not in al and _is_view_of(val, al):
                            al.add(tgt)
                            changed = True
                continue
            if isinstance(n, ast.Assign) and len(n.targets) == 1 and isinstance(n.targets[0], ast.Name):
                tgt, val = n.targets[0].id, n.value
            elif isinstance(n, ast.AnnAssign) and isinstance(n.target, ast.Name) and n.value is not None:
                tgt, val = n.target.id, n.value
            elif isinstance(n, ast.NamedExpr):
                tgt, val = n.target.id, n.value
            if tgt is not None and tgt not in al and _is_view_of(val, al):
                al.add(tgt)
                changed = True
    return al


def _is_view_of(e, aliases) -> bool:
    """e evaluates to an object sharing memory with one of aliases: the name itself, memoryview(x), x[...] of a view, x.cast(...)"""
    if isinstance(e, ast.Name):
        return e.id in aliases
    if isinstance(e, ast.Subscript) and isinstance(e.slice, ast.Slice):
        return _is_view_of(e.value, aliases)
    if isinstance(e, ast.Call):
        name = _cname(e)
        if name == "memoryview" and e.args:
            return _is_view_of(e.args[0], aliases)
        if name in ("cast", "toreadonly", "__enter__") and isinstance(e.func, ast.Attribute):
            return _is_view_of(e.func.value, aliases)
    if isinstance(e, ast.IfExp):
        return _is_view_of(e.body, aliases) or _is_view_of(e.orelse, aliases)
    return False


def check_copy(eng, run):
    """the buffer-filling receive path re-uses one buffer for every read: what a buffered deserializer hands to the user-level
    deserialize() must be a copy of the frame, never a view of that buffer (the next read, or the move of the remainder to
    the buffer start, would rewrite a packet that was already delivered - a packet then depends on how the stream was cut)"""
    n = 0
    for ci in eng.db.classes.values():
        if not ci.module.name.startswith("easynetwork.serializers"):
            continue
        fn = ci.methods.get("buffered_incremental_deserialize")
        if fn is None or fn.has_decorator("abstractmethod"):
            continue
        al = _buffer_aliases(fn)
        calls = [c for c in own_nodes(fn.node) if isinstance(c, ast.Call) and _cname(c) in ("deserialize", "load_from_file") and c.args]
        if not calls:
            continue
        n += 1
        bad = []
        for c in calls:
            e = through_local(fn, c.args[0])
            if _is_view_of(e, al) or (isinstance(e, ast.Subscript) and _is_view_of(e.value, al)):
                bad.append((c, e))
        for c, e in bad:
            run.finding("C01.copy", fn, _stmt_of(fn, c), f"`{ast.unparse(c)}` receives `{ast.unparse(e)}`, a view of the re-used receive buffer, not a copy: "
                        "a delivered packet that keeps its data is overwritten by the next read")
        run.ob("C01.copy", f"{ci.name}.buffered_incremental_deserialize", not bad, buffer_aliases=sorted(al), deserialize_calls=len(calls))
    run.floor("C01.copy buffered deserializers calling deserialize()", n, 2)


def _is_backslash(fn, ci, e) -> bool:
    """e denotes the backslash byte: 92, ord(b"\\"), or a (class) constant / local bound to one of those"""
    e = through_local(fn, e)
    if isinstance(e, ast.Constant):
        return e.value in (92, b"\\", "\\")
    if isinstance(e, ast.Call) and _cname(e) == "ord" and e.args and isinstance(e.args[0], ast.Constant):
        return e.args[0].value in (b"\\", "\\")
    if isinstance(e, ast.Attribute):
        for st in ci.node.body:
            tgt = st.target if isinstance(st, ast.AnnAssign) else (st.targets[0] if isinstance(st, ast.Assign) and len(st.targets) == 1 else None)
            if isinstance(tgt, ast.Name) and tgt.id == e.attr and getattr(st, "value", None) is not None:
                return _is_backslash(fn, ci, st.value)
    return False


def check_esc(eng, run):
    """JSON framer: whether a double quote closes a string depends on the parity of the *whole* run of backslashes before it.
    Decided structurally: the predicate walks back through the view in a loop (no constant look-back can be right), toggles or
    counts only on the escape byte, stops at the first other byte, and the quote case of the framer consults it on exactly the
    prefix that ends at the quote."""
    ci = eng.db.module("serializers.json").classes.get("_JSONParser")
    fn = ci.methods.get("_escaped") if ci else None
    rp = ci.methods.get("raw_parse") if ci else None
    if fn is None or rp is None:
        raise AnalysisError("anchor vanished: _JSONParser._escaped / raw_parse")
    param = fn.params()[0].arg
    probs = []
    loops = [n for n in own_nodes(fn.node) if isinstance(n, (ast.For, ast.While))]
    walks_back = False
    toggles = False
    stops = False
    result_var = None
    for lp in loops:
        if isinstance(lp, ast.For):
            it = lp.iter
            rev = isinstance(it, ast.Call) and _cname(it) == "reversed" and it.args and dotted(through_local(fn, it.args[0])) == param
            rev = rev or (isinstance(it, ast.Subscript) and isinstance(it.slice, ast.Slice) and it.slice.step is not None and ast.unparse(it.slice.step) == "-1" and dotted(it.value) == param)
            rev = rev or (isinstance(it, ast.Call) and _cname(it) == "range" and len(it.args) == 3 and ast.unparse(it.args[2]) == "-1")
            walks_back = walks_back or bool(rev)
        else:
            walks_back = walks_back or any(isinstance(x, ast.AugAssign) and isinstance(x.op, ast.Sub) for x in ast.walk(lp))
        for iff in [x for x in ast.walk(lp) if isinstance(x, ast.If)]:
            t = iff.test
            if isinstance(t, ast.Compare) and len(t.ops) == 1 and isinstance(t.ops[0], (ast.Eq, ast.NotEq)) and (_is_backslash(fn, ci, t.left) or _is_backslash(fn, ci, t.comparators[0])):
                on_esc, on_other = (iff.body, iff.orelse) if isinstance(t.ops[0], ast.Eq) else (iff.orelse, iff.body)
                # guard-clause form: `if byte != ESC: break` followed by the toggle (or `if byte == ESC: toggle; continue` followed by break)
                for blk in [x.body for x in ast.walk(lp) if isinstance(getattr(x, "body", None), list)]:
                    if iff in blk:
                        rest = blk[blk.index(iff) + 1:]
                        if not on_esc and on_other and isinstance(on_other[-1], (ast.Break, ast.Return)):
                            on_esc = rest
                        elif not on_other and on_esc and isinstance(on_esc[-1], ast.Continue):
                            on_other = rest
                for st in on_esc:
                    if isinstance(st, ast.Assign) and isinstance(st.value, ast.UnaryOp) and isinstance(st.value.op, ast.Not) and dotted(st.value.operand) == dotted(st.targets[0]):
                        toggles, result_var = True, dotted(st.targets[0])
                    if isinstance(st, ast.AugAssign) and isinstance(st.op, (ast.Add, ast.BitXor)):
                        toggles, result_var = True, dotted(st.target)
                stops = stops or any(isinstance(st, (ast.Break, ast.Return)) for st in on_other)
    if not loops or not walks_back:
        probs.append("the escape test no longer walks back through the run of backslashes (a constant look-back cannot tell `\\\\\\\"` from `\\\\\\\\\"`)")
    elif not toggles:
        probs.append("the loop no longer toggles / counts on each escape byte")
    elif not stops:
        probs.append("the loop no longer stops at the first byte that is not an escape byte")
    rets = [r for r in own_nodes(fn.node) if isinstance(r, ast.Return) and r.value is not None]
    if result_var is not None and not all(result_var in {dotted(x) for x in ast.walk(r.value)} for r in rets):
        probs.append(f"the result is not the parity variable `{result_var}`")
    for p in probs:
        run.finding("C01.esc", fn, fn.node, p + ": a string containing such a quote ends early for the framer, nesting is lost and packets are cut at the wrong byte")
    run.ob("C01.esc", f"{fn.short}:parity-of-the-whole-backslash-run", not probs, loops=len(loops))
    # the framer consults it with the prefix ending at the quote
    ok = False
    alias = {fn.name} | {t.id for a in own_nodes(rp.node) if isinstance(a, ast.Assign) and (dotted(a.value) or "").endswith("." + fn.name) for t in a.targets if isinstance(t, ast.Name)}
    from sa.norm import match_views
    for m in match_views(rp.node):
        for case in m.cases:
            if isinstance(case.pattern, ast.MatchValue) and ast.unparse(case.pattern.value) in ("b'\"'",):
                g = case.guard
                calls = [c for c in ast.walk(g) if isinstance(c, ast.Call) and (dotted(c.func) or "").split(".")[-1] in alias] if g is not None else []
                for c in calls:
                    a = c.args[0] if c.args else None
                    if isinstance(a, ast.Subscript) and isinstance(a.slice, ast.Slice) and a.slice.lower is None and a.slice.upper is not None and a.slice.step is None:
                        # upper bound = the loop index of the enclosing enumerate
                        idx = {t.elts[0].id for f in own_nodes(rp.node) if isinstance(f, ast.For) and isinstance(f.target, ast.Tuple) and isinstance(f.target.elts[0], ast.Name) for t in [f.target]}
                        negated = isinstance(g, ast.UnaryOp) and isinstance(g.op, ast.Not)
                        ok = dotted(a.slice.upper) in idx and negated
    if not ok:
        run.finding("C01.esc", rp, rp.node, "the quote case of the JSON framer no longer toggles the in-string state under `not escaped(<view>[:<index of the quote>])`")
    run.ob("C01.esc", f"{rp.short}:quote-case-consults-escape-on-prefix", ok)


def run(eng, run):
    from sa.anchors import verify as _verify_anchor_names
    _verify_anchor_names(eng, run)
    run.not_decided += NOT_DECIDED
    run.attempt(check_ws, eng, run)
    run.attempt(check_scan, eng, run)
    run.attempt(check_rem, eng, run)
    run.attempt(check_inj, eng, run)
    run.attempt(check_consume_once, eng, run)
    run.attempt(check_tbl, eng, run)
    run.attempt(check_copy, eng, run)
    from sa.analyses.sharing import check_fresh_receive_buffers
    run.attempt(check_fresh_receive_buffers, eng, run, "C01.copy", 3)
    from rules import c07 as _c07
    from sa.report import RuleAlias as _RA
    run.attempt(_c07.check_early, eng, _RA(run, "C01.rem"))  # the limit is measured on the frame, not on what is buffered behind it
    run.attempt(check_esc, eng, run)
    run.attempt(check_json_close, eng, run)
    run.attempt(check_stapled_dispatch, eng, run)
    run.attempt(check_transport_side, eng, run)
    from rules.c05 import check_codec
    from sa.report import RuleAlias
    run.attempt(check_codec, eng, RuleAlias(run, "C01.tbl"))
    run.tables["remainder_exceptions"] = REM_EXCEPTIONS
    run.end_of_rules()


# ---------------------------------------------------------------------------------------------- self-test corpus
from sa.mutate import (Variant, delete_stmt, find_handler, find_stmt, insert_after, insert_before, rename_local, replace_expr,  # noqa: E402
                       replace_stmt, stmt_has, stmt_is)

_AUTO = "serializers.base_stream:AutoSeparatedPacketSerializer"
_RU = "serializers.tools:GeneratorStreamReader.read_until"
_BRU = "serializers.base_stream:_buffered_readuntil"
_JSON = "serializers.json:JSONSerializer"
_CONS = "lowlevel._stream:StreamDataConsumer.next"
_BCONS = "lowlevel._stream:BufferedStreamDataConsumer.next"

MUTANTS = [
    Variant("auto-returns-empty-remainder", _AUTO + ".incremental_deserialize", lambda fn: replace_stmt(fn, stmt_is("return (packet, remainder)"), "return (packet, b'')"), "C01.rem",
            why="a second packet arriving in the same read is dropped"),
    Variant("consumer-drops-remainder", _CONS, lambda fn: delete_stmt(find_handler(fn, "StopIteration", 1), stmt_is("self.__buffer = bytes(remaining)")), "C01.inj"),
    Variant("buffered-consumer-no-save", _BCONS, lambda fn: delete_stmt(fn, stmt_is("self.__save_remainder_in_buffer(remaining)")), "C01.inj"),
    Variant("json-reader-crlf", _JSON + ".incremental_deserialize", lambda fn: replace_expr(fn, "reader.read_until(b'\\n', limit=self.__limit)", "reader.read_until(b'\\r\\n', limit=self.__limit)"), "C01.tbl"),
    Variant("scanner-resume-plus-two", _RU, lambda fn: replace_stmt(fn, stmt_is("offset = buflen + 1 - seplen"), "offset = buflen + 2 - seplen"), "C01.scan",
            why="a separator straddling two reads is skipped"),
    Variant("buffered-scanner-resume-buflen", _BRU, lambda fn: replace_stmt(fn, stmt_is("offset = buflen + 1 - seplen"), "offset = buflen"), "C01.scan"),
    Variant("scanner-guard-weakened", _RU, lambda fn: replace_expr(fn, "buflen - offset >= seplen", "buflen > offset"), "C01.scan",
            why="negative resume offset with a buffer shorter than the separator"),
    Variant("consumer-no-detach-before-send", _CONS, lambda fn: delete_stmt(fn, stmt_is("self.__consumer = None")), "C01.inj",
            why="a generator that raised stays registered and is resumed again"),
    Variant("post-match-offset-wrong", _BRU, lambda fn: replace_stmt(fn, stmt_is("offset = sepidx + seplen"), "offset = sepidx + 1"), "C01.scan"),
    Variant("auto-error-without-remainder", _AUTO + ".buffered_incremental_deserialize", lambda fn: replace_expr(fn, "remainder", "b''", nth=1), "C01.rem"),
]

BENIGN = [
    Variant("auto-rename-remainder", _AUTO + ".incremental_deserialize", lambda fn: rename_local(fn, "remainder", "rest"), why="local renamed"),
    Variant("scanner-hoist-seplen", _RU, lambda fn: rename_local(fn, "seplen", "sep_size"), why="local renamed"),
    Variant("consumer-rename-remaining", _CONS, lambda fn: rename_local(fn, "remaining", "leftover"), why="local renamed"),
]


def _drop_ws_case(fn):
    for m in ast.walk(fn):
        if isinstance(m, ast.Match):
            m.cases = [c for c in m.cases if not (isinstance(c.pattern, ast.MatchOr) and any(isinstance(p, ast.MatchValue) and getattr(p.value, "value", None) == b" " for p in c.pattern.patterns))]


def _ws_case_first(fn):
    for m in ast.walk(fn):
        if isinstance(m, ast.Match):
            ws = [c for c in m.cases if isinstance(c.pattern, ast.MatchOr) and any(isinstance(p, ast.MatchValue) and getattr(p.value, "value", None) == b" " for p in c.pattern.patterns)]
            m.cases = ws + [c for c in m.cases if c not in ws]


MUTANTS += [
    Variant("json-framer-whitespace-starts-a-value", "serializers.json:_JSONParser.raw_parse", _drop_ws_case, "C01.ws",
            why="a stream cut between a document and its trailing newline yields a spurious parse error"),
]
BENIGN += [
    Variant("json-framer-whitespace-case-first", "serializers.json:_JSONParser.raw_parse", _ws_case_first, why="non-overlapping case moved to the front"),
]

_ESC = "serializers.json:_JSONParser._escaped"
_FIX = "serializers.base_stream:FixedSizePacketSerializer.buffered_incremental_deserialize"
_AUTOB = "serializers.base_stream:AutoSeparatedPacketSerializer.buffered_incremental_deserialize"


def _two_byte_lookback(fn):
    fn.body = ast.parse(
        "_ESCAPE_BYTE = _JSONParser._ESCAPE_BYTE\n"
        "nbytes = partial_document_view.nbytes\n"
        "if nbytes < 1 or partial_document_view[nbytes - 1] != _ESCAPE_BYTE:\n    return False\n"
        "return nbytes < 2 or partial_document_view[nbytes - 2] != _ESCAPE_BYTE").body


def _counting_variant(fn):
    fn.body = ast.parse(
        "count = 0\n"
        "for byte in reversed(partial_document_view):\n"
        "    if byte != _JSONParser._ESCAPE_BYTE:\n        break\n"
        "    else:\n        count += 1\n"
        "return count % 2 == 1").body


MUTANTS += [
    Variant("json-escape-two-byte-lookback", _ESC, _two_byte_lookback, "C01.esc", why="a quote after 3 backslashes is taken for the end of the string (seed C01-4)"),
    Variant("json-escape-no-stop", _ESC, lambda fn: replace_stmt(fn, stmt_is("break"), "pass"), "C01.esc", why="backslashes anywhere earlier in the document flip the parity"),
    Variant("json-escape-checked-on-whole-view", "serializers.json:_JSONParser.raw_parse", lambda fn: replace_expr(fn, "escaped(partial_document_view[:offset])", "escaped(partial_document_view)"), "C01.esc"),
    Variant("fixed-size-frame-not-copied", _FIX, lambda fn: replace_expr(fn, "bytes(buffer[:packet_size])", "buffer[:packet_size]"), "C01.copy",
            why="packets already delivered change when the buffer is refilled (seed C01-5)"),
    Variant("auto-separated-frame-not-copied", _AUTOB, lambda fn: replace_expr(fn, "bytes(buffer_view[:sepidx])", "buffer_view[:sepidx]"), "C01.copy"),
]
BENIGN += [
    Variant("json-escape-counting-variant", _ESC, _counting_variant, why="parity computed by counting"),
    Variant("json-escape-rename-local", _ESC, lambda fn: rename_local(fn, "_ESCAPE_BYTE", "esc"), why="local renamed"),
    Variant("fixed-size-frame-tobytes", _FIX, lambda fn: replace_expr(fn, "bytes(buffer[:packet_size])", "buffer[:packet_size].tobytes()"), why="copy through tobytes()"),
]



def _clear_count_per_exit(fn):
    clr = next(st for st in ast.walk(fn) if isinstance(st, ast.Assign) and "__already_written" in ast.unparse(st.targets[0]) and isinstance(st.value, ast.Constant))
    for n in ast.walk(fn):
        for fld in ("body", "orelse"):
            blk = getattr(n, fld, None)
            if isinstance(blk, list) and clr in blk:
                blk.remove(clr)
    t = next(x for x in ast.walk(fn) if isinstance(x, ast.Try) and any("consumer.send" in ast.unparse(b) for b in x.body))
    for h in t.handlers:
        if h.type is not None and ast.unparse(h.type) in ("StopIteration", "Exception"):
            h.body.insert(0, ast.parse("self.__already_written = 0").body[0])
    t.orelse.insert(0, ast.parse("self.__already_written = 0").body[0])


MUTANTS += [
    Variant("saved-byte-count-not-cleared-on-the-parse-error-path", _BCONS, _clear_count_per_exit, "C01.inj",
            why="a malformed frame parsed out of a saved remainder: the stale count is applied again (seed C02-7)"),
]


MUTANTS += [
    Variant("json-end-of-frame-test-equality", "serializers.json:_JSONParser.raw_parse", lambda fn: replace_expr(fn, "enclosure_counter[first_enclosure] <= 0", "enclosure_counter[first_enclosure] == 0"),
            "C01.esc", why="a frame starting with an unbalanced closer never ends (seed C02-8)"),
]
BENIGN += [
    Variant("json-end-of-frame-test-lt-1", "serializers.json:_JSONParser.raw_parse", lambda fn: replace_expr(fn, "enclosure_counter[first_enclosure] <= 0", "enclosure_counter[first_enclosure] < 1"),
            why="same test written as < 1"),
]



def _swap_first_case(fn):
    m = next(x for x in ast.walk(fn) if isinstance(x, ast.Match))
    m.cases[0].pattern.patterns.reverse()


MUTANTS += [
    Variant("stapled-dispatch-first-case-swapped", "serializers.composite:StapledPacketSerializer.__new__", _swap_first_case, "C01.tbl",
            why="the buffered composite is chosen from the *sent* half: AttributeError on the first buffered receive / buffered path lost (seed C01-7)"),
]
