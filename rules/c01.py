"""C01 - stream round-trip: packets survive any chunking of the byte stream (DESIGN.md section 3, C01)."""
from __future__ import annotations

import ast

from sa.analyses.base import RuleAnalysis
from sa.analyses.buffers import assignments, deps, linear, yield_vars
from sa.db import AnalysisError, ClassInfo, FunctionInfo, dotted, mangle, norm_stmt, own_nodes
from sa.exc import CANCELLED
from sa.flow import Interp, TestAtom, call_of

CLAIM = {
    "text": "Decides the structural mechanisms without which no chunking other than 'one packet per read' can round-trip: (rem) every incremental / buffered deserializer generator and every helper it delegates to hands back a remainder that is data-dependent on the accumulating reader state after the frame (never a constant, except in the two tabled cases), also on its IncrementalDeserializeError exits; (inj) both stream consumers detach the parked generator before resuming it, re-park it only on the need-more-data exit, and store the returned remainder as the new buffer before returning a packet; (tbl) in each framing serializer the writer and all readers use the same framing datum (separator attribute, newline literal, packet size attribute); (scan) the two separator scanners search only when at least one separator length of unsearched data exists, resume at buflen + k - seplen with k <= 1 (never skipping a position where a separator straddling two reads could start, never a negative offset), advance past a match by exactly the separator length, and agree with each other on these facts.",
    "note": "Trusted: bytes.find semantics; the serializers' one-shot serialize/deserialize are inverse on valid data. Not decided: byte-level equality of the delivered packets over all chunkings; the JSON raw parser's bracket/quote/escape tracking (value level).",
    "technique": "def-use / data-dependence closures, linear-form normalisation of index expressions, typestate by abstract interpretation for the consumers, sibling comparison of extracted fact tuples",
}
NOT_DECIDED = ["byte-level round-trip equality over all chunkings", "bracket / quote / escape tracking of the raw JSON parser across chunks (value level)"]


def _stmt_of(fn, node):
    best = None
    for n in own_nodes(fn.node):
        if isinstance(n, ast.stmt) and n.lineno <= getattr(node, "lineno", 0) <= getattr(n, "end_lineno", n.lineno):
            if best is None or (n.lineno >= best.lineno and not isinstance(n, (ast.Try, ast.With, ast.For, ast.If, ast.While))):
                best = n
    return best or fn.node


def _cname(c):
    return (c.func.attr if isinstance(c.func, ast.Attribute) else getattr(c.func, "id", "")) if c is not None else ""


# ------------------------------------------------------------------------------------------ C01.scan
def scanner_facts(fn: FunctionInfo, preallocated: bool) -> dict:
    """facts of a separator scanner: guard, search shape, resume offset linear form, post-match offset"""
    facts: dict = {}
    asg = assignments(fn)
    finds = [n for n in own_nodes(fn.node) if isinstance(n, ast.Call) and _cname(n) == "find" and isinstance(n.func, ast.Attribute)]
    if len(finds) != 1:
        facts["error"] = f"{len(finds)} search calls (expected exactly 1)"
        return facts
    find = finds[0]
    bufname = dotted(find.func.value)
    sepname = dotted(find.args[0]) if find.args else None
    offname = dotted(find.args[1]) if len(find.args) > 1 else None
    facts["search_start"] = offname is not None
    facts["search_end_bounded"] = len(find.args) >= 3
    # names for buffer length and separator length, by how they are defined
    seplens = {k for k, vs in asg.items() for v in vs if isinstance(v, ast.Call) and getattr(v.func, "id", "") == "len" and v.args and dotted(v.args[0]) == sepname}
    buflens = {k for k, vs in asg.items() for v in vs if (isinstance(v, ast.Call) and getattr(v.func, "id", "") == "len" and v.args and dotted(v.args[0]) == bufname)} | (yield_vars(fn) if preallocated else set())
    facts["_names"] = (sorted(buflens), sorted(seplens), offname)

    def role(lin):
        out = {}
        for k, v in lin.items():
            r = "buflen" if k in buflens else "seplen" if k in seplens else "offset" if k == offname else "const" if k == "" else f"?{k}"
            out[r] = out.get(r, 0) + v
        return {k: v for k, v in out.items() if v != 0 or k == "const"}

    # guard: the innermost If that contains the search
    guard = None
    for iff in own_nodes(fn.node):
        if isinstance(iff, ast.If) and any(find in list(ast.walk(s)) for s in iff.body):
            if guard is None or iff.lineno > guard.lineno:
                guard = iff
    g_ok = False
    if guard is not None and isinstance(guard.test, ast.Compare) and len(guard.test.ops) == 1:
        l, r = linear(guard.test.left), linear(guard.test.comparators[0])
        if l is not None and r is not None:
            diff = dict(l)
            for k, v in r.items():
                diff[k] = diff.get(k, 0) - v
            rr = role(diff)
            # buflen - offset - seplen >= 0
            g_ok = isinstance(guard.test.ops[0], ast.GtE) and rr.get("buflen") == 1 and rr.get("offset") == -1 and rr.get("seplen") == -1 and rr.get("const", 0) == 0 and not any(k.startswith("?") for k in rr)
    facts["guard_buflen_minus_offset_ge_seplen"] = g_ok
    # resume offset: assignments to the offset variable
    resume = []
    post = []
    for n in own_nodes(fn.node):
        if isinstance(n, (ast.Assign, ast.AnnAssign)) and getattr(n, "value", None) is not None:
            tg = n.targets if isinstance(n, ast.Assign) else [n.target]
            if any(dotted(t) == offname for t in tg):
                lin = linear(n.value)
                if lin is None:
                    continue
                rr = role(lin)
                if "buflen" in rr:
                    inside = guard is not None and any(n in list(ast.walk(s)) for s in guard.body)
                    resume.append((rr, inside))
                elif any(k.startswith("?") for k in rr):
                    post.append(rr)
    facts["resume"] = [r for r, _ in resume]
    facts["resume_ok"] = bool(resume) and all(r.get("buflen") == 1 and r.get("seplen") == -1 and r.get("const", 0) <= 1 and not any(k.startswith("?") for k in r) and inside for r, inside in resume)
    facts["resume_k"] = sorted({r.get("const", 0) for r, _ in resume})
    # post-match: offset = sepidx + seplen
    facts["post_match_ok"] = bool(post) and all(p.get("seplen") == 1 and sum(1 for k in p if k.startswith("?")) == 1 and p.get("const", 0) == 0 for p in post)
    return facts


def check_scan(eng, run):
    db = eng.db
    a = db.fn("serializers.tools:GeneratorStreamReader.read_until")
    b = db.fn("serializers.base_stream:_buffered_readuntil")
    fa, fb = scanner_facts(a, False), scanner_facts(b, True)
    for fn, f, pre in ((a, fa, False), (b, fb, True)):
        if "error" in f:
            run.finding("C01.scan", fn, fn.node, f"separator scanner shape changed: {f['error']}")
            run.ob("C01.scan", fn.short, False)
            continue
        probs = []
        if not f["guard_buflen_minus_offset_ge_seplen"]:
            probs.append("the search is not guarded by `buflen - offset >= seplen`: the resume offset can become negative (bytes.find then counts from the end and skips separators that already arrived) or the search runs on less than one separator length")
        if not f["resume_ok"]:
            probs.append(f"after an unsuccessful search the offset is not `buflen + k - seplen` with k <= 1 set inside the guarded branch (found {f['resume']}): a separator straddling two reads is skipped / searched from a wrong position")
        if not f["post_match_ok"]:
            probs.append("after a match the offset is not `sepidx + seplen`")
        if pre and not f["search_end_bounded"]:
            probs.append("the search in the pre-allocated buffer has no end bound")
        if not f["search_start"]:
            probs.append("the search does not start at the resume offset (quadratic rescans / re-matching)")
        for p in probs:
            run.finding("C01.scan", fn, fn.node, p)
        run.ob("C01.scan", fn.short, not probs, facts={k: v for k, v in f.items() if not k.startswith("_")})
    keys = ("guard_buflen_minus_offset_ge_seplen", "resume_ok", "resume_k", "post_match_ok", "search_start")
    same = "error" not in fa and "error" not in fb and all(fa[k] == fb[k] for k in keys)
    if not same and "error" not in fa and "error" not in fb:
        run.finding("C01.scan", b, b.node, f"the two separator scanners disagree: {[(k, fa[k], fb[k]) for k in keys if fa[k] != fb[k]]}")
    run.ob("C01.scan", "read_until~_buffered_readuntil", same)


# ------------------------------------------------------------------------------------------ C01.rem
ACCUM_HINTS = ("read_all", "read", "unused_data", "getvalue")
REM_EXCEPTIONS = {
    # (function short name, reason)
    "_JSONParser._split_partial_document": "returns (document, b'') only under `consumed == len(partial_document)`: nothing is left",
    "AbstractCompressorSerializer.__generic_incremental_deserialize": "decompression error before the frame end is known: the stream is unrecoverable by construction (remaining_data=b'')",
}


def deserializer_generators(eng):
    db = eng.db
    root = db.cls("serializers.abc.AbstractIncrementalPacketSerializer")
    out = []
    seen = set()
    todo = []
    for ci in [root] + root.all_subclasses():
        for name in ("incremental_deserialize", "buffered_incremental_deserialize"):
            f = ci.methods.get(name)
            if f is not None and f.is_generator:
                todo.append(f)
    for q in ("serializers.json:_JSONParser.raw_parse", "serializers.json:_JSONParser._split_partial_document", "serializers.base_stream:_wrap_generic_incremental_deserialize",
              "serializers.base_stream:_wrap_generic_buffered_incremental_deserialize"):
        f = db.fn_opt(q)
        if f is not None:
            todo.append(f)
    while todo:
        f = todo.pop()
        if f.qualname in seen:
            continue
        seen.add(f.qualname)
        out.append(f)
        # private generator helpers of the same class
        if f.cls is not None:
            for n in own_nodes(f.node):
                if isinstance(n, ast.Attribute) and isinstance(n.value, ast.Name) and n.value.id == f.self_name:
                    g = f.cls.methods.get(n.attr)
                    if g is not None and g.is_generator and "deserialize" in g.name and g.qualname not in seen:
                        todo.append(g)
    return out


def _remainder_ok(fn, expr) -> bool:
    if isinstance(expr, ast.Constant):
        return False
    d = deps(fn, expr)
    if "<yield>" in d:
        return True
    params = {a.arg for a in fn.params()}
    if d & params - {fn.self_name or ""}:
        return True
    asg = assignments(fn)
    for nm in d:
        for v in asg.get(nm, []):
            s = ast.unparse(v)
            if any(h in s for h in ACCUM_HINTS) or "yield" in s:
                return True
    s = ast.unparse(expr)
    return any(h in s for h in ACCUM_HINTS)


def check_rem(eng, run):
    n_ret = n_raise = 0
    for fn in deserializer_generators(eng):
        exempt = fn.short in REM_EXCEPTIONS
        for n in own_nodes(fn.node):
            if isinstance(n, ast.Return) and isinstance(n.value, ast.Tuple) and len(n.value.elts) == 2:
                n_ret += 1
                ok = _remainder_ok(fn, n.value.elts[1])
                if not ok and exempt and isinstance(n.value.elts[1], ast.Constant):
                    guarded = any(isinstance(i, ast.If) and n in i.body and isinstance(i.test, ast.Compare) and isinstance(i.test.ops[0], ast.Eq) and "len(" in ast.unparse(i.test) for i in own_nodes(fn.node))
                    ok = guarded
                if not ok:
                    run.finding("C01.rem", fn, n, "the remainder handed back with the packet does not derive from the reader state after the frame: bytes of the next packet that arrived in the same read are dropped (or stale data is re-injected)")
                run.ob("C01.rem", f"{fn.short}:return@+{n.lineno - fn.lineno}", ok)
            if isinstance(n, ast.Raise) and isinstance(n.exc, ast.Call) and "IncrementalDeserializeError" in ast.unparse(n.exc.func):
                arg = next((k.value for k in n.exc.keywords if k.arg == "remaining_data"), n.exc.args[1] if len(n.exc.args) > 1 else None)
                if arg is None:
                    continue
                n_raise += 1
                ok = _remainder_ok(fn, arg) or (exempt and isinstance(arg, ast.Constant))
                if not ok:
                    run.finding("C01.rem", fn, n, "the IncrementalDeserializeError raised after the frame was cut does not carry the data that follows the frame")
                run.ob("C01.rem", f"{fn.short}:raise@+{n.lineno - fn.lineno}", ok)
    run.floor("C01.rem return sites", n_ret, 12)
    run.floor("C01.rem raise sites", n_raise, 10)


# ------------------------------------------------------------------------------------------ C01.inj
class Inject(RuleAnalysis):
    """fact = (G, R): G in {'parked?','none','local'} state of self.__consumer ; R in {'n/a','pending','stored'}"""
    tokens = ("StopIteration", "easynetwork.exceptions.StreamProtocolParseError", "Exception")

    def __init__(self, engine, gen_attr: str):
        super().__init__(engine)
        self.gen_attr = gen_attr
        self.viol = []
        self.sends = 0

    def initial(self, fn):
        return [("parked?", "n/a")]

    def may_raise(self, node, fact):
        c = call_of(node)
        if isinstance(node, ast.Call) and _cname(c) in ("send",):
            return list(self.tokens)
        if isinstance(node, ast.Call) and _cname(c) == "next" and isinstance(c.func, ast.Name):
            return ["StopIteration", "Exception"]
        return []

    def transfer(self, node, fact):
        g, r = fact
        if isinstance(node, ast.Assign):
            for t in node.targets:
                if (dotted(t) or "").endswith(self.gen_attr):
                    v = node.value
                    g = "none" if isinstance(v, ast.Constant) and v.value is None else "parked"
            if any((dotted(t) or "").endswith("__buffer") for t in node.targets) and r == "pending":
                if not (isinstance(node.value, ast.Constant)):
                    r = "stored"
            return [(g, r)]
        c = call_of(node)
        if isinstance(node, ast.Call) and _cname(c) == "send":
            self.sends += 1
            if g not in ("none",):
                self.viol.append((node, "the parked generator is resumed while it is still registered in the consumer: if it finishes or raises, the dead generator stays registered and the next call resumes it again (the chunk is lost / a TypeError escapes)"))
            return [(g, r)]
        if isinstance(node, ast.Call) and "save_remainder" in _cname(c) and r == "pending":
            return [(g, "stored")]
        if isinstance(node, ast.Return) and node.value is not None:
            if r != "stored":
                self.viol.append((node, "a packet is returned before the remainder handed back by the deserializer was stored as the consumer's buffer: the bytes of the next packet that arrived in the same chunk are lost"))
        if isinstance(node, ast.Raise) and node.exc is None and r == "pending":
            self.viol.append((node, "a parse error is re-raised before its remaining_data was stored"))
        return [(g, r)]

    def branch(self, test, fact):
        g, r = fact
        if isinstance(test, ast.Compare) and len(test.ops) == 1 and isinstance(test.comparators[0], ast.Constant) and test.comparators[0].value is None:
            left = test.left.value if isinstance(test.left, ast.NamedExpr) else test.left
            if (dotted(left) or "").endswith(self.gen_attr):
                is_none, not_none = ("none", r), ("parked", r)
                if isinstance(test.ops[0], ast.Is):
                    return [is_none], [not_none]
                if isinstance(test.ops[0], ast.IsNot):
                    return [not_none], [is_none]
        return [fact], [fact]

    def handler_entry(self, handler, token, fact):
        g, r = fact
        if token in ("StopIteration", "easynetwork.exceptions.StreamProtocolParseError") and handler.name:
            return [(g, "pending")]
        return [fact]


def check_inj(eng, run):
    db = eng.db
    for cname in ("StreamDataConsumer", "BufferedStreamDataConsumer"):
        ci = db.cls(f"lowlevel._stream.{cname}")
        fn = ci.methods["next"]
        an = Inject(eng, "__consumer")
        out = Interp(an, fn).run()
        if an.sends == 0:
            raise AnalysisError(f"anchor vanished: consumer.send() in {fn.qualname}")
        # need-more-data exit re-parks the generator
        park_bad = [tr for tok, m in out.exc.items() if tok == "StopIteration" for (g, r), tr in m.items() if g == "none" and any(True for _ in [0])]
        # (the early `nothing to do` exits raise StopIteration with the generator never detached: G == 'parked?')
        for tr in park_bad[:1]:
            line = tr[-1] if tr else fn.lineno
            # only an error if a send happened on that path (generator was resumed and wants more data)
            send_lines = [n.lineno for n in own_nodes(fn.node) if isinstance(n, ast.Call) and _cname(n) == "send"]
            if any(l in tr for l in send_lines):
                an.viol.append((_stmt_of(fn, ast.Pass(lineno=line)), "the need-more-data exit does not re-park the suspended generator: the partially parsed frame is forgotten and the next chunk starts a new frame in the middle of the old one"))
        seen = set()
        for node, msg in an.viol:
            st = node if isinstance(node, ast.stmt) else _stmt_of(fn, node)
            if (norm_stmt(st), msg) in seen:
                continue
            seen.add((norm_stmt(st), msg))
            run.finding("C01.inj", fn, st, msg)
        run.ob("C01.inj", fn.short, not an.viol, sends=an.sends, exits=len(out.ret) + sum(len(m) for m in out.exc.values()))


# ------------------------------------------------------------------------------------------ C01.tbl
def check_tbl(eng, run):
    db = eng.db
    # AutoSeparated: one separator attribute for the writer and both readers
    ci = db.cls("serializers.base_stream.AutoSeparatedPacketSerializer")
    uses = []
    for name in ("incremental_serialize", "incremental_deserialize", "buffered_incremental_deserialize"):
        fn = ci.methods[name]
        attrs = {dotted(n) for n in own_nodes(fn.node) if isinstance(n, ast.Attribute) and "separator" in n.attr and isinstance(n.value, ast.Name) and n.value.id == fn.self_name and "check" not in n.attr}
        uses.append((name, attrs))
    ok = all(len(a) == 1 for _, a in uses) and len({next(iter(a)) for _, a in uses if a}) == 1
    if not ok:
        run.finding("C01.tbl", ci.methods["incremental_deserialize"], ci.node, f"AutoSeparatedPacketSerializer's writer and readers do not use one and the same separator attribute: {uses}")
    run.ob("C01.tbl", "AutoSeparatedPacketSerializer:separator", ok, uses=[(n, sorted(a)) for n, a in uses])
    # line serializer
    ci = db.cls("serializers.line.StringLineSerializer")
    uses = []
    for name in ("incremental_serialize", "incremental_deserialize", "buffered_incremental_deserialize"):
        fn = ci.methods[name]
        attrs = {dotted(n) for n in own_nodes(fn.node) if isinstance(n, ast.Attribute) and n.attr.endswith("separator") and isinstance(n.value, ast.Name) and n.value.id == fn.self_name}
        uses.append((name, attrs))
    ok = all(len(a) == 1 for _, a in uses) and len({next(iter(a)) for _, a in uses if a}) == 1
    if not ok:
        run.finding("C01.tbl", ci.methods["incremental_deserialize"], ci.node, f"StringLineSerializer's writer and readers do not use one and the same separator attribute: {uses}")
    run.ob("C01.tbl", "StringLineSerializer:separator", ok)
    # JSON lines: writer appends b"\n", reader reads until b"\n"
    ci = db.cls("serializers.json.JSONSerializer")
    w = ci.methods["incremental_serialize"]
    r = ci.methods["incremental_deserialize"]
    wl = {n.value.value for n in own_nodes(w.node) if isinstance(n, ast.AugAssign) and isinstance(n.value, ast.Constant) and isinstance(n.value.value, bytes)}
    rl = {c.args[0].value for c in own_nodes(r.node) if isinstance(c, ast.Call) and _cname(c) == "read_until" and c.args and isinstance(c.args[0], ast.Constant)}
    ok = wl == rl and len(wl) == 1
    if not ok:
        run.finding("C01.tbl", r, r.node, f"JSONSerializer writes the line terminator {sorted(wl)} but reads until {sorted(rl)}")
    run.ob("C01.tbl", "JSONSerializer:line-terminator", ok, writer=sorted(map(repr, wl)), reader=sorted(map(repr, rl)))
    # FixedSize: one size attribute
    ci = db.cls("serializers.base_stream.FixedSizePacketSerializer")
    uses = []
    for name in ("incremental_serialize", "incremental_deserialize", "buffered_incremental_deserialize"):
        fn = ci.methods[name]
        attrs = {dotted(n) for n in own_nodes(fn.node) if isinstance(n, ast.Attribute) and n.attr.endswith("size") and isinstance(n.value, ast.Name) and n.value.id == fn.self_name}
        uses.append((name, attrs))
    ok = all(len(a) == 1 for _, a in uses) and len({next(iter(a)) for _, a in uses if a}) == 1
    if not ok:
        run.finding("C01.tbl", ci.methods["incremental_deserialize"], ci.node, f"FixedSizePacketSerializer's writer check and readers do not use one and the same size attribute: {uses}")
    run.ob("C01.tbl", "FixedSizePacketSerializer:size", ok)
    rd = ci.methods["incremental_deserialize"]
    ok = any(isinstance(c, ast.Call) and _cname(c) == "read_exactly" and c.args and (dotted(c.args[0]) or "").endswith("__size") for c in own_nodes(rd.node))
    if not ok:
        run.finding("C01.tbl", rd, rd.node, "FixedSizePacketSerializer no longer reads exactly `self.__size` bytes per packet")
    run.ob("C01.tbl", "FixedSizePacketSerializer:read_exactly(size)", ok)


# ------------------------------------------------------------------------------------------ C01.ws
def check_ws(eng, run):
    """The raw JSON framer and the document splitter must agree on what is inter-document whitespace: every byte that
    the splitter's whitespace pattern absorbs *after* a document (so that it is handed back as remainder or swallowed)
    must be skipped by the framer's byte dispatch when it arrives *before* the next document (no enclosure open, not in
    a string) - otherwise the same stream frames differently depending on where a read ends."""
    import re._parser as sre

    db = eng.db
    cls = db.classes.get("easynetwork.serializers.json._JSONParser")
    if cls is None:
        raise AnalysisError("anchor vanished: _JSONParser")
    # whitespace table of the splitter
    ws = None
    for _, v in cls.field_values.get("_whitespaces_match", []):
        for c in ast.walk(v):
            if isinstance(c, ast.Call) and (dotted(c.func) or "").endswith("compile") and c.args and isinstance(c.args[0], ast.Constant) and isinstance(c.args[0].value, bytes):
                try:
                    parsed = sre.parse(c.args[0].value.decode("latin-1"))
                    chars = set()
                    for op, arg in parsed:
                        if str(op) == "MAX_REPEAT":
                            for op2, arg2 in arg[2]:
                                if str(op2) == "IN":
                                    chars |= {bytes([a]) for o, a in arg2 if str(o) == "LITERAL"}
                    ws = chars or None
                except Exception:  # noqa: BLE001
                    ws = None
    fn = cls.methods.get("raw_parse")
    matches = [n for n in own_nodes(fn.node) if isinstance(n, ast.Match)] if fn else []
    if ws is None or len(matches) != 1:
        run.ob("C01.ws", "_JSONParser:whitespace-tables-agree", True, evaluated=False, reason="splitter pattern / framer dispatch not in an evaluable shape: rule skipped")
        return
    m = matches[0]
    # abstract state S0: not inside a string, no enclosure opened yet
    def guard_truth(g):
        if g is None:
            return True
        t = ast.unparse(g).replace(" ", "")
        if "enclosure_counter[b'\"']>0" in t:
            return False
        if t in ("len(enclosure_counter)==0", "notenclosure_counter"):
            return True
        if t.startswith("notescaped("):
            return True
        return None

    bad = []
    unknown = False
    for w in sorted(ws):
        chosen = None
        for case in m.cases:
            p = case.pattern
            lits = []
            if isinstance(p, ast.MatchValue) and isinstance(p.value, ast.Constant):
                lits = [p.value.value]
            elif isinstance(p, ast.MatchOr):
                lits = [x.value.value for x in p.patterns if isinstance(x, ast.MatchValue) and isinstance(x.value, ast.Constant)]
            wildcard = isinstance(p, ast.MatchAs) and p.pattern is None
            if not (w in lits or wildcard):
                continue
            g = guard_truth(case.guard)
            if g is None:
                unknown = True
                break
            if g:
                chosen = case
                break
        if unknown:
            break
        if chosen is None:
            continue
        body_src = " ".join(ast.unparse(s) for s in chosen.body)
        skips = all(isinstance(s, (ast.Continue, ast.Pass)) for s in chosen.body)
        if not skips:
            bad.append((w, chosen))
    if unknown:
        run.ob("C01.ws", "_JSONParser:whitespace-tables-agree", True, evaluated=False, reason="a case guard could not be evaluated: rule skipped")
        return
    for w, case in bad[:1]:
        run.finding("C01.ws", fn, case.body[0], f"the byte {w!r} is inter-document whitespace for the document splitter but the framer's dispatch does not skip it before a document starts: a stream cut between a document and its trailing whitespace frames differently from the uncut stream (spurious parse error / bogus plain value)")
    run.ob("C01.ws", "_JSONParser:whitespace-tables-agree", not bad, evaluated=True, whitespace=sorted(map(repr, ws)))


def run(eng, run):
    run.not_decided += NOT_DECIDED
    check_ws(eng, run)
    check_scan(eng, run)
    check_rem(eng, run)
    check_inj(eng, run)
    check_tbl(eng, run)
    run.tables["remainder_exceptions"] = REM_EXCEPTIONS


# ---------------------------------------------------------------------------------------------- self-test corpus
from sa.mutate import (Variant, delete_stmt, find_handler, find_stmt, insert_after, insert_before, rename_local, replace_expr,  # noqa: E402
                       replace_stmt, stmt_has, stmt_is)

_AUTO = "serializers.base_stream:AutoSeparatedPacketSerializer"
_RU = "serializers.tools:GeneratorStreamReader.read_until"
_BRU = "serializers.base_stream:_buffered_readuntil"
_JSON = "serializers.json:JSONSerializer"
_CONS = "lowlevel._stream:StreamDataConsumer.next"
_BCONS = "lowlevel._stream:BufferedStreamDataConsumer.next"

MUTANTS = [
    Variant("auto-returns-empty-remainder", _AUTO + ".incremental_deserialize", lambda fn: replace_stmt(fn, stmt_is("return (packet, remainder)"), "return (packet, b'')"), "C01.rem",
            why="a second packet arriving in the same read is dropped"),
    Variant("consumer-drops-remainder", _CONS, lambda fn: delete_stmt(find_handler(fn, "StopIteration", 1), stmt_is("self.__buffer = bytes(remaining)")), "C01.inj"),
    Variant("buffered-consumer-no-save", _BCONS, lambda fn: delete_stmt(fn, stmt_is("self.__save_remainder_in_buffer(remaining)")), "C01.inj"),
    Variant("json-reader-crlf", _JSON + ".incremental_deserialize", lambda fn: replace_expr(fn, "reader.read_until(b'\\n', limit=self.__limit)", "reader.read_until(b'\\r\\n', limit=self.__limit)"), "C01.tbl"),
    Variant("scanner-resume-plus-two", _RU, lambda fn: replace_stmt(fn, stmt_is("offset = buflen + 1 - seplen"), "offset = buflen + 2 - seplen"), "C01.scan",
            why="a separator straddling two reads is skipped"),
    Variant("buffered-scanner-resume-buflen", _BRU, lambda fn: replace_stmt(fn, stmt_is("offset = buflen + 1 - seplen"), "offset = buflen"), "C01.scan"),
    Variant("scanner-guard-weakened", _RU, lambda fn: replace_expr(fn, "buflen - offset >= seplen", "buflen > offset"), "C01.scan",
            why="negative resume offset with a buffer shorter than the separator"),
    Variant("consumer-no-detach-before-send", _CONS, lambda fn: delete_stmt(fn, stmt_is("self.__consumer = None")), "C01.inj",
            why="a generator that raised stays registered and is resumed again"),
    Variant("post-match-offset-wrong", _BRU, lambda fn: replace_stmt(fn, stmt_is("offset = sepidx + seplen"), "offset = sepidx + 1"), "C01.scan"),
    Variant("auto-error-without-remainder", _AUTO + ".buffered_incremental_deserialize", lambda fn: replace_expr(fn, "remainder", "b''", nth=1), "C01.rem"),
]

BENIGN = [
    Variant("auto-rename-remainder", _AUTO + ".incremental_deserialize", lambda fn: rename_local(fn, "remainder", "rest"), why="local renamed"),
    Variant("scanner-hoist-seplen", _RU, lambda fn: rename_local(fn, "seplen", "sep_size"), why="local renamed"),
    Variant("consumer-rename-remaining", _CONS, lambda fn: rename_local(fn, "remaining", "leftover"), why="local renamed"),
]


def _drop_ws_case(fn):
    for m in ast.walk(fn):
        if isinstance(m, ast.Match):
            m.cases = [c for c in m.cases if not (isinstance(c.pattern, ast.MatchOr) and any(isinstance(p, ast.MatchValue) and getattr(p.value, "value", None) == b" " for p in c.pattern.patterns))]


def _ws_case_first(fn):
    for m in ast.walk(fn):
        if isinstance(m, ast.Match):
            ws = [c for c in m.cases if isinstance(c.pattern, ast.MatchOr) and any(isinstance(p, ast.MatchValue) and getattr(p.value, "value", None) == b" " for p in c.pattern.patterns)]
            m.cases = ws + [c for c in m.cases if c not in ws]


MUTANTS += [
    Variant("json-framer-whitespace-starts-a-value", "serializers.json:_JSONParser.raw_parse", _drop_ws_case, "C01.ws",
            why="a stream cut between a document and its trailing newline yields a spurious parse error"),
]
BENIGN += [
    Variant("json-framer-whitespace-case-first", "serializers.json:_JSONParser.raw_parse", _ws_case_first, why="non-overlapping case moved to the front"),
]
