"""C06 - malformed network input only ever surfaces as a parse error (DESIGN.md section 3, C06).

Decided: the exception-TYPE clause, as an effect analysis.  Not decided: "never hangs", "each error consumes
at least one byte" (value level).
"""
from __future__ import annotations

import ast

from sa.analyses.escape import (CONVERT, DESER, DGRAMPARSE, INCR, LIMIT, RAISE_TABLE, STREAMPARSE, UNIVERSE, EscapeAnalysis,
                                EscapeSummaries)
from sa.db import AnalysisError, ClassInfo, FunctionInfo, dotted, mangle, norm_stmt, own_nodes
from sa.flow import Interp
from sa.summary import is_abstract_body

CLAIM = {
    "text": "Decides the exception-type clause for every deserialisation entry point (one-shot, incremental and buffered methods of every shipped serializer class, analysed per concrete class; the protocol builders; the two stream consumers): the set of exception classes that can escape - computed bottom-up from explicit raises, resolved repository callees and a reviewed raise table of the external decoders (str/bytes.decode, json, struct, base64, zlib, bz2, pickle, cbor2, msgpack), filtered through every handler with an exception-class lattice, with handler classes and decoder callables held in attributes resolved by write-once constant propagation - is contained in the parse-error family of that entry point; every conversion handler raises on all of its branches; one-shot errors never leak out of incremental generators. Also decided: (arms) no conversion arm is shadowed by an earlier arm; (attr) every attribute read from the caught exception exists on instances of every class the arm catches (so the arm itself cannot raise AttributeError); (gen) after a parse error no finished or dead parser generator stays parked in a stream consumer (the next call would resume it and a TypeError would escape). (lim) the accumulation guards of C07 and the bounded reads of C02 hold for the same generators: an over-long token ends in LimitOverrunError and bytes beyond the received length never take part in a parse. Round 4 (C06.rem): the remainder carried by every parse error is the unread input - the remainder rules of C01.rem, C02.lim and C07.early run under this property. Round 6: a codec chosen by configuration may raise a plain UnicodeError (synthetic leaf UnicodeError[codec]): handlers narrowed to UnicodeDecodeError no longer cover it; module-level functions handed around as callbacks (decoder hooks) raise no parse error. Round 7: the remainder-carried rule of C02 also runs here (an oversized frame must not cost the frames behind it).",
    "note": "Trusted base: the raise table (sa/analyses/escape.py RAISE_TABLE, reviewed against CPython 3.12; rows for cbor2/msgpack contain the documented sets only because those libraries are absent here); abstract methods are held to their documented contract; MemoryError/KeyboardInterrupt/SystemExit are outside the universe; configuration-dependent raises (argument validation, wrong codec names, user hooks) are excluded. Not decided: no-hang, progress per error.",
    "technique": "interprocedural exception-escape (effect) analysis by abstract interpretation with an exception-class lattice and write-once constant propagation of attribute-held classes/callables",
}
NOT_DECIDED = ["that deserialisation never hangs", "that each reported error consumes at least one byte (value level)",
               "raises of decoders that are configuration-dependent (codec names, user hooks, custom Unpickler/decoder classes)"]

SERIALIZER_ROOT = "easynetwork.serializers.abc.AbstractPacketSerializer"
ONE_SHOT_OK = {DESER, INCR, LIMIT}
INCR_OK = {INCR, LIMIT}
CONFIG_TOKENS = {"TypeError", "ValueError", "NotImplementedError", "AssertionError"}  # explicit argument validation raises


def _explicit_raise_tokens(fn: FunctionInfo) -> set[str]:
    out = set()
    for n in own_nodes(fn.node):
        if isinstance(n, ast.Raise) and isinstance(n.exc, ast.Call):
            d = dotted(n.exc.func)
            if d:
                out.add(d.split(".")[-1])
    return out


def serializer_classes(eng):
    root = eng.db.classes.get(SERIALIZER_ROOT)
    if root is None:
        raise AnalysisError("anchor vanished: AbstractPacketSerializer")
    out = [c for c in root.all_subclasses() if c.module.name.startswith("easynetwork.serializers")]
    return sorted(out, key=lambda c: c.qualname)


ENTRY_POINTS = (("deserialize", ONE_SHOT_OK, "DeserializeError"), ("incremental_deserialize", INCR_OK, "IncrementalDeserializeError"),
                ("buffered_incremental_deserialize", INCR_OK, "IncrementalDeserializeError"))


def entry_escapes(eng, summ, entry_points=ENTRY_POINTS):
    """(class, method name, label, defining function, all escaping tokens, input-dependent tokens outside the allowed set)
    for every concrete serializer entry point; shared with C05.err (one-shot only)."""
    lat = eng.lattice
    for ci in serializer_classes(eng):
        for mname, allowed, label in entry_points:
            fn = ci.find_method(mname)
            if fn is None or is_abstract_body(fn) or fn.has_decorator("abstractmethod"):
                continue
            toks = summ.escapes(fn, ci)
            bad = []
            for t in toks:
                if any(lat.is_sub(t, a) for a in allowed):
                    continue
                if t in ("StopIteration",):
                    continue
                if t in CONFIG_TOKENS:
                    continue  # argument validation / contract violations of user code: configuration-dependent
                if t == "#expected_decompress_error":
                    continue
                bad.append(t)
            yield ci, mname, label, fn, toks, bad


def check_escape(eng, run, summ):
    lat = eng.lattice
    n_entry = 0
    n_sites = 0
    if True:
        for ci, mname, label, fn, toks, bad in entry_escapes(eng, summ):
            key = (fn.qualname, ci.qualname)
            n_entry += 1
            n_sites += len(summ.sites.get(key, []))
            for t in bad:
                tr = summ.witness.get(key, {}).get(t, ())
                stmt = _stmt_on_path(fn, tr)
                run.finding("C06.esc", fn, stmt, f"`{t}` (input-dependent) can escape {ci.name}.{mname}; only {label} may: the consumer turns it into RuntimeError('... crashed') and the receive path dies", tr)
            run.ob("C06.esc", f"{ci.name}.{mname}", not bad, defined_in=fn.short, escaping=sorted(toks), external_decode_sites=len(summ.sites.get(key, [])))
    run.floor("C06.esc serializer entry points", n_entry, 40)
    all_sites = sorted({(k[0].split(":")[1], k[1].split(".")[-1] if k[1] else "", s) for k, v in summ.sites.items() for _, s in v})
    run.counters["external_decode_call_sites"] = len(all_sites)
    run.tables["external_decode_sites"] = [list(x) for x in all_sites]
    run.floor("C06.esc external decode call sites (function x receiver class x decoder)", len(all_sites), 20)
    # protocol builders and consumers
    db = eng.db
    extra = [
        ("protocol:DatagramProtocol.build_packet_from_datagram", {DGRAMPARSE, "RuntimeError"}),
        ("protocol:StreamProtocol.build_packet_from_chunks", {STREAMPARSE, "RuntimeError"}),
        ("protocol:BufferedStreamProtocol.build_packet_from_buffer", {STREAMPARSE, "RuntimeError"}),
        ("lowlevel._stream:StreamDataConsumer.next", {STREAMPARSE, "RuntimeError", "StopIteration"}),
        ("lowlevel._stream:BufferedStreamDataConsumer.next", {STREAMPARSE, "RuntimeError", "StopIteration"}),
    ]
    for q, allowed in extra:
        fn = db.fn(q)
        toks = summ.escapes(fn, fn.cls)
        bad = [t for t in toks if not any(lat.is_sub(t, a) for a in allowed) and t not in CONFIG_TOKENS]
        for t in bad:
            tr = summ.witness.get((fn.qualname, fn.cls.qualname), {}).get(t, ())
            run.finding("C06.esc", fn, _stmt_on_path(fn, tr), f"`{t}` can escape {fn.short}; only {sorted(a.split('.')[-1] for a in allowed)} may", tr)
        run.ob("C06.esc", fn.short, not bad, escaping=sorted(toks))


def _stmt_on_path(fn, trace):
    lines = [l for l in trace if fn.lineno <= l <= getattr(fn.node, "end_lineno", 10**9)]
    if lines:
        line = lines[-1]
        best = None
        for n in own_nodes(fn.node):
            if isinstance(n, ast.stmt) and getattr(n, "lineno", -1) == line:
                if best is None or not isinstance(n, (ast.Try, ast.With, ast.For, ast.If, ast.While)):
                    best = n
        if best is not None:
            return best
    return fn.node


def check_conv(eng, run):
    """Every `except <LibraryError>` arm on these paths ends in `raise` on all of its branches."""
    from sa.flow import Analysis

    class Falls(Analysis):
        tokens = ("Exception",)

        def may_raise(self, node, fact):
            return []

    n = 0
    mods = [m for m in eng.db.modules.values() if m.name.startswith("easynetwork.serializers")] + [eng.db.module("protocol")]
    for m in mods:
        for fn in [f for f in eng.db.all_functions() if f.module is m and not isinstance(f.node, ast.Lambda)]:
            if not any(k in fn.name for k in ("deserialize", "build_packet", "raw_parse", "from_tuple", "_split_partial")):
                continue
            for t in [x for x in own_nodes(fn.node) if isinstance(x, ast.Try)]:
                for h in t.handlers:
                    if h.type is None:
                        continue
                    names = eng.lattice.handler_classes(fn, h.type)
                    txt = ast.unparse(h.type)
                    is_lib = txt.startswith("self.") or (names is not None and any(x in ("UnicodeError", "UnicodeDecodeError", "Exception", "EOFError", "OSError", "ValueError") or "." in x and not x.startswith("easynetwork") for x in names))
                    if not is_lib:
                        continue
                    if names and any(x in ("StopIteration",) for x in names):
                        continue
                    n += 1
                    # does any path fall through the handler body (normal completion) or return?
                    an = Falls(eng.lattice)
                    it = Interp(an, fn)
                    out = it.exec_block(h.body, {(): ()})
                    falls = bool(out.normal) or bool(out.ret) or bool(out.brk) or bool(out.cont)
                    # a handler that stores the error for later and raises after the try is the one accepted deferral
                    if falls and _deferred_raise(fn, t, h):
                        falls = False
                    if falls:
                        run.finding("C06.conv", fn, h.body[0] if h.body else t, f"the `except {txt}` arm does not raise a parse error on every branch: a decode failure falls through as if the frame were valid")
                    run.ob("C06.conv", f"{fn.short}:except {txt}@+{h.lineno - fn.lineno}", not falls)
    run.floor("C06.conv conversion arms", n, 15)


def _deferred_raise(fn, t, h) -> bool:
    """Accepted idiom (FileBased incremental path): `except EOFError: pass` inside a loop of a generator whose
    next iteration yields for more data - EOFError from a file-like decoder means *need more bytes*, not a bad frame."""
    names = ast.unparse(h.type) if h.type is not None else ""
    if names != "EOFError":
        return False
    for loop in own_nodes(fn.node):
        if isinstance(loop, (ast.While, ast.For)) and any(x is t for x in ast.walk(loop)):
            return any(isinstance(x, ast.Yield) for x in ast.walk(loop))
    return False


def check_inc(eng, run, summ):
    """One-shot deserialize() called from an incremental generator sits under a handler that must-catch
    DeserializeError and re-raises IncrementalDeserializeError."""
    n = 0
    for ci in serializer_classes(eng):
        for mname in ("incremental_deserialize", "buffered_incremental_deserialize"):
            fn = ci.methods.get(mname)
            if fn is None or is_abstract_body(fn):
                continue
            helpers = [fn]
            # generic helpers it delegates to (same class, private)
            for x in own_nodes(fn.node):
                if isinstance(x, ast.Call) and isinstance(x.func, ast.Attribute) and isinstance(x.func.value, ast.Name) and x.func.value.id == fn.self_name:
                    g = ci.find_method(mangle(ci.name, x.func.attr)) or ci.find_method(x.func.attr)
                    if g is not None and g.is_generator and g not in helpers:
                        helpers.append(g)
            for g in helpers:
                for x in own_nodes(g.node):
                    if isinstance(x, ast.Call) and isinstance(x.func, ast.Attribute) and x.func.attr == "deserialize":
                        n += 1
                        ok = _under_handler(eng, g, x, DESER)
                        if not ok:
                            run.finding("C06.inc", g, _stmt_of(g, x), "one-shot deserialize() called from an incremental generator outside a handler that converts DeserializeError to IncrementalDeserializeError (the remainder would be lost and the wrong error type escapes)")
                        run.ob("C06.inc", f"{ci.name}.{g.name}:deserialize@+{x.lineno - g.lineno}", ok)
    run.floor("C06.inc one-shot calls in incremental generators", n, 4)


def _stmt_of(fn, node):
    best = None
    for n in own_nodes(fn.node):
        if isinstance(n, ast.stmt) and n.lineno <= node.lineno <= getattr(n, "end_lineno", n.lineno):
            if best is None or (n.lineno >= best.lineno and not isinstance(n, (ast.Try, ast.With, ast.For, ast.If, ast.While))):
                best = n
    return best or fn.node


def _under_handler(eng, fn, node, cls) -> bool:
    for t in [x for x in own_nodes(fn.node) if isinstance(x, ast.Try)]:
        if any(node in list(ast.walk(b)) for b in t.body):
            for h in t.handlers:
                names = eng.lattice.handler_classes(fn, h.type)
                if eng.lattice.match(names, cls, ()) == "must":
                    raises = [r for r in ast.walk(h) if isinstance(r, ast.Raise) and isinstance(r.exc, ast.Call)]
                    if any("IncrementalDeserializeError" in ast.unparse(r.exc.func) for r in raises):
                        return True
    return False


def check_no_parse_error_from_callbacks(eng, run):
    """the parse-error classes are raised by the serializers' own methods, where the incremental entry points convert them
    (DeserializeError -> IncrementalDeserializeError with the remainder).  A module-level function of a serializer module that is
    handed around *as a value* (a decoder hook such as json's object_pairs_hook, a default=, a key=) runs inside the third-party
    decoder: a DeserializeError raised there leaves `decoder.decode()` as it is, un-converted - the stream consumer then sees a bare
    DeserializeError, reports '... crashed' and loses the remainder."""
    n = 0
    for m in eng.db.modules.values():
        if not m.name.startswith("easynetwork.serializers"):
            continue
        as_value = set()
        for x in ast.walk(m.tree):
            if isinstance(x, ast.Call):
                for a in list(x.args) + [k.value for k in x.keywords]:
                    if isinstance(a, ast.Name) and a.id in m.functions:
                        as_value.add(a.id)
            if isinstance(x, (ast.Assign, ast.AnnAssign)) and isinstance(getattr(x, "value", None), ast.Name) and x.value.id in m.functions:
                as_value.add(x.value.id)
            if isinstance(x, ast.Dict):
                for v in x.values:
                    if isinstance(v, ast.Name) and v.id in m.functions:
                        as_value.add(v.id)
        for name in sorted(as_value):
            fn = m.functions[name]
            if isinstance(fn.node, ast.Lambda) or fn.is_generator:
                continue
            n += 1
            raises = [r for r in own_nodes(fn.node) if isinstance(r, ast.Raise) and r.exc is not None and any(k in ast.unparse(r.exc) for k in ("DeserializeError", "LimitOverrunError"))]
            for r in raises[:1]:
                run.finding("C06.esc", fn, r, f"`{name}()` is handed around as a callback and raises a parse error from inside the code that calls it back (a third-party decoder): the error is not "
                            "converted by the incremental entry point - the consumer sees a bare DeserializeError instead of IncrementalDeserializeError and the remainder is lost")
            run.ob("C06.esc", f"{m.name.split('.')[-1]}.{name}:callback-raises-no-parse-error", not raises)
    run.count("callbacks_checked", n) if hasattr(run, "count") else None


def run(eng, run):
    from sa.anchors import verify as _verify_anchor_names
    _verify_anchor_names(eng, run)
    run.not_decided += NOT_DECIDED
    run.assumptions += ["abstract serializer/converter methods obey their documented contract (raise only DeserializeError / IncrementalDeserializeError / PacketConversionError)",
                        "MemoryError, KeyboardInterrupt, SystemExit are outside the exception universe",
                        "cbor2 and msgpack are not installed in this sandbox: their rows are the documented raise sets only"]
    summ = EscapeSummaries(eng)
    run.attempt(check_escape, eng, run, summ)
    run.attempt(check_conv, eng, run)
    run.attempt(check_no_parse_error_from_callbacks, eng, run)
    run.attempt(check_inc, eng, run, summ)
    from sa.analyses.arms import check_dead_arms
    run.attempt(check_dead_arms, eng, run, "C06.arms", ("serializers", "protocol", "lowlevel._stream"), 10)
    # after a parse error the consumer is reusable: the finished / dead parser never stays parked (typestate shared with C10.parser)
    from rules.c10 import check_parser
    run.attempt(check_parser, eng, run, rule="C06.gen", dead_only=True)
    # 'very long tokens up to the configured limit' end in a LimitOverrunError (a parse error), they do not grow the buffer for ever:
    # the accumulation guards of C07; and bytes beyond the received length never take part in the parse (bounded reads of C02)
    from rules import c02, c07
    from sa.report import RuleAlias
    run.attempt(c07.check_guard, eng, RuleAlias(run, "C06.lim"))
    run.attempt(c02.check_bound, eng, RuleAlias(run, "C06.lim"))
    # 'a parse error carrying the unread remainder': the remainder rules of C01 (every error / return site of the incremental
    # generators hands on exactly the unread bytes) and of C02/C07 (what a LimitOverrunError keeps, how far it has consumed)
    from rules import c01
    run.attempt(c01.check_rem, eng, RuleAlias(run, "C06.rem"))
    run.attempt(c02.check_lim, eng, RuleAlias(run, "C06.rem"))
    run.attempt(c07.check_early, eng, RuleAlias(run, "C06.rem"))
    from sa.analyses.arms import check_handler_attrs
    from sa.analyses.escape import AttrResolver
    ar = AttrResolver(eng)
    check_handler_attrs(eng, run, "C06.attr", ("serializers", "protocol", "lowlevel._stream"), 8,
                        resolve=lambda fn, expr: ar.attr_names(fn.cls, fn, expr) if fn.cls is not None else None)
    run.tables["raise_table"] = RAISE_TABLE
    # the optimistic part of the escape analysis, spelled out: callees outside the raise table and calls without a resolved target
    run.tables["external_callees_assumed_to_raise_nothing_input_dependent"] = sorted(summ.assumed_silent)
    run.tables["calls_without_resolved_target"] = sorted({n for v in summ.unresolved.values() for n in v})
    run.counters["calls_without_resolved_target"] = len(run.tables["calls_without_resolved_target"])
    run.attempt(c02.check_parse_error_carries_remainder, eng, RuleAlias(run, "C06.rem"))  # the protocol layer hands the serializer's remainder on, also for an oversized frame
    run.end_of_rules()


# ---------------------------------------------------------------------------------------------- self-test corpus
from sa.mutate import (Variant, delete_stmt, find_handler, find_stmt, insert_after, rename_local, replace_expr, replace_stmt,  # noqa: E402
                       set_handler_type, stmt_has, stmt_is)

_JSON = "serializers.json:JSONSerializer"
_LINE = "serializers.line:StringLineSerializer"
_STRUCT = "serializers.struct:AbstractStructSerializer.deserialize"
_FIXED = "serializers.base_stream:FixedSizePacketSerializer"
_BZ2 = "serializers.wrapper.compressor:BZ2CompressorSerializer.__init__"
_B64 = "serializers.wrapper.base64:Base64EncoderSerializer.deserialize"
_FB = "serializers.base_stream:FileBasedPacketSerializer"


def _unwrap_try(fn, nth=0):
    lst, i, st = find_stmt(fn, lambda s: isinstance(s, ast.Try), nth)
    lst[i:i + 1] = st.body


def _debug_arm_without_raise(fn):
    h = find_handler(fn, "UnicodeError")
    # `if self.debug: raise X ; raise Y`  ->  `if self.debug: raise X` (non-debug falls through with an unbound packet / stale data)
    h.body = [s for s in h.body if not (isinstance(s, ast.Raise))]


MUTANTS = [
    Variant("struct-unpack-unprotected", _STRUCT, lambda fn: _unwrap_try(fn), "C06.esc", why="struct.error escapes on a short/garbled frame"),
    Variant("line-wrong-unicode-class", _LINE + ".deserialize", lambda fn: set_handler_type(fn, "UnicodeError", "UnicodeEncodeError"), "C06.esc",
            why="UnicodeDecodeError is not a UnicodeEncodeError"),
    Variant("line-buffered-debug-arm-no-raise", _LINE + ".buffered_incremental_deserialize", _debug_arm_without_raise, "C06.conv",
            why="with debug off the decode failure falls through"),
    Variant("fixed-size-no-wrapper", _FIXED + ".incremental_deserialize", lambda fn: _unwrap_try(fn), "C06.inc",
            why="DeserializeError (without remainder) leaks out of the incremental generator"),
    Variant("bz2-wrong-expected-error", _BZ2, lambda fn: replace_expr(fn, "OSError", "ValueError"), "C06.esc",
            expect_fn="AbstractCompressorSerializer", why="bz2 raises OSError on invalid data, the handler now names ValueError"),
    Variant("json-recursion-unhandled", _JSON + ".incremental_deserialize",
            lambda fn: [t.handlers.remove(h) for t in ast.walk(fn) if isinstance(t, ast.Try) for h in list(t.handlers) if h.type is not None and "RecursionError" in ast.unparse(h.type)],
            "C06.esc", why="regression of the F3 fix: deeply nested JSON kills the receive path"),
    Variant("json-int-digits-valueerror-unhandled", _JSON + ".deserialize",
            lambda fn: [setattr(h, "type", ast.parse("RecursionError", mode="eval").body) for t in ast.walk(fn) if isinstance(t, ast.Try) for h in t.handlers
                        if h.type is not None and "RecursionError" in ast.unparse(h.type)],
            "C06.esc", why="regression of the F7 fix: a 5000-digit number raises a plain ValueError that escapes"),
    Variant("base64-handler-narrowed", _B64, lambda fn: [setattr(h, "type", ast.parse("UnicodeError", mode="eval").body) for h in ast.walk(fn) if isinstance(h, ast.ExceptHandler)],
            "C06.esc", why="binascii.Error escapes"),
    Variant("filebased-eoferror-oneshot-swallowed", _FB + ".deserialize",
            lambda fn: setattr(find_handler(fn, "EOFError"), "body", [ast.parse("packet = None").body[0]]), "C06.conv",
            why="truncated one-shot data is accepted as a packet"),
]

BENIGN = [
    Variant("json-widen-handler", _JSON + ".deserialize", lambda fn: set_handler_type(fn, "(RecursionError, ValueError)", "(RecursionError, ValueError, MemoryError)"), why="wider handler"),
    Variant("line-rename-local", _LINE + ".deserialize", lambda fn: rename_local(fn, "msg", "message"), why="local renamed"),
    Variant("struct-handler-reordered-noop", _STRUCT, lambda fn: find_handler(fn, "self.__error_cls").body.insert(0, ast.parse("pass").body[0]), why="no-op statement in the handler"),
]


_CONS = "lowlevel._stream:StreamDataConsumer.next"


def _reset_only_on_finish(fn):
    delete_stmt(fn, stmt_is("self.__consumer = None"))
    for t in ast.walk(fn):
        if isinstance(t, ast.Try):
            for h in t.handlers:
                if h.type is not None and ast.unparse(h.type) in ("StopIteration", "Exception") and any("consumer.send" in ast.unparse(b) for b in t.body):
                    h.body.insert(0, ast.parse("self.__consumer = None").body[0])


MUTANTS += [
    Variant("consumer-parse-error-leaves-dead-parser-parked", _CONS, _reset_only_on_finish, "C06.gen",
            why="after a parse error raised by a resumed generator the next next() unpacks None: TypeError escapes (seed C06-1)"),
    Variant("json-recursion-merged-into-decode-arm", _JSON + ".incremental_deserialize",
            lambda fn: (set_handler_type(fn, "self.__decoder_error_cls", "(self.__decoder_error_cls, RecursionError)"), set_handler_type(fn, "(RecursionError, ValueError)", "ValueError")),
            "C06.attr", why="debug mode reads exc.doc on a RecursionError: AttributeError escapes (seed C06-4)"),
]
