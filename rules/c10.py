"""C10 - cancelling or timing out a receive never loses data (DESIGN.md section 3, C10).

In a single-threaded event loop nothing - neither another task nor a cancellation - can happen except at a
suspension point, so "for all relative orders of data arrival, cancel request and wake-up" reduces to
statements about which suspension points exist while bytes are in flight between two owners.
"""
from __future__ import annotations

import ast

from sa.analyses.hold import MARK, RET, HoldAnalysis
from sa.db import AnalysisError, FunctionInfo, dotted, mangle, norm_stmt, own_nodes
from sa.exc import CANCELLED
from sa.flow import Analysis, Interp, WithEnter, WithExit, call_of
from sa.analyses.base import RuleAnalysis

CLAIM = {
    "text": "Decides that on the receive path no local variable holds received-but-undelivered bytes or packets across a suspension point that can be cancelled (may-suspend/may-cancel summaries over the resolved call graph, shield table), that such a value is never killed or left behind on a cancellation/timeout exit, that a return value does not travel through a suspending `async with` exit, that a caller-owned buffer lent to the event loop is reclaimed on every exit and its await has a cancellation arm, that byte counts handed to protocol data callbacks are consumed on every path, and that the blocking twins have no timeout-raising call between a successful read and its delivery to the consumer. Because a cancellation can only land at a suspension point, the verdict covers every schedule. (parser) the half-fed packet parser kept in the stream consumers between receives is never taken out of the consumer state and then forgotten on a no-packet exit, and never re-bound while it is the only reference; (eof) no end-of-stream latch (BIO.write_eof / feed_eof / eof flags) is set in an except arm that can catch a cancellation or in a finally block. buffer_updated() withdraws a lent buffer before returning to the loop; (flow) the asyncio protocol's raw receive buffer is read only as `[:level]`, copy-out paths conserve bytes (linear forms, min() resolved by branch conditions), `x[-n:]` is reached only with n > 0 established, and the read water marks lie within the buffer. Round 4: a call that drives a reading method passed as an argument (`_retry_ssl_method(ssl_object.read, n)`) is a source of received data for the hold typestate; copy-out precedes in-place compaction. Round 5: get_buffer() hands the event loop the free tail `view[<fill level>:]` only; a read waiter is completed at most once (`done()` guard, C20.done). Round 6: clear() of the stream consumers and of the receivers built on them is only called from clear/close/aclose/__del__ methods (no reset of a half-fed parser on a timeout path). Round 7: _maybe_pause_transport / _maybe_resume_transport decide on the fill level, water marks, paused flag and transport only - not on the presence of a reader.",
    "note": "Trusted: source/sink/shield tables (sa/analyses/hold.py, sa/summary.py); releasing a lock does not suspend; awaits that drive the user's handler generator are not library suspension points. Known findings: F4a/F4b (asyncio buffered protocol external-buffer path) and F5 (TLS _retry_ssl_method flush after a successful read) are genuine defects recorded in known_findings.json. Not decided: value-level equality of the delivered stream.",
    "technique": "may-suspend / may-cancel interprocedural summaries + hold-across-suspension typestate by abstract interpretation (ast), must-consume analysis of protocol callbacks",
}

NOT_DECIDED = ["that the delivered bytes equal the sent bytes (value level)", "behaviour of the interpreter's own asyncio transports"]

RECEIVE_MODULE_PREFIXES = (
    "easynetwork.lowlevel.api_async.endpoints", "easynetwork.lowlevel.api_async.servers", "easynetwork.lowlevel.api_async.transports",
    "easynetwork.lowlevel.api_async.backend._asyncio", "easynetwork.lowlevel.api_async.backend._trio",
    "easynetwork.clients", "easynetwork.servers", "easynetwork.lowlevel.api_sync.endpoints",
)
BLOCKING_SYNC = {"recv", "recv_into", "send", "send_all", "send_all_from_iterable", "_retry", "acquire", "wait", "select",
                 "lock_with_timeout", "join", "recv_packet", "send_packet", "recv_noblock", "recv_from", "send_to"}


def _line_stmt(fn, line):
    best = None
    for n in own_nodes(fn.node):
        if isinstance(n, ast.stmt) and getattr(n, "lineno", -1) == line:
            if best is None or not isinstance(n, (ast.Try, ast.With, ast.AsyncWith, ast.For, ast.If, ast.While)):
                best = n
    return best if best is not None else fn.node


def hold_functions(eng, want_async=True):
    out = []
    for fn in eng.db.all_functions():
        if isinstance(fn.node, ast.Lambda) or fn.is_async != want_async:
            continue
        if not fn.module.name.startswith(RECEIVE_MODULE_PREFIXES):
            continue
        an = HoldAnalysis(eng)
        an.fn = fn
        if any(isinstance(x, ast.Call) and an.is_source_call(x) for x in own_nodes(fn.node)):
            out.append(fn)
    return out


def check_hold(eng, run, fn, rule):
    an = HoldAnalysis(eng)
    it = Interp(an, fn)
    out = it.run()
    run.count("atoms_walked", it.atoms_walked)
    reported = set()
    bad = 0
    for node, kind, var in an.problems:
        line = getattr(node, "lineno", fn.lineno)
        stmt = _line_stmt(fn, line)
        key = (norm_stmt(stmt), kind)
        if key in reported:
            continue
        reported.add(key)
        bad += 1
        if kind == "suspend":
            run.finding(rule, fn, stmt, f"un-shielded suspension point while `{var}` holds received data that has not reached its owner: a cancellation/timeout here loses it")
        elif kind == "raiser":
            run.finding(rule, fn, stmt, f"a call that can raise runs while `{var}` holds received data that has not reached its owner: the data already taken from its source is discarded and the error is reported in its place")
        else:
            run.finding(rule, fn, stmt, f"`{var}` is re-bound/deleted while it still holds undelivered received data")
    suspended_vars = {v for _, k, vs in an.problems if k == "suspend" for v in vs.split(",")}
    for kind, tok, fmap in [("return", None, out.ret)] + [("raise", t, m) for t, m in out.exc.items()]:
        for fact, trace in fmap.items():
            held = set(fact) - {RET}
            if MARK in held or not held:
                continue
            if held <= suspended_vars:
                continue  # consequence of a suspension already reported
            bad += 1
            label = kind if tok is None else f"raise[{tok.split('.')[-1]}]"
            stmt = _line_stmt(fn, trace[-1]) if trace else fn.node
            run.finding(rule, fn, stmt, f"exit {label} while `{','.join(sorted(held))}` still holds undelivered received data", trace)
    run.ob(rule, fn.short, bad == 0, sources=[getattr(s, "lineno", 0) for s in an.sources])
    return len(an.sources)


class SyncHold(HoldAnalysis):
    """Blocking twin: a call that can wait (and therefore raise TimeoutError) while data is held."""

    def transfer(self, node, fact):
        held = set(fact) - {MARK, RET}
        if held and isinstance(node, ast.Call):
            name = node.func.attr if isinstance(node.func, ast.Attribute) else getattr(node.func, "id", "")
            if name in BLOCKING_SYNC and not (self._delivered_by(node) & held) and not self.is_source_call(node):
                self.problems.append((node, "suspend", ",".join(sorted(held))))
        return super().transfer(node, fact)


def check_sync(eng, run, fn):
    an = SyncHold(eng)
    out = Interp(an, fn).run()
    bad = 0
    seen = set()
    for node, kind, var in an.problems:
        stmt = _line_stmt(fn, getattr(node, "lineno", fn.lineno))
        if (norm_stmt(stmt), kind) in seen:
            continue
        seen.add((norm_stmt(stmt), kind))
        bad += 1
        msg = f"blocking call (can raise TimeoutError) while `{var}` holds received data not yet fed to the consumer" if kind == "suspend" \
            else f"`{var}` is re-bound/deleted while it still holds undelivered received data"
        run.finding("C10.sync", fn, stmt, msg)
    for kind, tok, fmap in [("return", None, out.ret)] + [("raise", t, m) for t, m in out.exc.items()]:
        for fact, trace in fmap.items():
            held = set(fact) - {RET}
            if MARK in held or not held:
                continue
            bad += 1
            stmt = _line_stmt(fn, trace[-1]) if trace else fn.node
            run.finding("C10.sync", fn, stmt, f"exit while `{','.join(sorted(held))}` still holds undelivered received data (e.g. TimeoutError raised after a successful read)", trace)
    run.ob("C10.sync", fn.short, bad == 0, sources=len(an.sources))


# ------------------------------------------------------------------------------------------ C10.lend
class LendAnalysis(RuleAnalysis):
    """fact: 'free' | 'lent'.  A parameter-derived buffer stored into protocol state that a loop callback hands out."""
    tokens = ("OSError", "Exception", CANCELLED, "BaseException")

    def __init__(self, engine, attr: str, params: set[str]):
        super().__init__(engine)
        self.attr = attr
        self.params = params
        self.unprotected = []
        self.stores = []

    def initial(self, fn):
        return ["free"]

    def transfer(self, node, fact):
        if isinstance(node, ast.Assign) and any(dotted(t) == self.attr for t in node.targets):
            v = node.value
            if isinstance(v, ast.Constant) and v.value is None:
                return ["free"]
            if any(isinstance(n, ast.Name) and n.id in self.params for n in ast.walk(v)):
                self.stores.append(node)
                return ["lent"]
            return [fact]
        if fact == "lent" and isinstance(node, ast.Await) and self.fn is not None and self.engine.summaries.atom_may_cancel(self.fn, node):
            # is there an enclosing handler that must-catch the cancellation?
            protected = False
            for st in self.interp.ctx.stmt_stack:
                if isinstance(st, ast.Try):
                    inside_body = any(node in list(ast.walk(b)) for b in st.body)
                    if inside_body:
                        for h in st.handlers:
                            names = self.handler_types(self.fn, h.type)
                            if self.lattice.match(names, CANCELLED, self.tokens) == "must":
                                protected = True
            if not protected:
                self.unprotected.append(node)
        return [fact]


def check_lend(eng, run, rule="C10.lend", cancel_arm=True):
    db = eng.db
    n = 0
    for ci in db.classes.values():
        gb = ci.methods.get("get_buffer")
        if gb is None:
            continue
        selfn = gb.self_name
        # attributes whose value get_buffer may return
        returned = set()
        from sa.analyses.buffers import through_local
        for node in own_nodes(gb.node):
            if isinstance(node, ast.NamedExpr) and isinstance(node.value, ast.Attribute) and dotted(node.value.value) == selfn:
                returned.add(dotted(node.value))
            if isinstance(node, ast.Return) and node.value is not None:
                v = through_local(gb, node.value)  # `view = self.__x; if view is not None: return view`
                if isinstance(v, ast.Attribute) and dotted(v.value) == selfn:
                    returned.add(dotted(v))
        for fn in ci.methods.values():
            if not fn.is_async or isinstance(fn.node, ast.Lambda):
                continue
            params = {a.arg for a in fn.params()[1:]}
            for attr in sorted(returned):
                stores = [s for s in own_nodes(fn.node) if isinstance(s, ast.Assign) and any(dotted(t) == attr for t in s.targets)
                          and any(isinstance(x, ast.Name) and x.id in params for x in ast.walk(s.value))]
                if not stores:
                    continue
                n += 1
                an = LendAnalysis(eng, attr, params)
                out = Interp(an, fn).run()
                bad_exits = []
                for kind, tok, fmap in [("return", None, out.ret)] + [("raise", t, m) for t, m in out.exc.items()]:
                    for fact, trace in fmap.items():
                        if fact == "lent":
                            bad_exits.append((kind if tok is None else f"raise[{tok.split('.')[-1]}]", trace))
                for label, trace in bad_exits[:1]:
                    run.finding(rule, fn, stores[0], f"caller-owned buffer stays registered in `{attr}` on exit {label}: the event loop will write the next bytes into a buffer nobody reads (or a released one)", trace)
                run.ob(rule, f"{fn.short}:{attr}:reclaimed-on-all-exits", not bad_exits)
                if not cancel_arm:
                    continue
                for aw in an.unprotected[:1]:
                    run.finding(rule, fn, _line_stmt(fn, aw.lineno), f"await while the caller's buffer is lent through `{attr}` has no cancellation arm: bytes the loop already wrote into it are dropped with the cancelled waiter")
                run.ob(rule, f"{fn.short}:{attr}:cancellation-arm", not an.unprotected)
    run.floor(f"{rule} instances", n, 1)


# ------------------------------------------------------------------------------------------ C10.ack
SINK_CALLS = {"put_nowait", "append", "appendleft", "start_soon", "call_soon", "run", "set_result", "feed_data", "extend"}


class ConsumeAnalysis(RuleAnalysis):
    """fact: 'pending' | 'cond' | 'consumed' for one callback parameter carrying received data / a byte count."""
    tokens = ("Exception", "BaseException")

    def __init__(self, engine, param: str):
        super().__init__(engine)
        self.param = param

    def initial(self, fn):
        return ["pending"]

    def _mentions(self, e):
        return any(isinstance(n, ast.Name) and n.id == self.param for n in ast.walk(e))

    def may_raise(self, node, fact):
        return []

    def branch(self, test, fact):
        # accepted idiom: a guard on the protocol's own connection-lost state; what arrives after
        # connection_lost() has nobody to be delivered to
        from sa.analyses.base import none_test
        nt = none_test(test)
        if nt and "transport" in nt[0].lower():
            return ([fact], ["consumed"]) if not nt[1] else (["consumed"], [fact])
        d = dotted(test.operand) if isinstance(test, ast.UnaryOp) and isinstance(test.op, ast.Not) else dotted(test)
        if d and "connection_lost" in d:
            neg = isinstance(test, ast.UnaryOp)
            return ([fact], ["consumed"]) if neg else (["consumed"], [fact])
        return [fact], [fact]

    def transfer(self, node, fact):
        if fact == "consumed":
            return [fact]
        if isinstance(node, ast.AugAssign) and self._mentions(node.value):
            return ["consumed"]
        if isinstance(node, ast.Call):
            name = node.func.attr if isinstance(node.func, ast.Attribute) else getattr(node.func, "id", "")
            direct = any(self._mentions(a) and not isinstance(a, ast.Lambda) for a in list(node.args) + [k.value for k in node.keywords])
            via_lambda = any(isinstance(a, ast.Lambda) and self._mentions(a.body) for a in node.args)
            if direct and name in SINK_CALLS:
                return ["consumed"]
            if direct or via_lambda:
                # delivery through a repo helper: unconditional only if the helper calls its callback / stores its
                # argument on every path
                tg = [t for t in self.targets(node, dispatch=False) if isinstance(t, FunctionInfo)]
                if tg and all(_unconditional_delivery(t) for t in tg):
                    return ["consumed"]
                return ["cond"] if tg else [fact]
        return [fact]


def _unconditional_delivery(g: FunctionInfo) -> bool:
    """Does helper `g` invoke its callback parameter (or a sink with its parameter) outside any `if`?"""
    params = {a.arg for a in g.params()}
    for st in g.node.body:
        for n in ast.walk(st):
            if isinstance(n, ast.Call):
                nm = n.func.id if isinstance(n.func, ast.Name) else (n.func.attr if isinstance(n.func, ast.Attribute) else "")
                uses = nm in params or any(isinstance(a, ast.Name) and a.id in params for a in n.args)
                if uses and (nm in params or nm in SINK_CALLS):
                    return not isinstance(st, (ast.If, ast.Try, ast.While, ast.For))
    return False


class Withdraw(RuleAnalysis):
    """in a loop callback: fact 'unknown' | 'lent' (the lent-buffer attribute is known to be set) | 'withdrawn'"""
    tokens = ("Exception",)

    def __init__(self, engine, attr):
        super().__init__(engine)
        self.attr = attr
        self.tests = 0

    def initial(self, fn):
        return ["unknown"]

    def may_raise(self, node, fact):
        return []

    def transfer(self, node, fact):
        if isinstance(node, ast.Assign) and any(dotted(t) == self.attr for t in node.targets):
            return ["withdrawn" if isinstance(node.value, ast.Constant) and node.value.value is None else "lent"]
        return [fact]

    def branch(self, test, fact):
        t, neg = test, False
        while isinstance(t, ast.UnaryOp) and isinstance(t.op, ast.Not):
            t, neg = t.operand, not neg
        if isinstance(t, ast.Compare) and len(t.ops) == 1 and isinstance(t.comparators[0], ast.Constant) and t.comparators[0].value is None:
            left = t.left.value if isinstance(t.left, ast.NamedExpr) else t.left
            if dotted(left) == self.attr and fact == "unknown":
                self.tests += 1
                lent_when_true = isinstance(t.ops[0], ast.IsNot)
                tr, fl = (["lent"], ["withdrawn"]) if lent_when_true else (["withdrawn"], ["lent"])
                return (fl, tr) if neg else (tr, fl)
        return [fact], [fact]


def check_withdraw(eng, run, rule="C10.lend"):
    """a lent buffer is good for one delivery: the callback through which the event loop reports bytes written into it withdraws it
    before returning to the loop - otherwise the next arrival (before the waiting task runs) overwrites the first and its count
    replaces the first one"""
    n = 0
    for ci in eng.db.classes.values():
        gb = ci.methods.get("get_buffer")
        bu = ci.methods.get("buffer_updated")
        if gb is None or bu is None:
            continue
        returned = set()
        from sa.analyses.buffers import through_local
        for node in own_nodes(gb.node):
            if isinstance(node, ast.NamedExpr) and isinstance(node.value, ast.Attribute) and dotted(node.value.value) == gb.self_name:
                returned.add(node.value.attr)
            if isinstance(node, ast.Return) and node.value is not None:
                v = through_local(gb, node.value)
                if isinstance(v, ast.Attribute) and dotted(v.value) == gb.self_name:
                    returned.add(v.attr)
        # only attributes that some method fills from a parameter (a caller-owned buffer)
        lent = set()
        for fn in ci.methods.values():
            if isinstance(fn.node, ast.Lambda):
                continue
            ps = {a.arg for a in fn.params()[1:]}
            for st in own_nodes(fn.node):
                if isinstance(st, ast.Assign) and any(isinstance(x, ast.Name) and x.id in ps for x in ast.walk(st.value)):
                    for t in st.targets:
                        if isinstance(t, ast.Attribute) and t.attr in returned:
                            lent.add(t.attr)
        for a in sorted(lent):
            attr = f"{bu.self_name}.{a}"
            n += 1
            an = Withdraw(eng, attr)
            out = Interp(an, bu).run()
            bad = [tr for f, tr in out.ret.items() if f == "lent"]
            for tr in bad[:1]:
                run.finding(rule, bu, _line_stmt(bu, tr[-1]) if tr else bu.node, f"buffer_updated() returns to the event loop with the caller's buffer still registered in `{attr}` after bytes were written "
                            "into it: a second arrival before the waiting task runs overwrites them and only its count is delivered", tr)
            run.ob(rule, f"{bu.short}:{attr}:withdrawn-before-returning-to-the-loop", not bad and an.tests > 0, tests=an.tests)
    run.floor(f"{rule} lent buffers with a buffer_updated callback", n, 1)


def check_raw_buffer_reads(eng, run, rule="C10.flow"):
    """the protocol's pre-allocated receive buffer holds received bytes only below the fill level: every read of the raw buffer view is
    the slice `[:level]` (level attribute or a local copy of it); the window `[level:]` is only handed to the event loop by get_buffer();
    anything else - in particular a negative index, which counts from the physical end - reads bytes that were never received"""
    n = 0
    for ci in eng.db.classes.values():
        gb = ci.methods.get("get_buffer")
        if gb is None or ci.methods.get("buffer_updated") is None:
            continue
        me = gb.self_name
        raw = level = None
        for r in own_nodes(gb.node):
            if isinstance(r, ast.Return) and isinstance(r.value, ast.Subscript) and isinstance(r.value.slice, ast.Slice) and r.value.slice.lower is not None and r.value.slice.upper is None:
                raw, level = dotted(r.value.value), dotted(r.value.slice.lower)
        if raw is None or level is None or not raw.startswith(me + ".") or not level.startswith(me + "."):
            continue
        raw_a, level_a = raw.split(".", 1)[1], level.split(".", 1)[1]
        for fn in ci.methods.values():
            if isinstance(fn.node, ast.Lambda) or fn.self_name is None:
                continue
            lv_alias = {t.id for a in own_nodes(fn.node) if isinstance(a, (ast.Assign, ast.AnnAssign)) and dotted(getattr(a, "value", None)) == f"{fn.self_name}.{level_a}"
                        for t in (a.targets if isinstance(a, ast.Assign) else [a.target]) if isinstance(t, ast.Name)}
            raw_alias = {t.id for a in own_nodes(fn.node) if isinstance(a, (ast.Assign, ast.AnnAssign)) and dotted(getattr(a, "value", None)) == f"{fn.self_name}.{raw_a}"
                         for t in (a.targets if isinstance(a, ast.Assign) else [a.target]) if isinstance(t, ast.Name)}
            for sub in own_nodes(fn.node):
                if not (isinstance(sub, ast.Subscript) and (dotted(sub.value) == f"{fn.self_name}.{raw_a}" or (isinstance(sub.value, ast.Name) and sub.value.id in raw_alias))):
                    continue
                n += 1
                sl = sub.slice
                ok = False
                if isinstance(sl, ast.Slice) and sl.step is None:
                    up, lo = sl.upper, sl.lower
                    is_level = lambda e: e is not None and (dotted(e) == f"{fn.self_name}.{level_a}" or (isinstance(e, ast.Name) and e.id in lv_alias))  # noqa: E731
                    if lo is None and (is_level(up) or (isinstance(up, ast.Call) and isinstance(up.func, ast.Name) and up.func.id == "min" and any(is_level(a) for a in up.args))):
                        ok = True  # the received part (or a prefix of it)
                    elif up is None and is_level(lo) and fn is gb:
                        ok = True  # the free window, handed to the loop
                if not ok:
                    run.finding(rule, fn, _line_stmt(fn, sub.lineno), f"`{ast.unparse(sub)}` addresses the raw receive buffer outside `[:{level_a}]`: it reads (or moves) bytes beyond the fill level - "
                                "stale or zero bytes take the place of received data")
                run.ob(rule, f"{fn.short}:{ast.unparse(sub)[:50]}", ok)
    run.floor(f"{rule} raw receive-buffer subscripts", n, 1)


def check_conservation(eng, run, rule="C10.flow"):
    """no byte lost, none duplicated when data is copied out of the protocol's internal buffer: on every loop-free path of the methods
    that lower the fill level, level_after + bytes_handed_out == level_before (linear forms over the level, the caller's buffer
    size and the requested size; min() resolved by the path's own branch conditions; sa/analyses/conserve.py)"""
    # the region handed to the event loop for the next read is the free tail of the internal buffer: `view[<fill level>:]` where the fill
    # level is the attribute buffer_updated() adds the received count to - any other region overlaps bytes that were received but not read
    for ci_ in eng.db.classes.values():
        gb_, bu_ = ci_.methods.get("get_buffer"), ci_.methods.get("buffer_updated")
        if gb_ is None or bu_ is None or isinstance(gb_.node, ast.Lambda):
            continue
        levels_ = {dotted(a.target) for a in own_nodes(bu_.node) if isinstance(a, ast.AugAssign) and isinstance(a.op, ast.Add) and isinstance(a.target, ast.Attribute)}
        levels_ = {l.split(".", 1)[1] for l in levels_ if l and "." in l}
        rets_ = [r for r in own_nodes(gb_.node) if isinstance(r, ast.Return) and isinstance(r.value, ast.Subscript) and isinstance(r.value.slice, ast.Slice)]
        for r in rets_:
            sl = r.value.slice
            low = (dotted(sl.lower) or "").split(".", 1)[-1] if sl.lower is not None else None
            ok_ = low in levels_ and sl.upper is None and sl.step is None
            if not ok_:
                run.finding(rule, gb_, r, f"get_buffer() hands the event loop `{ast.unparse(r.value)[:70]}` instead of the free tail `view[<fill level>:]`: data that arrives while earlier bytes are still "
                            "unread is written over them")
            run.ob(rule, f"{gb_.short}:free-tail-only", ok_, fill_level=sorted(levels_))
    from sa.analyses.conserve import check_read_before_compaction
    check_read_before_compaction(eng, run, rule, 1)
    from sa.analyses.conserve import check_function
    n_paths = n_fn = 0
    for ci in eng.db.classes.values():
        gb = ci.methods.get("get_buffer")
        if gb is None or ci.methods.get("buffer_updated") is None:
            continue
        level = None
        for r in own_nodes(gb.node):
            if isinstance(r, ast.Return) and isinstance(r.value, ast.Subscript) and isinstance(r.value.slice, ast.Slice) and r.value.slice.lower is not None and r.value.slice.upper is None:
                level = dotted(r.value.slice.lower)
        if level is None:
            continue
        attr = level.split(".", 1)[1]
        for fn in ci.methods.values():
            if isinstance(fn.node, ast.Lambda) or fn.self_name is None or fn.name in ("__init__", "connection_made", "connection_lost", "buffer_updated", "get_buffer"):
                continue  # (the event-loop callbacks fill the buffer; the rule is about the functions that hand bytes out)
            la = f"{fn.self_name}.{attr}"
            if not any(isinstance(x, (ast.Assign, ast.AugAssign)) and any(dotted(t) == la for t in (x.targets if isinstance(x, ast.Assign) else [x.target])) for x in own_nodes(fn.node)):
                continue
            n_fn += 1
            try:
                res = check_function(fn, la)
            except OverflowError:
                run.ob(rule, f"{fn.short}:byte-conservation", True, evaluated=False, reason="too many paths")
                continue
            bad = [(p, why) for v, p, why in res if v == "violated"]
            negs = sorted({why for v, p, why in res if v == "negslice"})
            for why in negs[:1]:
                run.finding(rule, fn, fn.node, f"{why}: for 0 the slice `x[-0:]` is the whole buffer, not an empty tail - the exact-fit case raises ValueError (or copies the wrong bytes) and the fill level is left inconsistent")
            bad = bad + [(None, w) for w in negs][:0]
            und = [why for v, p, why in res if v == "undecided"]
            n_paths += sum(1 for v, _, _ in res if v in ("ok", "no-effect"))
            for p_, why in bad[:1]:
                run.finding(rule, fn, fn.node, f"bytes are not conserved on a path that copies data out of the internal receive buffer: {why} - "
                            "bytes of the stream are dropped or delivered twice, depending on the sizes of the caller's buffer and of the backlog")
            run.ob(rule, f"{fn.short}:byte-conservation", not bad and not negs, decided_paths=sum(1 for v, _, _ in res if v != "undecided"), undecided=und)
    run.floor(f"{rule} copy-out functions", n_fn, 2)
    run.floor(f"{rule} copy-out paths decided", n_paths, 6)


def check_ack(eng, run):
    n = 0
    for ci in eng.db.classes.values():
        if not any("Protocol" in e.split(".")[-1] for c in ci.mro() for e in c.external_bases):
            continue
        for name in ("buffer_updated", "datagram_received", "data_received"):
            fn = ci.methods.get(name)
            if fn is None or len(fn.params()) < 2:
                continue
            p = fn.params()[1].arg
            n += 1
            an = ConsumeAnalysis(eng, p)
            out = Interp(an, fn).run()
            bad = [(f, tr) for f, tr in out.ret.items() if f != "consumed"]
            for f, tr in bad[:1]:
                how = "only through a helper that silently does nothing when its guard is false" if f == "cond" else "not at all"
                run.finding("C10.ack", fn, _line_stmt(fn, tr[-2] if len(tr) > 1 else fn.lineno) if tr else fn.node,
                            f"`{p}` (received data / byte count handed in by the event loop) is consumed {how} on a path to return: those bytes are lost", tr)
            run.ob("C10.ack", f"{fn.short}:{p}", not bad)
    run.floor("C10.ack callbacks", n, 3)


# ------------------------------------------------------------------------------------------ C10.parser
class ParserState(RuleAnalysis):
    """The half-fed packet parser (a generator holding every byte of the incomplete packet) kept in consumer state between
    receives.  fact = (state, alias): state 'instate' (stored in the attribute), 'taken' (attribute reset, generator only in a
    local), 'none' (known absent), 'done' (finished / died in send())."""
    tokens = ("StopIteration", "Exception")
    precise_raise_tokens = True

    def __init__(self, engine, attr):
        super().__init__(engine)
        self.attr = attr
        self.dropped = []

    def initial(self, fn):
        return [("instate", None)]

    def _drives(self, node, alias):
        c = node if isinstance(node, ast.Call) else None
        if c is None or alias is None:
            return False
        if isinstance(c.func, ast.Attribute) and dotted(c.func.value) == alias and c.func.attr in ("send", "throw", "close", "__next__"):
            return True
        return isinstance(c.func, ast.Name) and c.func.id == "next" and c.args and dotted(c.args[0]) == alias

    def may_raise(self, node, fact):
        if isinstance(node, ast.Call):
            return ["StopIteration", "Exception"] if self._drives(node, fact[1]) else ["Exception"]
        return []

    def raise_fact(self, node, fact, token):
        if self._drives(node, fact[1]) and fact[0] in ("taken", "instate"):
            # the generator finished (StopIteration) or died: harmless if it was detached, a wedge if it is still parked
            return [("done" if fact[0] == "taken" else "deadstate", fact[1])]
        return [fact]

    def _resets_unconditionally(self, call):
        """self.<helper>(...) whose body resets the attribute at its top level (not under a condition)"""
        if not (isinstance(call.func, ast.Attribute) and dotted(call.func.value) == self.fn.self_name and self.fn.cls is not None):
            return False
        h = self.fn.cls.find_method(call.func.attr)
        if h is None:
            return False
        attr = self.attr.split(".", 1)[1]
        for st in h.node.body:
            if isinstance(st, ast.Assign) and isinstance(st.value, ast.Constant) and st.value.value is None and any(dotted(t) == f"{h.self_name}.{attr}" for t in st.targets):
                return True
            if isinstance(st, ast.Assign) and isinstance(st.value, ast.Tuple) and any(isinstance(t, ast.Tuple) and any(dotted(x) == f"{h.self_name}.{attr}" and isinstance(v, ast.Constant) and v.value is None
                                                                                                                       for x, v in zip(t.elts, st.value.elts)) for t in st.targets):
                return True
        return False

    def _assign(self, target, value, fact):
        state, alias = fact
        t, v = dotted(target), dotted(value) if value is not None else None
        if t == self.attr:
            if isinstance(value, ast.Constant) and value.value is None:
                if state == "deadstate":
                    return ("done", alias)
                if state == "instate":
                    if alias is None:
                        self.dropped.append((target, "the attribute is reset while no local refers to the parser"))
                        return ("none", alias)
                    return ("taken", alias)
                return (state if state != "instate" else "none", alias)
            if state == "done" and v == alias:
                return ("deadstate", alias)  # a finished generator is parked again
            return ("instate", alias)
        if isinstance(target, ast.Name):
            if v == self.attr:
                return (state, target.id)
            if target.id == alias and state == "taken":
                self.dropped.append((target, f"`{alias}` is re-bound while it is the only reference to the parser"))
                return ("none", None)
            if target.id == alias:
                return (state, None)
        return fact

    def transfer(self, node, fact):
        if isinstance(node, ast.Call) and fact[0] in ("deadstate", "instate") and self._resets_unconditionally(node):
            return [("done" if fact[0] == "deadstate" else "none", fact[1])]
        if isinstance(node, ast.NamedExpr):
            return [self._assign(node.target, node.value, fact)]
        if isinstance(node, (ast.Assign, ast.AnnAssign)) and node.value is not None:
            tgs = node.targets if isinstance(node, ast.Assign) else [node.target]
            for tg in tgs:
                if isinstance(tg, ast.Tuple) and isinstance(node.value, ast.Tuple) and len(tg.elts) == len(node.value.elts):
                    # right-hand side is evaluated first: bind locals before resetting the attribute
                    pairs = sorted(zip(tg.elts, node.value.elts), key=lambda p: 0 if isinstance(p[0], ast.Name) else 1)
                    for a, b in pairs:
                        fact = self._assign(a, b, fact)
                else:
                    fact = self._assign(tg, node.value, fact)
            return [fact]
        return [fact]

    def branch(self, test, fact):
        state, alias = fact
        t, neg = test, False
        while isinstance(t, ast.UnaryOp) and isinstance(t.op, ast.Not):
            t, neg = t.operand, not neg
        subj = None
        none_when_true = None
        if isinstance(t, ast.Compare) and len(t.ops) == 1 and isinstance(t.comparators[0], ast.Constant) and t.comparators[0].value is None:
            left = t.left.target if isinstance(t.left, ast.NamedExpr) else t.left
            subj = dotted(left)
            none_when_true = isinstance(t.ops[0], ast.Is)
        elif isinstance(t, (ast.Name, ast.Attribute)):
            subj, none_when_true = dotted(t), False
        if subj is not None and subj in (alias, self.attr) and state in ("instate", "taken") and (subj != self.attr or state == "instate"):
            absent, present = [("none", alias)], [fact]
            tr, fl = (absent, present) if none_when_true else (present, absent)
            return (fl, tr) if neg else (tr, fl)
        return [fact], [fact]


def check_parser(eng, run, rule="C10.parser", dead_only=False):
    """a receive that ends without a packet (StopIteration: need more data, timeout, cancellation upstream) keeps the half-fed
    parser: it is never taken out of the consumer state and then forgotten"""
    n = 0
    for cname in ("StreamDataConsumer", "BufferedStreamDataConsumer"):
        ci = eng.db.module("lowlevel._stream").classes.get(cname)
        fn = ci.methods.get("next") if ci else None
        if fn is None:
            raise AnalysisError(f"anchor vanished: {cname}.next")
        # the attribute holding the generator: assigned None in __init__ and assigned from a local elsewhere, driven with .send()
        sent = {dotted(c.func.value) for c in own_nodes(fn.node) if isinstance(c, ast.Call) and isinstance(c.func, ast.Attribute) and c.func.attr == "send"}
        attrs = {dotted(t) for a in own_nodes(fn.node) if isinstance(a, ast.Assign) for t in a.targets if isinstance(t, ast.Attribute) and dotted(a.value) in sent}
        attrs |= {dotted(a.value) for a in own_nodes(fn.node) if isinstance(a, (ast.NamedExpr, ast.Assign)) and isinstance(a.value, ast.Attribute)
                  and any(dotted(t) in sent for t in ([a.target] if isinstance(a, ast.NamedExpr) else a.targets))}
        attrs |= {dotted(v) for a in own_nodes(fn.node) if isinstance(a, ast.Assign) and isinstance(a.value, ast.Tuple) for t in a.targets if isinstance(t, ast.Tuple)
                  for x, v in zip(t.elts, a.value.elts) if dotted(x) in sent and isinstance(v, ast.Attribute)}
        if len(attrs) != 1:
            raise AnalysisError(f"anchor vanished: parser attribute of {cname}.next ({sorted(attrs)})")
        attr = next(iter(attrs))
        an = ParserState(eng, attr)
        out = Interp(an, fn).run()
        n += 1
        bad = []
        dead = []
        for kind, tok, fmap in [("return", None, out.ret)] + [("raise", t, m) for t, m in out.exc.items()]:
            for fact, tr in fmap.items():
                if fact[0] == "taken" and not dead_only:
                    bad.append((f"{kind}{'[' + tok + ']' if tok else ''}", tr))
                if fact[0] == "deadstate":
                    dead.append((f"{kind}{'[' + tok.split('.')[-1] + ']' if tok else ''}", tr))
        for label, tr in dead[:1]:
            run.finding(rule, fn, _line_stmt(fn, tr[-1]) if tr else fn.node, f"exit {label} while a finished / dead packet parser is still parked in `{attr}`: the next call resumes it, "
                        "a TypeError escapes and the consumer stays wedged for every later receive", tr)
        bad = bad + dead if False else bad
        for label, tr in bad[:1]:
            run.finding(rule, fn, _line_stmt(fn, tr[-1]) if tr else fn.node, f"exit {label} after the half-fed parser was taken out of `{attr}` and neither driven nor stored back: "
                        "every byte of the incomplete packet received before a timed-out / cancelled receive is forgotten", tr)
        for node, msg in ([] if dead_only else an.dropped[:1]):
            run.finding(rule, fn, _line_stmt(fn, node.lineno), msg)
        run.ob(rule, f"{fn.short}:{attr}:never-dropped-nor-parked-dead", not bad and not dead and not (an.dropped and not dead_only), exits=len(out.ret) + sum(len(m) for m in out.exc.values()))
    run.floor(f"{rule} consumers", n, 2)


# ------------------------------------------------------------------------------------------ C10.eof
def _eof_effects(stmts):
    """end-of-stream latches (BIO.write_eof / feed_eof, `<x>.…eof… = True`) directly in stmts, not inside a nested except arm"""
    stack = list(stmts)
    while stack:
        n = stack.pop()
        if isinstance(n, (ast.ExceptHandler, ast.FunctionDef, ast.AsyncFunctionDef, ast.Lambda)):
            continue
        if isinstance(n, ast.Call) and isinstance(n.func, ast.Attribute) and n.func.attr in ("write_eof", "feed_eof"):
            yield n
        if isinstance(n, ast.Assign) and any(isinstance(t, ast.Attribute) and "eof" in t.attr.lower() for t in n.targets) and isinstance(n.value, ast.Constant) and n.value.value is True:
            yield n
        stack.extend(ast.iter_child_nodes(n))


def _eof_effects_inl(fn, stmts):
    """_eof_effects, also looking into the private helpers called from stmts (an extracted `mark both BIOs EOF` helper)"""
    from sa.norm import private_helper
    yield from _eof_effects(stmts)
    for st in stmts:
        for c in ast.walk(st):
            if isinstance(c, ast.Call):
                g = private_helper(fn, c)
                if g is not None and any(True for _ in _eof_effects(g.node.body)):
                    yield c


def check_eof_latch(eng, run):
    """a cancelled / timed-out receive must leave the stream usable: no end-of-stream latch is set on an exception path that a
    cancellation can take (an arm that may catch it, or a finally block)"""
    n_arms = n_eff = 0
    toks = ("OSError", "Exception", CANCELLED, "BaseException")
    for fn in eng.db.all_functions():
        if isinstance(fn.node, ast.Lambda) or not fn.module.name.startswith(("easynetwork.lowlevel", "easynetwork.clients")):
            continue
        for t in own_nodes(fn.node):
            if not isinstance(t, ast.Try):
                continue
            for h in t.handlers:
                effs = list(_eof_effects_inl(fn, h.body))
                if not effs:
                    continue
                n_arms += 1
                n_eff += len(effs)
                m = eng.lattice.match(eng.lattice.handler_classes(fn, h.type), CANCELLED, toks)
                if m != "no":
                    run.finding("C10.eof", fn, _line_stmt(fn, effs[0].lineno), f"`{ast.unparse(effs[0])[:60]}` runs in `except {ast.unparse(h.type) if h.type else ''}`, which a cancellation can enter: "
                                "a cancelled receive marks the stream as ended and everything the peer sends afterwards is lost")
                run.ob("C10.eof", f"{fn.short}:except {ast.unparse(h.type)[:32] if h.type else ''}", m == "no", effects=len(effs))
            effs = list(_eof_effects_inl(fn, t.finalbody))
            if effs:
                n_arms += 1
                run.finding("C10.eof", fn, _line_stmt(fn, effs[0].lineno), f"`{ast.unparse(effs[0])[:60]}` runs in a finally block, i.e. also when the receive is cancelled")
                run.ob("C10.eof", f"{fn.short}:finally", False)
    run.floor("C10.eof exception arms with an end-of-stream latch", n_arms, 2)


def check_consumer_reset_sites(eng, run):
    """who may reset a stream consumer: `clear()` of the consumers (lowlevel/_stream.py) and of the receivers built on them throws away
    the buffered bytes *and* the half-fed parser; it is part of closing.  Every call that resolves to one of those methods sits in a
    method named clear / close / aclose / __del__.  A reset on a timeout path ('release the buffer of an idle connection') drops the
    first part of a request that was received before the timeout."""
    resetters = set()
    for ci in eng.db.classes.values():
        if ci.module.name.endswith("lowlevel._stream") or (ci.name in ("_DataReceiverImpl", "_BufferedReceiverImpl") and ".endpoints.stream" in ci.module.name):
            m = ci.methods.get("clear")
            if m is not None:
                resetters.add(m.qualname)
    if len(resetters) < 4:
        raise AnalysisError(f"anchor vanished: clear() of the stream consumers / receivers (found {len(resetters)})")
    n = 0
    for fn in eng.db.all_functions():
        if isinstance(fn.node, ast.Lambda) or not fn.module.name.startswith("easynetwork."):
            continue
        for c in own_nodes(fn.node):
            if not (isinstance(c, ast.Call) and isinstance(c.func, ast.Attribute) and c.func.attr == "clear" and not c.args):
                continue
            tg = [t for t in eng.typer.call_targets(fn, c) if isinstance(t, FunctionInfo)]
            if not any(t.qualname in resetters for t in tg):
                continue
            n += 1
            ok = fn.name in ("clear", "close", "aclose", "__del__")
            if not ok:
                run.finding("C10.parser", fn, next((x for x in own_nodes(fn.node) if isinstance(x, ast.stmt) and not isinstance(x, (ast.If, ast.While, ast.For, ast.Try, ast.With, ast.AsyncWith, ast.AsyncFor)) and any(y is c for y in ast.walk(x))), c), f"`{ast.unparse(c)}` resets the stream consumer outside a clear()/close()/aclose() method: the bytes of a partially received "
                            "request (and the parser that was fed with them) are discarded, the rest of the request is then parsed as the start of a new one")
            run.ob("C10.parser", f"{fn.short}:{ast.unparse(c)}:reset-only-when-closing", ok)
    run.floor("C10.parser consumer reset sites", n, 6)


def check_pause_decided_by_the_buffer_only(eng, run):
    """read-side backpressure follows the fill level alone: `_maybe_pause_transport()` / `_maybe_resume_transport()` decide on the buffer
    size, the water marks, the paused flag and the transport - not on whether a reader happens to be waiting.  Skipping the pause
    'because the woken reader will drain the buffer' leaves a full buffer un-paused when that reader is cancelled first: asyncio then
    gets an empty buffer from get_buffer(), treats it as fatal and drops the connection with everything that was buffered."""
    OKW = ("paus", "nbytes", "buffer", "size", "limit", "water", "transport", "closing", "eof", "connection_lost")
    n = 0
    for fn in eng.db.all_functions():
        if isinstance(fn.node, ast.Lambda) or fn.name not in ("_maybe_pause_transport", "_maybe_resume_transport") or "_asyncio" not in fn.module.name:
            continue
        n += 1
        bad = []
        for i in own_nodes(fn.node):
            if isinstance(i, ast.If):
                foreign = [d for a in ast.walk(i.test) if isinstance(a, ast.Attribute) for d in [dotted(a)] if d and d.startswith(fn.self_name + ".") and not any(w in d.lower() for w in OKW)]
                if foreign:
                    bad.append((i, foreign))
        for i, foreign in bad[:1]:
            run.finding("C10.flow", fn, i, f"{fn.name}() decides on {sorted(set(foreign))}, which is not the fill level of the read buffer: a full buffer can stay un-paused (or a drained one paused) - "
                        "asyncio aborts the connection on an empty get_buffer() and the buffered bytes are lost, or the reader starves")
        run.ob("C10.flow", f"{fn.cls.name if fn.cls else ''}.{fn.name}:decided-by-fill-level-only", not bad)
    run.floor("C10.flow read-side pause/resume deciders", n, 2)


def run(eng, run):
    from sa.anchors import verify as _verify_anchor_names
    _verify_anchor_names(eng, run)
    run.not_decided += NOT_DECIDED
    run.assumptions += ["a cancellation or another task can intervene only at a suspension point (single-threaded event loop)",
                        "releasing a lock does not suspend; cancel_shielded_coro_yield / ignore_cancellation never let a cancellation through"]
    fns = hold_functions(eng, True)
    total_sources = 0
    for fn in fns:
        total_sources += check_hold(eng, run, fn, "C10.hold")
    run.floor("C10.hold async functions with a source", len(fns), 14)
    run.floor("C10.hold source sites", total_sources, 14)
    run.attempt(check_lend, eng, run)
    run.attempt(check_withdraw, eng, run)
    from rules.c03 import check_water_marks
    run.attempt(check_water_marks, eng, run, rule="C10.flow")
    run.attempt(check_raw_buffer_reads, eng, run)
    run.attempt(check_conservation, eng, run)
    run.attempt(check_ack, eng, run)
    run.attempt(check_parser, eng, run)
    run.attempt(check_pause_decided_by_the_buffer_only, eng, run)
    run.attempt(check_consumer_reset_sites, eng, run)
    run.attempt(check_eof_latch, eng, run)
    sync_fns = [f for f in hold_functions(eng, False) if f.module.name.startswith(("easynetwork.lowlevel.api_sync.endpoints", "easynetwork.clients"))]
    for fn in sync_fns:
        check_sync(eng, run, fn)
    run.floor("C10.sync functions", len(sync_fns), 3)
    s = eng.summaries
    run.tables["shield_names"] = sorted(__import__("sa.summary", fromlist=["SHIELD_NAMES"]).SHIELD_NAMES)
    run.counters["async_functions"] = sum(1 for f in eng.db.all_functions() if f.is_async)
    run.counters["never_suspend"] = sum(1 for f in eng.db.all_functions() if f.is_async and not s.may_suspend(f))
    from rules import c20
    from sa.report import RuleAlias as _RA10
    run.attempt(c20.check_done, eng, _RA10(run, "C10.ack"))  # a waiter is completed at most once: `done()` is the guard, not `cancelled()`
    run.end_of_rules()


# ---------------------------------------------------------------------------------------------- self-test corpus
from sa.mutate import (Variant, delete_stmt, find_handler, insert_after, insert_before, rename_local, replace_expr,  # noqa: E402
                       replace_stmt, stmt_has, stmt_is)

_RR = "lowlevel.api_async.servers.stream:_RequestReceiver.next"
_BRR = "lowlevel.api_async.servers.stream:_BufferedRequestReceiver.next"
_AR = "lowlevel.api_async.endpoints.stream:_DataReceiverImpl.receive"
_ABR = "lowlevel.api_async.endpoints.stream:_BufferedReceiverImpl.receive"
_SR = "lowlevel.api_sync.endpoints.stream:_DataReceiverImpl.receive"
_WFD = "lowlevel.api_async.backend._asyncio.stream.socket:StreamReaderBufferedProtocol._wait_for_data"
_DGL = "lowlevel.api_async.backend._asyncio.datagram.listener:DatagramListenerProtocol.datagram_received"
_DGE = "lowlevel.api_async.backend._asyncio.datagram.endpoint:DatagramEndpoint.recvfrom"
_INNER = "lowlevel.api_async.servers.datagram:AsyncDatagramServer.__client_coroutine_inner_loop"
_TCPCLI = "clients.async_tcp:AsyncTCPNetworkClient.recv_packet"


def _unshield(fn):
    replace_expr(fn, "self.__backend.cancel_shielded_coro_yield()", "self.__backend.coro_yield()")


MUTANTS = [
    Variant("request-receiver-unshielded-yield", _RR, _unshield, "C10.hold", why="yield 0 polling drops an already buffered request"),
    Variant("buffered-request-receiver-unshielded-yield", _BRR, _unshield, "C10.hold"),
    Variant("async-receiver-yield-between-recv-and-feed", _AR,
            lambda fn: insert_after(fn, stmt_has("chunk: bytes = await transport.recv(bufsize)"), "await transport.backend().coro_yield()"), "C10.hold",
            why="a chunk read from the transport is dropped if the receive is cancelled at the extra checkpoint"),
    Variant("async-buffered-receiver-sleep-before-feed", _ABR,
            lambda fn: insert_before(fn, stmt_is("try:"), "await transport.backend().sleep(0)", 1), "C10.hold"),
    Variant("wait-for-data-no-reclaim", _WFD,
            lambda fn: replace_stmt(fn, stmt_is("try:"), "nbytes_written_in_external_buffer = await self.__read_waiter", 1), "C10.lend",
            why="a cancelled recv_into leaves the released user buffer registered"),
    Variant("listener-drops-early-datagrams", _DGL,
            lambda fn: replace_stmt(fn, stmt_has("self.__delayed_datagrams_queue.append"), "pass"), "C10.ack",
            why="datagrams arriving before serve() are dropped"),
    Variant("sync-receiver-lock-wait-before-feed", _SR,
            lambda fn: insert_before(fn, stmt_is("try:"), "transport.send_all(b'', timeout)", 1), "C10.sync",
            why="a blocking call that can time out sits between the read and consumer.next"),
    Variant("datagram-inner-loop-log-after-pop", _INNER,
            lambda fn: insert_after(fn, stmt_has("datagram = await client_data.pop_datagram()"), "await backend.coro_yield()"), "C10.hold",
            why="datagram popped from the client queue then lost on cancellation"),
]

BENIGN = [
    Variant("request-receiver-extra-shielded-yield", _RR,
            lambda fn: insert_before(fn, stmt_is("return SendAction(request)"), "await self.__backend.cancel_shielded_coro_yield()"),
            why="a shielded yield inserted while holding"),
    Variant("async-receiver-await-before-source", _AR,
            lambda fn: insert_before(fn, stmt_has("chunk: bytes = await transport.recv(bufsize)"), "await transport.backend().coro_yield()"),
            why="a checkpoint before the read: nothing is held yet"),
    Variant("async-receiver-rename-chunk", _AR, lambda fn: rename_local(fn, "chunk", "piece"), why="local renamed"),
]

_SDC = "lowlevel._stream:StreamDataConsumer.next"
_BDC = "lowlevel._stream:BufferedStreamDataConsumer.next"
_IDR = "lowlevel.api_async.transports.tls:_IncomingDataReader.readinto"


def _take_parser_at_top(fn):
    fn.body.insert(0, ast.parse("consumer, self.__consumer = self.__consumer, None").body[0])
    replace_expr(fn, "(consumer := self.__consumer) is None", "consumer is None")
    delete_stmt(fn, stmt_is("self.__consumer = None"))


MUTANTS += [
    Variant("parser-taken-before-the-empty-feed-exit", _SDC, _take_parser_at_top, "C10.parser",
            why="next(None) after a timed-out receive forgets the half-parsed packet (seed C10-4)"),
    Variant("buffered-parser-reset-before-zero-byte-exit", _BDC,
            lambda fn: (delete_stmt(fn, stmt_is("self.__consumer = None")), insert_before(fn, stmt_has("nb_updated_bytes += self.__already_written"), "self.__consumer = None")),
            "C10.parser", why="a zero-byte update drops the parser"),
    Variant("parser-not-stored-back", _SDC, lambda fn: delete_stmt(fn, stmt_is("self.__consumer = consumer")), "C10.parser"),
    Variant("cancelled-read-marks-bio-eof", _IDR,
            lambda fn: replace_stmt(fn, stmt_has("self.transport.recv_into"),
                                    "try:\n    nbytes = await self.transport.recv_into(buffer := self.buffer_view)\nexcept BaseException:\n    read_bio.write_eof()\n    raise\nif nbytes > 0:\n    return read_bio.write(buffer[:nbytes])"),
            "C10.eof", why="a cancelled TLS receive ends the read side for good (seed C10-6)"),
]
BENIGN += [
    Variant("oserror-read-marks-bio-eof", _IDR,
            lambda fn: replace_stmt(fn, stmt_has("self.transport.recv_into"),
                                    "try:\n    nbytes = await self.transport.recv_into(buffer := self.buffer_view)\nexcept OSError:\n    read_bio.write_eof()\n    raise\nif nbytes > 0:\n    return read_bio.write(buffer[:nbytes])"),
            why="only a transport error (never a cancellation) latches EOF"),
    Variant("parser-swap-in-else-arm", _SDC, lambda fn: replace_stmt(fn, stmt_is("self.__consumer = None"), "_unused, self.__consumer = None, None"), why="reset written as a tuple assignment"),
]


MUTANTS += [
    Variant("buffer-updated-keeps-the-lent-buffer-registered", "lowlevel.api_async.backend._asyncio.stream.socket:StreamReaderBufferedProtocol.buffer_updated",
            lambda fn: delete_stmt(fn, stmt_is("self.__external_buffer_view = None")), "C10.lend",
            why="two arrivals before the task wakes: the second overwrites the first (seed C10-9)"),
]


MUTANTS += [
    Variant("leftover-shifted-from-the-physical-end-of-the-buffer", "lowlevel.api_async.backend._asyncio.stream.socket:StreamReaderBufferedProtocol.receive_data",
            lambda fn: replace_stmt(fn, stmt_has("protocol_buffer_written[:unused] = protocol_buffer_written[-unused:]"), "self.__buffer_view[:unused] = self.__buffer_view[-unused:]"),
            "C10.flow", why="the unread rest of the stream is replaced by stale bytes from the end of the 256 KiB buffer (seed C10-7)"),
]


_RDI = "lowlevel.api_async.backend._asyncio.stream.socket:StreamReaderBufferedProtocol.receive_data_into"
_RD = "lowlevel.api_async.backend._asyncio.stream.socket:StreamReaderBufferedProtocol.receive_data"
MUTANTS += [
    Variant("copy-out-level-decremented-by-the-remainder", _RDI, lambda fn: replace_stmt(fn, stmt_is("self.__buffer_nbytes_written = bufsize_offset"), "self.__buffer_nbytes_written -= bufsize_offset"),
            "C10.flow", why="the level ends up as the number of bytes handed out instead of the number left (seed C02-9)"),
    Variant("copy-out-level-off-by-one", _RD, lambda fn: replace_stmt(fn, stmt_is("self.__buffer_nbytes_written = unused"), "self.__buffer_nbytes_written = unused - 1"), "C10.flow",
            why="one byte of the stream is dropped at every partial read"),
]
BENIGN += [
    Variant("copy-out-level-decremented-by-the-copied-amount", _RDI, lambda fn: replace_stmt(fn, stmt_is("self.__buffer_nbytes_written = bufsize_offset"), "self.__buffer_nbytes_written -= nbytes_written"),
            why="same level written as a decrement by the amount just copied"),
]


MUTANTS += [
    Variant("copy-out-shift-branch-taken-for-an-exact-fit", _RDI, lambda fn: replace_expr(fn, "bufsize_offset > 0", "bufsize_offset >= 0"), "C10.flow",
            why="exact fit: `view[:0] = view[-0:]` raises ValueError and the level is never reset (seed C15-9)"),
]
