"""C18 - server lifecycle operations are safe in every order (DESIGN.md section 3, C18)."""
from __future__ import annotations

import ast

from sa.analyses.atomic import AtomicSection
from sa.analyses.base import RuleAnalysis
from sa.analyses.locks import LockHeld, canon_lock, held_names
from sa.db import AnalysisError, ClassInfo, FunctionInfo, dotted, mangle, norm_stmt, own_nodes
from sa.exc import CANCELLED
from sa.flow import FnExit, Interp, TestAtom, WithEnter, WithExit, call_of

CLAIM = {
    "text": "Decides the lock, latch, refusal and teardown-order discipline behind the lifecycle guarantees: the acquired-while-holding graph of the standalone and asynchronous servers' locks (through resolved self-calls) is acyclic; every wait on the shutdown event happens with no lock held (its signaller must re-acquire the bootstrap lock first); shutdown() - blocking and asynchronous - cannot return on any normal path without having waited for the shutdown event; in both serve_forever implementations the ServerClosedError / ServerAlreadyRunning tests precede every store to server state and every teardown registration, and the asynchronous already-running test and the replacement of the event it reads are not separated by a suspension point (two concurrent callers cannot both pass); the closed latch is set-only, the servers factory is stored non-None only in the constructor and None only in server_close, server_activate refuses when it is None; in each exit stack the shutdown-event set is the first registration (runs last), the listener close is registered before the server tasks are cancelled-and-awaited, the locks taken during start-up live on the first context of the outer stack; the threads portal clears its loop under its lock before draining and refuses calls once cleared. server_activate reads the closed marker and registers its cancel scope with no suspension point in between (a server_close() in that window would neither clear what was read nor find a scope to cancel); NetworkServerThread.run sets the is-up event on every exit and hands that event to serve_forever. The standalone server_close() sets the closed latch on every exit; server_close() holds none of the locks that server_activate() holds while the listeners factory runs when it cancels the activation; futures shared through an attribute are awaited only through asyncio.shield. Round 4: NetworkServerThread.join() requests shutdown() on every path before joining the thread; _run_sync_or_else() gives the 'not running' default only after the bootstrap-lock region that looks for the running server; a cancel scope published in an attribute is withdrawn on every exit (exception, cancellation, generator close). Round 5: a function that installs the result of a block run under a published cancel scope asks cancel_called() first (finding F8, fixed); the auto-stop condition tests the counter that was just decremented; two synchronisation roles never share one primitive; TCP listeners get SO_REUSEADDR on POSIX (the flag expression is evaluated for os.name='posix'). Round 6: a coroutine scheduled through the threads portal that is cancelled hands a cancelled future to the waiting thread (shutdown() / join() return); the helper that closes the listeners gives each its own task. Round 7: the exit stack handed to service_init() is one that was just entered on the server's own exit stack.",
    "note": "Trusted: ExitStack runs callbacks LIFO on every exit; threading/asyncio lock and event semantics. Not decided: absence of deadlock over all interleavings (needs the scheduler), timing.",
    "technique": "lock-held typestate with interprocedural acquired-while-holding graph and cycle search, must-pass-through and atomic-section analyses, write-once / who-writes queries, registration-order checks on the ast program database",
}
NOT_DECIDED = ["deadlock-freedom over all interleavings", "that the serving thread has fully exited when shutdown() returns on a given platform (time)"]

BASE = "servers._base"


def _stmt_at(fn, line):
    best = None
    for n in own_nodes(fn.node):
        if isinstance(n, ast.stmt) and getattr(n, "lineno", -1) == line:
            if best is None or not isinstance(n, (ast.Try, ast.With, ast.AsyncWith, ast.For, ast.If, ast.While)):
                best = n
    return best if best is not None else fn.node


def _cname(c):
    return (c.func.attr if isinstance(c.func, ast.Attribute) else getattr(c.func, "id", "")) if c is not None else ""


def _meth(ci: ClassInfo, name: str) -> FunctionInfo:
    f = ci.methods.get(name) or ci.methods.get(mangle(ci.name, name))
    if f is None:
        raise AnalysisError(f"anchor vanished: {ci.name}.{name}")
    return f


def _lock_attrs(ci: ClassInfo) -> set[str]:
    out = set()
    for m in list(ci.fields) + list(ci.field_values):
        low = m.lower()
        if low.endswith("lock") or low.endswith("guard"):
            prefix = "_" + ci.name.lstrip("_") + "__"
            out.add("self." + ("__" + m[len(prefix):] if m.startswith(prefix) else m))
    return out


def lock_graph(eng, ci: ClassInfo):
    """edges (held -> acquired) over all methods of the class, following calls to self methods."""
    locks = _lock_attrs(ci)
    acquires: dict[str, set[str]] = {}
    direct_edges: set[tuple[str, str, str]] = set()
    calls_under: dict[str, list[tuple[frozenset, str]]] = {}
    for fn in ci.methods.values():
        if isinstance(fn.node, ast.Lambda):
            continue
        todo = [fn] + list(fn.nested.values())
        for f in todo:
            if isinstance(f.node, ast.Lambda):
                continue
            sites: list = []

            def is_site(node, an):
                c = call_of(node)
                return c is not None and isinstance(c.func, ast.Attribute) and isinstance(c.func.value, ast.Name) and c.func.value.id == (f.self_name or "self")

            an = LockHeld(eng, locks, is_site)
            try:
                Interp(an, f).run()
            except Exception:
                continue
            acq = {c for c, _, _ in an.nested}
            acquires.setdefault(fn.name, set()).update(acq)
            for c, held, node in an.nested:
                for h in held_names(held):
                    if h != c:
                        direct_edges.add((h, c, fn.short))
            for node, held in an.sites:
                c = call_of(node)
                calls_under.setdefault(fn.name, []).append((frozenset(held_names(held)), c.func.attr))
    # transitive acquisition through self calls
    changed = True
    while changed:
        changed = False
        for caller, items in calls_under.items():
            for held, callee in items:
                cal = callee if callee in acquires else mangle(ci.name, callee)
                for lk in set(acquires.get(cal, set())):
                    if lk not in acquires.setdefault(caller, set()):
                        acquires[caller].add(lk)
                        changed = True
    edges = set((a, b) for a, b, _ in direct_edges)
    where: dict = {}
    for a, b, f in direct_edges:
        where.setdefault((a, b), set()).add(f.split(".")[-1])
    for caller, items in calls_under.items():
        for held, callee in items:
            cal = callee if callee in acquires else mangle(ci.name, callee)
            for lk in acquires.get(cal, set()):
                for h in held:
                    if h != lk:
                        edges.add((h, lk))
                        where.setdefault((h, lk), set()).add(caller)
    lock_graph.where = where
    return locks, edges


def _cycle(edges):
    graph: dict[str, set[str]] = {}
    for a, b in edges:
        graph.setdefault(a, set()).add(b)
    color: dict[str, int] = {}

    def dfs(u, path):
        color[u] = 1
        for v in graph.get(u, ()):
            if color.get(v) == 1:
                return path + [u, v]
            if color.get(v, 0) == 0:
                r = dfs(v, path + [u])
                if r:
                    return r
        color[u] = 2
        return None

    for n in list(graph):
        if color.get(n, 0) == 0:
            r = dfs(n, [])
            if r:
                return r
    return None


def check_order(eng, run):
    for q in (f"{BASE}.BaseStandaloneNetworkServerImpl", f"{BASE}.BaseAsyncNetworkServerImpl"):
        ci = eng.db.cls(q)
        locks, edges = lock_graph(eng, ci)
        cyc = _cycle(edges)
        if cyc:
            fns = set()
            for a, b in zip(cyc, cyc[1:]):
                fns |= lock_graph.where.get((a, b), set())
            for name in sorted(fns) or [next(iter(ci.methods))]:
                fn = ci.methods.get(name) or next(iter(ci.methods.values()))
                run.finding("C18.order", fn, fn.node, f"lock-order cycle {' -> '.join(cyc)}: two lifecycle calls can deadlock each other (this method contributes an edge)")
        run.ob("C18.order", f"{ci.name}:acyclic", cyc is None, locks=sorted(locks), edges=sorted(f"{a}->{b}" for a, b in edges))
        if len(locks) < 2:
            raise AnalysisError(f"anchor vanished: locks of {ci.name}")
    ci = eng.db.cls(f"{BASE}.BaseStandaloneNetworkServerImpl")
    _, edges = lock_graph(eng, ci)
    run.floor("C18.order standalone edges", len(edges), 1)


class MustWait(RuleAnalysis):
    tokens = ("Exception", CANCELLED)

    def __init__(self, engine, event_suffix: str):
        super().__init__(engine)
        self.event_suffix = event_suffix
        self.wait_sites = []

    def initial(self, fn):
        return [False]

    def may_raise(self, node, fact):
        if isinstance(node, (ast.Call, ast.Await)):
            return ["Exception"] + ([CANCELLED] if isinstance(node, ast.Await) else [])
        return []

    def transfer(self, node, fact):
        c = call_of(node)
        if c is not None and _cname(c) == "wait" and (dotted(c.func.value) or "").endswith(self.event_suffix):
            if isinstance(node, ast.Await) or isinstance(node, ast.Call):
                self.wait_sites.append(node)
                return [True]
        return [fact]


def check_wait(eng, run):
    sa = eng.db.cls(f"{BASE}.BaseStandaloneNetworkServerImpl")
    aa = eng.db.cls(f"{BASE}.BaseAsyncNetworkServerImpl")
    for ci in (sa, aa):
        fn = _meth(ci, "shutdown")
        an = MustWait(eng, "__is_shutdown")
        out = Interp(an, fn).run()
        bad = [tr for f, tr in out.ret.items() if not f]
        for tr in bad[:1]:
            run.finding("C18.tear", fn, _stmt_at(fn, tr[-1]) if tr else fn.node, "shutdown() can return without waiting for the shutdown event: it returns while serving has not fully stopped (a restart is refused with ServerAlreadyRunning, resources are still in use)", tr)
        if not an.wait_sites:
            run.finding("C18.tear", fn, fn.node, "shutdown() never waits for the shutdown event")
        run.ob("C18.tear", f"{fn.short}:returns-only-after-wait", not bad and bool(an.wait_sites))
        # no lock held at the wait
        locks = _lock_attrs(ci)

        def is_wait(node, a):
            c = call_of(node)
            return c is not None and _cname(c) == "wait" and (dotted(c.func.value) or "").endswith("__is_shutdown")

        lh = LockHeld(eng, locks, is_wait)
        Interp(lh, fn).run()
        held_bad = [(n, h) for n, h in lh.sites if held_names(h)]
        for n, h in held_bad[:1]:
            run.finding("C18.wait", fn, _stmt_at(fn, n.lineno), f"the shutdown event is awaited while holding {sorted(held_names(h))}: the serving thread must re-acquire that lock before it can set the event - deadlock")
        run.ob("C18.wait", f"{fn.short}:no-lock-held-while-waiting", not held_bad and bool(lh.sites))


def check_refuse(eng, run):
    sa = eng.db.cls(f"{BASE}.BaseStandaloneNetworkServerImpl")
    aa = eng.db.cls(f"{BASE}.BaseAsyncNetworkServerImpl")
    for ci, errs in ((sa, ("ServerClosedError", "ServerAlreadyRunning")), (aa, ("ServerAlreadyRunning",))):
        fn = _meth(ci, "serve_forever")

        class Refuse(RuleAnalysis):
            tokens = ("Exception",)
            inline_helpers = True

            def __init__(self, eng):
                super().__init__(eng)
                self.viol = []
                self.tests = set()

            def initial(self, f):
                return [frozenset()]

            def may_raise(self, node, fact):
                return []

            def transfer(self, node, fact):
                if isinstance(node, TestAtom):
                    t = ast.unparse(node.test)
                    if "is_closed" in t:
                        self.tests.add("ServerClosedError")
                        return [fact | {"ServerClosedError"}]
                    if "is_shutdown" in t:
                        self.tests.add("ServerAlreadyRunning")
                        return [fact | {"ServerAlreadyRunning"}]
                missing = [e for e in errs if e not in fact]
                if missing:
                    mutation = False
                    if isinstance(node, (ast.Assign, ast.AugAssign)) :
                        tg = node.targets if isinstance(node, ast.Assign) else [node.target]
                        mutation = any(isinstance(t, ast.Attribute) and isinstance(t.value, ast.Name) and t.value.id == fn.self_name for t in tg)
                    c = call_of(node)
                    if isinstance(node, ast.Call) and _cname(c) in ("callback", "push_async_callback", "clear", "set") and not (_cname(c) == "enter_context"):
                        mutation = True
                    if mutation:
                        self.viol.append((node, missing))
                return [fact]

        an = Refuse(eng)
        Interp(an, fn).run()
        for node, missing in an.viol[:1]:
            run.finding("C18.refuse", fn, _stmt_at(fn, node.lineno), f"server state is mutated / a teardown step is registered before the {' / '.join(missing)} test: a refused call would still clear the shutdown event or tear down a running server")
        miss_tests = [e for e in errs if e not in an.tests]
        if miss_tests:
            run.finding("C18.refuse", fn, fn.node, f"serve_forever() no longer tests for {miss_tests}")
        run.ob("C18.refuse", f"{fn.short}:tests-before-mutation", not an.viol and not miss_tests, tests=sorted(an.tests))
    # async: test and replacement of the event are atomic
    fn = _meth(aa, "serve_forever")
    an = AtomicSection(eng, lambda n: isinstance(n, TestAtom) and "is_shutdown" in ast.unparse(n.test),
                       lambda n: isinstance(n, ast.Assign) and any((dotted(t) or "").endswith("__is_shutdown") for t in n.targets))
    an.inline_helpers = True
    Interp(an, fn).run()
    ok = bool(an.starts) and bool(an.ends) and all(st == "armed" for _, st in an.ends)
    if not ok:
        run.finding("C18.refuse", fn, an.breaks[0] if an.breaks else fn.node, "a suspension point separates the already-running test from the replacement of the shutdown event: two concurrent serve_forever() calls can both pass the test")
    run.ob("C18.refuse", f"{fn.short}:test-and-replace-atomic", ok)


def check_latch(eng, run):
    db = eng.db
    sa = db.cls(f"{BASE}.BaseStandaloneNetworkServerImpl")
    aa = db.cls(f"{BASE}.BaseAsyncNetworkServerImpl")
    # __is_closed: set() only
    clears = []
    for fn in sa.methods.values():
        for n in own_nodes(fn.node):
            if isinstance(n, ast.Call) and _cname(n) == "clear" and (dotted(n.func.value) or "").endswith("__is_closed"):
                clears.append((fn, n))
            if isinstance(n, ast.Assign) and fn.name != "__init__" and any((dotted(t) or "").endswith("__is_closed") for t in n.targets):
                clears.append((fn, n))
    for fn, n in clears:
        run.finding("C18.latch", fn, n, "the closed latch is cleared / replaced: a closed server could serve again")
    sets = [n for fn in sa.methods.values() for n in ast.walk(fn.node) if isinstance(n, ast.Attribute) and n.attr == "set" and (dotted(n.value) or "").endswith("__is_closed")]
    run.ob("C18.latch", "standalone:__is_closed-set-only", not clears and bool(sets))
    if not sets:
        run.finding("C18.latch", _meth(sa, "server_close"), sa.node, "server_close() no longer sets the closed latch")
    # __is_shutdown (standalone): cleared only in serve_forever
    bad = []
    for fn in sa.methods.values():
        for n in own_nodes(fn.node):
            if isinstance(n, ast.Call) and _cname(n) == "clear" and (dotted(n.func.value) or "").endswith("__is_shutdown") and fn.name != "serve_forever":
                bad.append((fn, n))
    for fn, n in bad:
        run.finding("C18.latch", fn, n, "the shutdown event is cleared outside serve_forever()")
    run.ob("C18.latch", "standalone:__is_shutdown-cleared-in-serve_forever-only", not bad)
    # async: servers factory
    m = mangle(aa.name, "__servers_factory_cb")
    stores = aa.field_values.get(m, [])
    ok = True
    for f, v in stores:
        if f is None:
            continue
        is_none = isinstance(v, ast.Constant) and v.value is None
        if f.name == "__init__" and not is_none:
            continue
        if f.name == "server_close" and is_none:
            continue
        ok = False
        run.finding("C18.latch", f, v if isinstance(v, ast.stmt) else f.node, "the servers factory is re-armed / cleared outside __init__ / server_close: a closed server could be re-activated")
    if not any(f is not None and f.name == "server_close" for f, _ in stores):
        ok = False
        run.finding("C18.latch", _meth(aa, "server_close"), aa.node, "server_close() no longer clears the servers factory: a closed server can be activated again")
    run.ob("C18.latch", "async:servers-factory-latch", ok)
    act = _meth(aa, "server_activate")
    refuses = any(isinstance(n, ast.If) and "servers_factory" in ast.unparse(n.test) and "None" in ast.unparse(n.test) and any(isinstance(r, ast.Raise) and "ServerClosedError" in ast.unparse(r) for r in n.body) for n in own_nodes(act.node))
    if not refuses:
        run.finding("C18.latch", act, act.node, "server_activate() no longer raises ServerClosedError once the factory is cleared")
    run.ob("C18.latch", f"{act.short}:refuses-when-closed", refuses)


def _registrations(fn, stack_name):
    """the registrations on exit stack `stack_name` in program order; those made by a private helper that is handed the stack under
    its own name (`self.__wake_up_server(server_exit_stack)`) take the place of the call"""
    from sa.norm import private_helper
    keyed = []
    REG = ("callback", "push_async_callback", "enter_context", "enter_async_context", "push")
    for n in own_nodes(fn.node):
        if isinstance(n, ast.Call) and isinstance(n.func, ast.Attribute) and dotted(n.func.value) == stack_name and n.func.attr in REG:
            keyed.append(((n.lineno, n.col_offset, 0, 0), n))
        elif isinstance(n, ast.Call) and any(isinstance(a, ast.Name) and a.id == stack_name for a in n.args):
            g = private_helper(fn, n)
            if g is not None and not isinstance(g.node, ast.Lambda) and any(a.arg == stack_name for a in g.params()):
                for m in own_nodes(g.node):
                    if isinstance(m, ast.Call) and isinstance(m.func, ast.Attribute) and dotted(m.func.value) == stack_name and m.func.attr in REG:
                        keyed.append(((n.lineno, n.col_offset, m.lineno, m.col_offset), m))
    keyed.sort(key=lambda kv: kv[0])
    return [n for _k, n in keyed]


def _nodes_with_helpers(fn):
    """the nodes of `fn` and of the private helpers it calls (a block of the function moved into a method of the same class)"""
    from sa.norm import nodes_inl
    return [n for n, _o in nodes_inl(fn)]


def _outer_stack(fn):
    """name of the exit stack opened by the outermost `with (Async)ExitStack() as <name>` of the function"""
    for n in fn.node.body:
        if isinstance(n, (ast.With, ast.AsyncWith)):
            for it in n.items:
                if isinstance(it.context_expr, ast.Call) and (dotted(it.context_expr.func) or "").split(".")[-1] in ("ExitStack", "AsyncExitStack") and isinstance(it.optional_vars, ast.Name):
                    return it.optional_vars.id
    return None


def check_tear(eng, run):
    db = eng.db
    sa = db.cls(f"{BASE}.BaseStandaloneNetworkServerImpl")
    aa = db.cls(f"{BASE}.BaseAsyncNetworkServerImpl")
    for ci, evtext in ((sa, "is_shutdown.set"), (aa, "is_shutdown.set")):
        fn = _meth(ci, "serve_forever")
        outer = _outer_stack(fn)
        if outer is None:
            raise AnalysisError(f"anchor vanished: outer exit stack of {fn.qualname}")
        regs = [r for r in _registrations(fn, outer)]
        cbs = [r for r in regs if r.func.attr in ("callback", "push_async_callback")]
        # the shutdown event: the attribute itself or a local bound in the same statement as the attribute
        ev_names = {"self.__is_shutdown"}
        for n in _nodes_with_helpers(fn):
            if isinstance(n, ast.Assign) and any((dotted(t) or "").endswith("__is_shutdown") for t in n.targets):
                ev_names |= {dotted(t) for t in n.targets if dotted(t)}
                if isinstance(n.value, ast.Name):  # `ev = create_event(); self.__is_shutdown = ev`
                    ev_names.add(n.value.id)
            elif isinstance(n, ast.Assign) and (dotted(n.value) or "").endswith("__is_shutdown"):  # `ev = self.__is_shutdown`
                ev_names |= {t.id for t in n.targets if isinstance(t, ast.Name)}
        a0 = cbs[0].args[0] if cbs and cbs[0].args else None
        ok = isinstance(a0, ast.Attribute) and a0.attr == "set" and dotted(a0.value) in ev_names
        if not ok:
            run.finding("C18.tear", fn, cbs[0] if cbs else fn.node, "the shutdown-event set is not the first teardown callback registered on the server exit stack: it would run before other teardown steps (LIFO), so shutdown() returns while the server is still being torn down - a restart races with the old run's clean-up")
        run.ob("C18.tear", f"{fn.short}:event-set-registered-first", ok, registrations=len(regs))
    # standalone: locks live on locks_stack, the first context entered on the outer stack
    fn = _meth(sa, "serve_forever")
    outer = _outer_stack(fn)
    regs = _registrations(fn, outer)
    first_ctx = next((r for r in regs if r.func.attr == "enter_context"), None)
    ok = first_ctx is not None and first_ctx is regs[0] and "ExitStack" in ast.unparse(first_ctx.args[0])
    inner_stack = next((t.id for n in own_nodes(fn.node) if isinstance(n, ast.Assign) and n.value is first_ctx for t in n.targets if isinstance(t, ast.Name)), None)
    lock_regs = [n for n in own_nodes(fn.node) if isinstance(n, ast.Call) and _cname(n) == "enter_context" and n.args and "lock" in ast.unparse(n.args[0]).lower() and "ExitStack" not in ast.unparse(n.args[0])]
    ok = ok and inner_stack is not None and bool(lock_regs) and all(dotted(n.func.value) == inner_stack for n in lock_regs)
    if not ok:
        run.finding("C18.tear", fn, fn.node, "the start-up locks are not held through a dedicated stack that is the first context of the outer exit stack: a failing server factory would leave them locked / they would be released before the teardown steps")
    run.ob("C18.tear", f"{fn.short}:locks-on-first-context", ok)
    # locks released only after the portal exists: locks_stack.close() inside the `async with (... create_threads_portal() ...)`
    inner = fn.nested.get("serve_forever")
    ok = False
    if inner is not None:
        for w in own_nodes(inner.node):
            if isinstance(w, ast.AsyncWith) and any("create_threads_portal" in ast.unparse(it.context_expr) for it in w.items):
                ok = any(isinstance(s, ast.Expr) and f"{inner_stack}.close()" in ast.unparse(s) for s in w.body)
    if not ok:
        run.finding("C18.tear", fn, fn.node, "the start-up locks are released before the threads portal exists: shutdown()/server_close() from another thread would see a half-started server")
    run.ob("C18.tear", f"{fn.short}:locks-released-after-portal", ok)
    # async server_close: listener close registered before the tasks are cancelled-and-awaited
    sc = _meth(aa, "server_close")
    reg = next((n for n in own_nodes(sc.node) if isinstance(n, ast.Call) and _cname(n) == "push_async_callback" and "close_all_servers" in ast.unparse(n)), None)
    tg = next((n for n in own_nodes(sc.node) if isinstance(n, ast.AsyncWith) and "create_task_group" in ast.unparse(n.items[0].context_expr)), None)
    ok = reg is not None and tg is not None and reg.lineno < tg.lineno
    if not ok:
        run.finding("C18.tear", sc, sc.node, "server_close() no longer registers the listener close before cancelling-and-awaiting the server tasks: a failure while waiting would leave the listeners open")
    run.ob("C18.tear", f"{sc.short}:listeners-closed-on-all-exits", ok)
    # async serve_forever: run scope reset on exit
    fn = _meth(aa, "serve_forever")
    resetters = {g.name for g in fn.nested.values() if not isinstance(g.node, ast.Lambda) and any(isinstance(x, ast.Assign) and any((dotted(t) or "").endswith("__server_run_scope") for t in x.targets)
                                                                                                  and isinstance(x.value, ast.Constant) and x.value.value is None for x in own_nodes(g.node))}
    # ... a closure of serve_forever, or a private method of the class (`self.__reset_run_scope`)
    def resets_scope(g):
        return not isinstance(g.node, ast.Lambda) and any(isinstance(x, ast.Assign) and any((dotted(t) or "").endswith("__server_run_scope") for t in x.targets)
                                                          and isinstance(x.value, ast.Constant) and x.value.value is None for x in own_nodes(g.node))
    resetters |= {f"{fn.self_name}.{m.name}" for m in aa.methods.values() if m.name.startswith("_") and resets_scope(m)}
    ok = any(isinstance(n, ast.Call) and _cname(n) == "callback" and n.args and dotted(n.args[0]) in resetters for n in _nodes_with_helpers(fn))
    if not ok:
        run.finding("C18.tear", fn, fn.node, "the run scope is not reset by an exit callback")
    run.ob("C18.tear", f"{fn.short}:run-scope-reset", ok)


def check_portal(eng, run):
    ci = eng.db.cls("lowlevel.api_async.backend._asyncio.threads.ThreadsPortal")
    ex = _meth(ci, "__aexit__")
    # loop = None under the lock, before the drain loop
    store = None
    for w in own_nodes(ex.node):
        if isinstance(w, ast.With) and "lock" in ast.unparse(w.items[0].context_expr):
            for s in w.body:
                if isinstance(s, ast.Assign) and any((dotted(t) or "").endswith("__loop") for t in s.targets) and isinstance(s.value, ast.Constant) and s.value.value is None:
                    store = s
    drain = next((n for n in own_nodes(ex.node) if isinstance(n, ast.While)), None)
    ok = store is not None and drain is not None and store.lineno < drain.lineno
    if not ok:
        run.finding("C18.portal", ex, ex.node, "the portal no longer clears its loop under its lock before draining pending calls: a call scheduled during exit is neither refused nor awaited")
    run.ob("C18.portal", f"{ex.short}:clear-loop-under-lock-then-drain", ok)
    rs = _meth(ci, "run_sync_soon")
    locks = {f"{rs.self_name}.__lock"}

    def is_check(node, a):
        c = call_of(node)
        return isinstance(node, ast.Call) and c is not None and "check_loop" in _cname(c)

    lh = LockHeld(eng, locks, is_check)
    Interp(lh, rs).run()
    ok = bool(lh.sites) and all(held_names(h) for _, h in lh.sites)
    chk = _meth(ci, "__check_loop")
    refuses = any(isinstance(n, ast.If) and "None" in ast.unparse(n.test) and any(isinstance(r, ast.Raise) for r in n.body) for n in own_nodes(chk.node))
    if not (ok and refuses):
        run.finding("C18.portal", rs, rs.node, "run_sync_soon() no longer reads the loop under the portal lock / no longer refuses once the portal exited")
    run.ob("C18.portal", f"{rs.short}:checked-under-lock-and-refused", ok and refuses)


def check_snapshot(eng, run):
    """server_close() stops an activation in one of two ways: it clears the factory (seen by a later read) or cancels the factory
    scope (seen by an activation that already registered its scope).  An activation that has read the factory but not yet
    registered its scope is invisible to it - so no suspension point may lie between that read and the scope registration."""
    aa = eng.db.cls(f"{BASE}.BaseAsyncNetworkServerImpl")
    act = _meth(aa, "server_activate")
    me = act.self_name
    # the closed marker: the self attribute whose None-ness makes server_activate raise ServerClosedError
    cleared = set()
    for n in own_nodes(act.node):
        if isinstance(n, ast.If) and any(isinstance(r, ast.Raise) and "ServerClosedError" in ast.unparse(r) for r in n.body):
            for x in ast.walk(n.test):
                if isinstance(x, ast.Attribute) and dotted(x.value) == me:
                    cleared.add(dotted(x))
                if isinstance(x, ast.Name):
                    from sa.analyses.buffers import through_local
                    v = through_local(act, x)
                    if isinstance(v, ast.Attribute) and dotted(v.value) == me:
                        cleared.add(dotted(v))
    # the scope server_close() cancels: the self attribute bound by a `with ... as self.<attr>` in server_activate
    from sa.norm import nodes_inl as _nodes_inl
    cancelled = {dotted(it.optional_vars) for w, _o in _nodes_inl(act) if isinstance(w, (ast.With, ast.AsyncWith)) for it in w.items
                 if isinstance(it.optional_vars, ast.Attribute) and dotted(it.optional_vars.value) == me}  # (also in a private helper the activation delegates to)
    cleared -= cancelled
    if not cleared or not cancelled:
        raise AnalysisError("anchor vanished: server_activate() tests the closed marker and registers a cancel scope")

    def reads_marker(n):
        if isinstance(n, (ast.NamedExpr, ast.Assign, ast.AnnAssign)) and getattr(n, "value", None) is not None:
            return dotted(n.value) in cleared
        return False

    def registers_scope(n):
        if isinstance(n, WithEnter):
            return dotted(n.item.optional_vars) in cancelled if n.item.optional_vars is not None else False
        if isinstance(n, ast.Assign):
            return any(dotted(t) in cancelled for t in n.targets) and not (isinstance(n.value, ast.Constant) and n.value.value is None)
        return False

    an = AtomicSection(eng, reads_marker, registers_scope)
    an.inline_helpers = True
    Interp(an, act).run()
    if not an.starts or not an.ends:
        raise AnalysisError("anchor vanished: server_activate() reads the factory then registers its cancel scope")
    ok = all(st == "armed" for _, st in an.ends)
    if not ok:
        br = an.breaks[0] if an.breaks else None
        run.finding("C18.refuse", act, _stmt_at(act, br.lineno) if br is not None and hasattr(br, "lineno") else act.node,
                    f"a suspension point lies between reading {sorted(cleared)} and registering {sorted(cancelled)}: a server_close() running in that window neither clears what was read "
                    "nor finds a scope to cancel, so a closed server binds new listeners and serves")
    run.ob("C18.refuse", f"{act.short}:closed-check-and-scope-registration-atomic", ok, starts=len(an.starts), ends=len(an.ends))


class MustSet(RuleAnalysis):
    """fact: 'unset' | 'set' - has `<attr>.set()` run?"""
    tokens = ("Exception", "BaseException")

    def __init__(self, engine, attr):
        super().__init__(engine)
        self.attr = attr
        self.sets = 0

    def initial(self, fn):
        return ["unset"]

    def may_raise(self, node, fact):
        return list(self.tokens) if isinstance(node, ast.Call) and not (isinstance(node.func, ast.Attribute) and node.func.attr == "set") else []

    def transfer(self, node, fact):
        if isinstance(node, ast.Call) and isinstance(node.func, ast.Attribute) and node.func.attr == "set" and dotted(node.func.value) == self.attr:
            self.sets += 1
            return ["set"]
        return [fact]


def check_thread_up(eng, run):
    """NetworkServerThread.start() blocks on the is-up event: run() must set it on *every* exit of serve_forever() - also the normal
    return of a server that was shut down (or closed) before it ever came up - or start() never returns."""
    ci = eng.db.module("servers.threads_helper").classes.get("NetworkServerThread")
    if ci is None:
        raise AnalysisError("anchor vanished: NetworkServerThread")
    start, runm = _meth(ci, "start"), _meth(ci, "run")
    waited = {dotted(c.func.value) for c in own_nodes(start.node) if isinstance(c, ast.Call) and isinstance(c.func, ast.Attribute) and c.func.attr == "wait"}
    waited = {w for w in waited if w and w.startswith(start.self_name + ".")}
    if len(waited) != 1:
        raise AnalysisError("anchor vanished: the event NetworkServerThread.start() waits on")
    attr = next(iter(waited)).replace(start.self_name + ".", runm.self_name + ".", 1)
    an = MustSet(eng, attr)
    out = Interp(an, runm).run()
    bad = [("return", tr) for f, tr in out.ret.items() if f == "unset"] + [(f"raise[{t}]", tr) for t, m in out.exc.items() for f, tr in m.items() if f == "unset"]
    for label, tr in bad[:1]:
        run.finding("C18.wait", runm, _stmt_at(runm, tr[-1]) if tr else runm.node, f"run() can leave ({label}) without setting `{attr}`: start() waits on it without a timeout and deadlocks "
                    "when serve_forever() ends before the server was up (shutdown / close during start-up)", tr)
    run.ob("C18.wait", f"{runm.short}:is-up-event-set-on-every-exit", not bad and an.sets > 0, set_sites=an.sets)
    # and serve_forever receives that very event
    passes = any(isinstance(c, ast.Call) and any(dotted(k.value) == attr for k in c.keywords) for c in own_nodes(runm.node))
    if not passes:
        run.finding("C18.wait", runm, runm.node, f"serve_forever() is no longer given `{attr}`: start() returns before (or never when) the server is up")
    run.ob("C18.wait", f"{runm.short}:event-handed-to-serve_forever", passes)


def check_join_shuts_down(eng, run):
    """NetworkServerThread.join(): the server's shutdown() is requested on every path before the thread is joined - also when the
    server is still starting up (shutdown() itself waits for a starting server); otherwise join() waits for a serve_forever()
    that nobody stops"""
    from sa.analyses.must import MustCall
    ci = eng.db.module("servers.threads_helper").classes.get("NetworkServerThread")
    jn = ci.methods.get("join") if ci else None
    if jn is None:
        raise AnalysisError("anchor vanished: NetworkServerThread.join")

    def is_shutdown(n):
        return isinstance(n, ast.Call) and isinstance(n.func, ast.Attribute) and n.func.attr == "shutdown"

    class BeforeJoin(MustCall):
        def __init__(self, e):
            super().__init__(e, is_shutdown, raising=lambda n: False)
            self.viol = []
            self.joins = 0

        def transfer(self, node, fact):
            if isinstance(node, ast.Call) and isinstance(node.func, ast.Attribute) and node.func.attr == "join" and isinstance(node.func.value, ast.Call) and dotted(node.func.value.func) == "super":
                self.joins += 1
                if fact == "no" and node not in self.viol:
                    self.viol.append(node)
            return super().transfer(node, fact)

    an = BeforeJoin(eng)
    Interp(an, jn).run()
    if not an.joins:
        raise AnalysisError("anchor vanished: super().join() in NetworkServerThread.join")
    for v in an.viol[:1]:
        run.finding("C18.wait", jn, _stmt_at(jn, v.lineno), "join() can wait for the thread on a path that has not asked the server to shut down: called while the server is still starting up, "
                    "the server then comes up and serves for ever - join() never returns")
    run.ob("C18.wait", f"{jn.short}:shutdown-requested-before-thread-join", not an.viol, joins=an.joins, shutdown_sites=an.sites)


def check_default_after_running_test(eng, run):
    """BaseStandaloneNetworkServerImpl._run_sync_or_else(): the 'server is not running' answer (`default()`) is given only after the
    bootstrap-lock region that looks for the running portal / server has been passed: a shortcut in front of it (e.g. on the closed
    latch) turns server_close() / is_serving() into no-ops while the embedded server is still running"""
    from sa.analyses.base import RuleAnalysis
    from sa.analyses.locks import canon_lock
    sa_ = eng.db.cls(f"{BASE}.BaseStandaloneNetworkServerImpl")
    fn = _meth(sa_, "_run_sync_or_else")
    ps = [a.arg for a in fn.params()]
    if len(ps) < 3:
        raise AnalysisError("anchor vanished: parameters of _run_sync_or_else")
    dflt = ps[2]

    class AfterLock(RuleAnalysis):
        tokens = ("Exception",)

        def __init__(self, e):
            super().__init__(e)
            self.viol = []
            self.calls = 0

        def initial(self, f):
            return [False]

        def may_raise(self, node, fact):
            return []

        def transfer(self, node, fact):
            if isinstance(node, WithEnter) and "lock" in (canon_lock(node.item.context_expr, fn) or "").lower():
                return [True]
            if isinstance(node, ast.Call) and isinstance(node.func, ast.Name) and node.func.id == dflt:
                self.calls += 1
                if not fact and node not in self.viol:
                    self.viol.append(node)
            return [fact]

    an = AfterLock(eng)
    Interp(an, fn).run()
    if not an.calls:
        raise AnalysisError("anchor vanished: default() call in _run_sync_or_else")
    for v in an.viol[:1]:
        run.finding("C18.latch", fn, _stmt_at(fn, v.lineno), "the 'not running' default is returned on a path that never looked (under the bootstrap lock) whether the server runs: once the closed latch is set by a refused "
                    "close, a later server_close() / is_serving() does nothing although the server is up - the listeners stay open and serve_forever() never ends")
    run.ob("C18.latch", f"{fn.short}:default-only-after-the-running-test", not an.viol, default_calls=an.calls)


def check_scope_withdrawn(eng, run):
    """a cancel scope published in an attribute (`with backend.open_cancel_scope() as self.<attr>`, so that close() can cancel the wait)
    is withdrawn (`self.<attr> = None`) on every exit of the function, including the exception / cancellation edges and the close
    of a context-manager generator at its yield: a stale scope makes the next accept()/activation refuse with EBUSY"""
    from sa.analyses.base import RuleAnalysis
    from sa.exc import CANCELLED

    def published(item):
        ov = item.optional_vars
        ce = item.context_expr
        if isinstance(ov, ast.Attribute) and isinstance(ce, ast.Call) and isinstance(ce.func, ast.Attribute) and ce.func.attr in ("open_cancel_scope", "move_on_after", "move_on_at"):
            return dotted(ov)
        return None

    n = 0
    for fn in eng.db.all_functions():
        if isinstance(fn.node, ast.Lambda) or not fn.module.name.startswith(("easynetwork.servers", "easynetwork.lowlevel.api_async")):
            continue
        attrs = {a for w in own_nodes(fn.node) if isinstance(w, (ast.With, ast.AsyncWith)) for it in w.items if (a := published(it))}
        for attr in sorted(attrs):
            n += 1

            class Pub(RuleAnalysis):
                tokens = ("Exception", CANCELLED)

                def initial(self, f):
                    return [False]

                def may_raise(self, node, fact):
                    if isinstance(node, (ast.Await, ast.Yield, ast.YieldFrom)):
                        return list(self.tokens)
                    if isinstance(node, ast.Raise):
                        return ["Exception"]
                    return []

                def transfer(self, node, fact):
                    if isinstance(node, WithEnter) and published(node.item) == attr:
                        return [True]
                    if isinstance(node, ast.Assign) and isinstance(node.value, ast.Constant) and node.value.value is None and any(dotted(t) == attr for t in node.targets):
                        return [False]
                    return [fact]

            an = Pub(eng)
            out = Interp(an, fn).run()
            bad = [("return", tr) for f, tr in out.ret.items() if f] + [(f"raise[{t.split('.')[-1]}]", tr) for t, m in out.exc.items() for f, tr in m.items() if f]
            for label, tr in bad[:1]:
                run.finding("C18.tear", fn, _stmt_at(fn, tr[-1]) if tr else fn.node, f"exit {label} with the cancel scope still published in `{attr}`: after a shutdown / cancellation during the wait the listener (kept between runs) "
                            "refuses the next serve with EBUSY - the server cannot be restarted", tr)
            run.ob("C18.tear", f"{fn.short}:{attr.split('.')[-1]}:scope-withdrawn-on-every-exit", not bad)
    run.floor("C18.tear published cancel scopes", n, 2)


def check_cancel_request_honoured(eng, run):
    """a function that publishes a cancel scope for another method to cancel and, after the block, installs what the block produced into
    the object's state, asks the scope whether a cancellation was *requested* (`cancel_called()`): `cancelled_caught()` is False when the
    request arrived while the body was shielded and met no later checkpoint - the result would be installed although the other
    method (server_close()) has returned successfully (finding F8: the server came up after server_close())."""
    n = 0
    for fn in eng.db.all_functions():
        if isinstance(fn.node, ast.Lambda) or not fn.module.name.startswith(("easynetwork.servers", "easynetwork.lowlevel.api_async")):
            continue
        for w in [x for x in own_nodes(fn.node) if isinstance(x, (ast.With, ast.AsyncWith))]:
            for it in w.items:
                ov, ce = it.optional_vars, it.context_expr
                if not (isinstance(ov, ast.Attribute) and isinstance(ce, ast.Call) and isinstance(ce.func, ast.Attribute) and ce.func.attr in ("open_cancel_scope", "move_on_after", "move_on_at")):
                    continue
                scope = dotted(ov)
                end = getattr(w, "end_lineno", w.lineno)
                def _installs(g, after):
                    return [x for x in own_nodes(g.node) if isinstance(x, (ast.Assign, ast.AugAssign)) and x.lineno > after
                            and any((isinstance(t, ast.Attribute) and dotted(t).split(".", 1)[-1] != scope.split(".", 1)[-1] and dotted(t.value) == g.self_name) or
                                    (isinstance(t, ast.Subscript) and isinstance(t.value, ast.Attribute) and dotted(t.value.value) == g.self_name)
                                    for t in (x.targets if isinstance(x, ast.Assign) else [x.target]))
                            and not (isinstance(x, ast.Assign) and isinstance(x.value, ast.Constant) and x.value.value is None)]
                installs = _installs(fn, end)
                if not installs and fn.cls is not None and fn.name.startswith("_") and not fn.name.endswith("__"):
                    # the block lives in a private helper whose caller installs what it returns
                    from sa.norm import private_helper
                    for g in fn.cls.methods.values():
                        if g is fn or isinstance(g.node, ast.Lambda):
                            continue
                        for c in own_nodes(g.node):
                            if isinstance(c, ast.Call) and private_helper(g, c) is fn:
                                installs += _installs(g, c.lineno)
                if not installs:
                    continue
                n += 1
                asked = {c.func.attr for c in own_nodes(fn.node) if isinstance(c, ast.Call) and isinstance(c.func, ast.Attribute) and dotted(c.func.value) == scope and c.lineno > end}
                ok = "cancel_called" in asked
                if not ok:
                    run.finding("C18.refuse", fn, installs[0], f"the result of the block run under the published scope `{scope}` is installed after asking only "
                                f"{sorted(asked) or 'nothing'}: a cancel() that was requested but not delivered (the body was shielded and met no later checkpoint) is ignored - "
                                "the listeners are installed and the server comes up although server_close() returned successfully")
                run.ob("C18.refuse", f"{fn.short}:{scope.split('.')[-1]}:cancel-request-honoured-before-install", ok, asked=sorted(asked))
    run.floor("C18.refuse published scopes guarding a state install", n, 1)


def check_counter_tested(eng, run):
    """the auto-stop of the async server (`__detach_server`: cancel the run scope when nothing is left to serve) tests the very counter
    the function has just decremented - not another collection that only empties when serve_forever() has already ended"""
    aa = eng.db.cls(f"{BASE}.BaseAsyncNetworkServerImpl")
    n = 0
    for fn in aa.methods.values():
        if isinstance(fn.node, ast.Lambda):
            continue
        decs = [x for x in own_nodes(fn.node) if isinstance(x, ast.AugAssign) and isinstance(x.op, ast.Sub) and isinstance(x.target, ast.Attribute) and dotted(x.target.value) == fn.self_name]
        stops = [i for i in own_nodes(fn.node) if isinstance(i, ast.If) and any(isinstance(c, ast.Call) and isinstance(c.func, ast.Attribute) and c.func.attr == "cancel" for b in i.body for c in ast.walk(b))]
        if not decs or not stops:
            continue
        n += 1
        counters = {dotted(d.target) for d in decs}
        # only the innermost test around each cancel is judged, together with every test that encloses it (nested ifs, early returns)
        stops = [i for i in stops if not any(j is not i and any(i is x for x in ast.walk(j)) and False for j in stops)]
        all_ifs = [i for i in own_nodes(fn.node) if isinstance(i, ast.If)]
        guards = [i for i in all_ifs if any(isinstance(r, ast.Return) for r in i.body)]  # `if <counter>: return` before the cancel
        for i in stops:
            enclosing = [j for j in all_ifs if j is i or any(i is x for x in ast.walk(j))]
            read = {dotted(a) for j in enclosing + [g for g in guards if g.lineno < i.lineno] for a in ast.walk(j.test) if isinstance(a, ast.Attribute)}
            from sa.analyses.buffers import through_local
            for j in enclosing:
                for nm in [x for x in ast.walk(j.test) if isinstance(x, ast.Name)]:
                    v = through_local(fn, nm)
                    if v is not nm:
                        read |= {dotted(a) for a in ast.walk(v) if isinstance(a, ast.Attribute)}
            ok = bool(counters & read)
            if not ok:
                run.finding("C18.order", fn, i, f"the stop condition does not test the counter this function decrements ({sorted(c.split('.')[-1] for c in counters)}): when the listeners are closed while "
                            "serve_forever() runs, nothing cancels the run scope and serve_forever() never returns")
            run.ob("C18.order", f"{fn.short}:stop-condition-tests-the-decremented-counter", ok)
    run.floor("C18.order auto-stop functions", n, 1)


PRIMITIVE_FACTORIES = ("create_lock", "create_fair_lock", "create_event", "create_condition_var", "Lock", "RLock", "Event", "Condition", "ForkSafeLock", "ResourceGuard", "Semaphore")


def check_distinct_primitives(eng, run):
    """two attributes that play different synchronisation roles are not bound to one object: a chained assignment
    `self.a = self.b = create_lock()` makes the activation lock and the close lock the same lock - server_close() then queues behind the
    activation it is supposed to interrupt"""
    n = 0
    for fn in eng.db.all_functions():
        if isinstance(fn.node, ast.Lambda) or fn.self_name is None or not fn.module.name.startswith("easynetwork."):
            continue
        for st in own_nodes(fn.node):
            if isinstance(st, ast.Assign) and isinstance(st.value, ast.Call) and (dotted(st.value.func) or "").split(".")[-1] in PRIMITIVE_FACTORIES:
                attrs = [t for t in st.targets if isinstance(t, ast.Attribute) and dotted(t.value) == fn.self_name]
                if not attrs:
                    continue
                n += 1
                ok = len(attrs) <= 1
                if not ok:
                    run.finding("C18.order", fn, st, f"{[a.attr for a in attrs]} are bound to one and the same synchronisation object: the two roles can no longer be taken independently "
                                "(a close request waits behind the activation it should cancel, then finds the server in its set-up section)")
                run.ob("C18.order", f"{fn.short}:{attrs[0].attr}:own-primitive", ok)
    run.floor("C18.order synchronisation primitives created for attributes", n, 6)


def check_reuse_address(eng, run):
    """'a stopped server can serve again': the TCP listeners are opened with SO_REUSEADDR on POSIX - the flag handed to
    open_listener_sockets_from_getaddrinfo_result() evaluates to True for os.name == 'posix' / sys.platform == 'linux' (evaluated from
    the expression; a server port in TIME_WAIT otherwise refuses the next serve_forever() with EADDRINUSE)"""
    env = {"os.name": "posix", "sys.platform": "linux"}

    def ev(e, fn):
        from sa.analyses.buffers import through_local
        if isinstance(e, ast.Name):
            e2 = through_local(fn, e)
            return ev(e2, fn) if e2 is not e else None
        if isinstance(e, ast.Constant):
            return e.value
        if isinstance(e, ast.Attribute):
            return env.get(dotted(e) or "", None)
        if isinstance(e, (ast.Tuple, ast.List, ast.Set)):
            vals = [ev(x, fn) for x in e.elts]
            return None if any(v is None for v in vals) else tuple(vals)
        if isinstance(e, ast.UnaryOp) and isinstance(e.op, ast.Not):
            v = ev(e.operand, fn)
            return None if v is None else (not v)
        if isinstance(e, ast.BoolOp):
            vals = [ev(x, fn) for x in e.values]
            if isinstance(e.op, ast.And):
                return False if any(v is False for v in vals) else (None if any(v is None for v in vals) else all(vals))
            return True if any(v is True for v in vals) else (None if any(v is None for v in vals) else any(vals))
        if isinstance(e, ast.Compare) and len(e.ops) == 1:
            a, b = ev(e.left, fn), ev(e.comparators[0], fn)
            if a is None or b is None:
                return None
            op = e.ops[0]
            return {ast.Eq: a == b, ast.NotEq: a != b}.get(type(op)) if isinstance(op, (ast.Eq, ast.NotEq)) else ((a in b) if isinstance(op, ast.In) else ((a not in b) if isinstance(op, ast.NotIn) else None))
        return None

    n = 0
    for fn in eng.db.all_functions():
        if isinstance(fn.node, ast.Lambda) or fn.name != "create_tcp_listeners":
            continue
        for c in own_nodes(fn.node):
            if isinstance(c, ast.Call) and (dotted(c.func) or "").endswith("open_listener_sockets_from_getaddrinfo_result"):
                kw = next((k.value for k in c.keywords if k.arg == "reuse_address"), None)
                if kw is None:
                    continue
                n += 1
                v = ev(kw, fn)
                ok = v is not False  # undecidable expressions are not judged
                if not ok:
                    run.finding("C18.refuse", fn, c, "the TCP listeners are opened without SO_REUSEADDR on POSIX (the flag evaluates to False for os.name='posix', sys.platform='linux'): after a run whose "
                                "server side closed a connection the port is in TIME_WAIT and the stopped server cannot serve again (EADDRINUSE)")
                run.ob("C18.refuse", f"{fn.module.name.split('.')[-2]}.{fn.short}:reuse-address-on-posix", ok, evaluated=v is not None)
    run.floor("C18.refuse TCP listener factories", n, 1)


def check_closed_latch_set(eng, run):
    """standalone server_close(): the closed latch is set on every exit, whether or not the server is running at that moment (it is
    set directly, or registered on an exit stack that is entered before anything can fail)"""
    from sa.analyses.must import exits_without
    sa_ = eng.db.cls(f"{BASE}.BaseStandaloneNetworkServerImpl")
    fn = _meth(sa_, "server_close")
    latches = set()
    for ci_m in sa_.methods.values():
        if ci_m.name == "serve_forever":
            for n_ in own_nodes(ci_m.node):
                if isinstance(n_, ast.If) and any(isinstance(r, ast.Raise) and "ServerClosedError" in ast.unparse(r) for r in n_.body):
                    for c in ast.walk(n_.test):
                        if isinstance(c, ast.Call) and isinstance(c.func, ast.Attribute) and c.func.attr == "is_set":
                            latches.add((dotted(c.func.value) or "").split(".", 1)[-1])
    if not latches:
        raise AnalysisError("anchor vanished: closed latch tested by the standalone serve_forever()")
    me = fn.self_name

    def sets(node):
        if not isinstance(node, ast.Call) or not isinstance(node.func, ast.Attribute):
            return False
        if node.func.attr == "set" and (dotted(node.func.value) or "").split(".", 1)[-1] in latches and (dotted(node.func.value) or "").startswith(me + "."):
            return True
        if node.func.attr in ("callback", "push") and node.args and isinstance(node.args[0], ast.Attribute) and node.args[0].attr == "set" \
                and (dotted(node.args[0].value) or "").split(".", 1)[-1] in latches:
            return True  # registered on an exit stack: runs on every exit of the enclosing with
        return False

    bad, sites = exits_without(eng, fn, sets, raising=lambda node: isinstance(node, ast.Call) and not sets(node) and not (isinstance(node.func, ast.Attribute) and node.func.attr in ("get", "ExitStack")))
    for label, tr in bad[:1]:
        run.finding("C18.latch", fn, _stmt_at(fn, tr[-1]) if tr else fn.node, f"server_close() can leave ({label}) without the closed latch `{sorted(latches)[0]}` being set: a server closed while it is "
                    "running forgets that it was closed and serve_forever() serves again instead of raising ServerClosedError", tr)
    run.ob("C18.latch", f"{fn.short}:closed-latch-set-on-every-exit", not bad and sites > 0, set_sites=sites)


def check_close_not_behind_activation(eng, run):
    """server_close() must be able to cancel an activation in progress: at the point where it cancels the factory scope it holds none of
    the locks that server_activate() holds while it awaits the listeners factory"""
    aa = eng.db.cls(f"{BASE}.BaseAsyncNetworkServerImpl")
    act, sc = _meth(aa, "server_activate"), _meth(aa, "server_close")
    locks_a = {a.replace("self.", act.self_name + ".", 1) for a in _lock_attrs(aa)}
    an = LockHeld(eng, locks_a, lambda node, a_: isinstance(node, ast.Await) and a_.engine.summaries.atom_may_suspend(a_.fn or act, node) and a_.interp is not None
                  and any(isinstance(it.optional_vars, ast.Attribute) for it, _ in a_.interp.ctx.with_stack))
    an.inline_helpers = True  # the part of the activation that runs the factory may live in a private helper
    Interp(an, act).run()
    held_in_activation = set()
    for node, held in an.sites:
        held_in_activation |= {h.split(".", 1)[1] for h in held_names(held)}
    if not an.sites:
        raise AnalysisError("anchor vanished: awaited listeners factory inside the cancel scope of server_activate()")
    locks_c = {a.replace("self.", sc.self_name + ".", 1) for a in _lock_attrs(aa)}
    an2 = LockHeld(eng, locks_c, lambda node, a_: isinstance(node, ast.Call) and isinstance(node.func, ast.Attribute) and node.func.attr == "cancel" and "scope" in (dotted(node.func.value) or ""))
    Interp(an2, sc).run()
    if not an2.sites:
        raise AnalysisError("anchor vanished: factory-scope cancel in server_close()")
    bad = []
    for node, held in an2.sites:
        common = {h.split(".", 1)[1] for h in held_names(held)} & held_in_activation
        if common:
            bad.append((node, common))
    for node, common in bad[:1]:
        run.finding("C18.order", sc, _stmt_at(sc, node.lineno), f"server_close() cancels the activation while holding {sorted(common)}, which server_activate() holds for as long as the listeners factory "
                    "runs: the cancel is only reached after the activation finished - closing during start-up blocks (for ever with a stuck factory) or trips the set-up guard")
    run.ob("C18.order", f"{sc.short}:cancel-reachable-during-activation", not bad, held_by_activation=sorted(held_in_activation))


def check_portal_cancel_reaches_thread_as_cancellation(eng, run):
    """a coroutine scheduled from another thread (shutdown(), server_close() of the standalone servers) that is cancelled with the
    portal hands a *cancelled* future to the waiting thread: `concurrent.futures.CancelledError` is what those callers absorb (serving
    has stopped, there is nothing left to wait for).  Forwarding the asyncio.CancelledError instance with set_exception() makes
    shutdown() / NetworkServerThread.join() raise instead of returning."""
    ci = eng.db.cls("lowlevel.api_async.backend._asyncio.threads.ThreadsPortal")
    rc = _meth(ci, "run_coroutine_soon")
    n = 0
    for t in [x for x in ast.walk(rc.node) if isinstance(x, ast.Try)]:
        for h in t.handlers:
            if h.type is None or "CancelledError" not in ast.unparse(h.type):
                continue
            n += 1
            calls = [c for b in h.body for c in ast.walk(b) if isinstance(c, ast.Call) and isinstance(c.func, ast.Attribute)]
            cancels = any(c.func.attr == "cancel" for c in calls)
            forwards = [c for c in calls if c.func.attr in ("set_exception", "set_result")]
            ok = cancels and not forwards
            if not ok:
                run.finding("C18.portal", rc, (forwards[0] if forwards else h), "the cancellation of a coroutine scheduled from another thread is not handed to the waiting thread as a cancelled future "
                            "(future.cancel()): shutdown() / server_close() / join() of a standalone server raise asyncio.CancelledError instead of returning once serving has stopped")
            run.ob("C18.portal", f"{rc.short}:cancelled-coroutine-cancels-the-thread-future", ok)
    if n == 0:
        raise AnalysisError("anchor vanished: CancelledError arm of ThreadsPortal.run_coroutine_soon")


def check_every_listener_closed(eng, run):
    """server_close() has already forgotten the listeners when it closes them: the helper that closes a list of listeners gives each
    one its own task (task group + start_soon), so that a close that fails or is cancelled does not leave the *other* listeners
    bound - a sequential `for ...: await close(server)` stops at the first interruption and a retried server_close() has nothing
    left to close."""
    aa = eng.db.cls(f"{BASE}.BaseAsyncNetworkServerImpl")
    fn = _meth(aa, "__close_all_servers")
    loops = [x for x in own_nodes(fn.node) if isinstance(x, (ast.For, ast.AsyncFor))]
    if not loops:
        raise AnalysisError("anchor vanished: loop over the listeners in __close_all_servers")
    bad = []
    for lp in loops:
        for x in ast.walk(lp):
            if isinstance(x, ast.Await):
                bad.append(x)
    spawns = [c for lp in loops for c in ast.walk(lp) if isinstance(c, ast.Call) and isinstance(c.func, ast.Attribute) and c.func.attr == "start_soon"]
    ok = not bad and bool(spawns)
    if not ok:
        run.finding("C18.tear", fn, _stmt_at(fn, (bad[0] if bad else loops[0]).lineno), "the listeners are closed one after the other in the calling task: a close that is cancelled or fails leaves the remaining "
                    "listeners open and bound although server_close() has dropped them - a later server_close() returns normally with sockets still listening")
    run.ob("C18.tear", f"{fn.short}:one-task-per-listener", ok, spawns=len(spawns))


def check_service_stack_entered_before_use(eng, run):
    """the exit stack a request handler fills in service_init() (task groups, teardown callbacks) already belongs to the server's
    teardown chain when the handler receives it: it is the result of `server_exit_stack.enter_async_context(AsyncExitStack())`.  A
    detached stack that is only entered after service_init() returned is dropped unclosed when shutdown() / a failure arrives during
    service_init(): shutdown() returns while the handler's background tasks keep running."""
    n = 0
    for fn in eng.db.all_functions():
        if isinstance(fn.node, ast.Lambda) or not fn.module.name.startswith("easynetwork.servers"):
            continue
        for c in own_nodes(fn.node):
            if isinstance(c, ast.Call) and isinstance(c.func, ast.Attribute) and c.func.attr == "service_init" and c.args:
                n += 1
                a0 = c.args[0]
                if isinstance(a0, ast.Name):
                    from sa.analyses.buffers import through_local
                    a0 = through_local(fn, a0)
                v = a0.value if isinstance(a0, ast.Await) else a0
                ok = isinstance(v, ast.Call) and isinstance(v.func, ast.Attribute) and v.func.attr in ("enter_async_context", "enter_context") and v.args \
                    and isinstance(v.args[0], ast.Call) and (dotted(v.args[0].func) or "").split(".")[-1] in ("AsyncExitStack", "ExitStack")
                if not ok:
                    run.finding("C18.tear", fn, _stmt_at(fn, c.lineno), "the exit stack handed to service_init() is not one that was just entered on the server's own exit stack: what the handler registers on it "
                                "(task groups, teardown callbacks) is lost if serve_forever() is stopped or fails while service_init() is still running")
                run.ob("C18.tear", f"{fn.short}:service-stack-entered-before-service_init", ok)
    run.floor("C18.tear service_init() calls of the servers", n, 2)


def run(eng, run):
    from sa.anchors import verify as _verify_anchor_names
    _verify_anchor_names(eng, run)
    run.not_decided += NOT_DECIDED
    run.attempt(check_order, eng, run)
    run.attempt(check_wait, eng, run)
    run.attempt(check_thread_up, eng, run)
    run.attempt(check_refuse, eng, run)
    run.attempt(check_latch, eng, run)
    run.attempt(check_snapshot, eng, run)
    run.attempt(check_closed_latch_set, eng, run)
    run.attempt(check_close_not_behind_activation, eng, run)
    from sa.analyses.arms import check_shared_future_awaits
    run.attempt(check_shared_future_awaits, eng, run, "C18.tear")
    run.attempt(check_tear, eng, run)
    run.attempt(check_portal, eng, run)
    run.attempt(check_service_stack_entered_before_use, eng, run)
    run.attempt(check_portal_cancel_reaches_thread_as_cancellation, eng, run)
    run.attempt(check_every_listener_closed, eng, run)
    run.attempt(check_join_shuts_down, eng, run)
    run.attempt(check_default_after_running_test, eng, run)
    run.attempt(check_scope_withdrawn, eng, run)
    run.attempt(check_cancel_request_honoured, eng, run)
    run.attempt(check_counter_tested, eng, run)
    run.attempt(check_distinct_primitives, eng, run)
    run.attempt(check_reuse_address, eng, run)
    run.end_of_rules()


# ---------------------------------------------------------------------------------------------- self-test corpus
from sa.mutate import (Variant, delete_stmt, find_stmt, insert_after, insert_before, rename_local, replace_expr, replace_stmt,  # noqa: E402
                       stmt_has, stmt_is)

_SA = "servers._base:BaseStandaloneNetworkServerImpl"
_AA = "servers._base:BaseAsyncNetworkServerImpl"
_PORTAL = "lowlevel.api_async.backend._asyncio.threads:ThreadsPortal"


def _wait_under_lock(fn):
    lst, i, st = find_stmt(fn, stmt_is("self.__is_shutdown.wait(timeout)"))
    del lst[i]
    w = next(x for x in ast.walk(fn) if isinstance(x, ast.With) and "bootstrap_lock" in ast.unparse(x.items[0].context_expr))
    w.body.append(st)


MUTANTS = [
    Variant("standalone-wait-under-bootstrap-lock", _SA + ".shutdown", _wait_under_lock, "C18.wait",
            why="the serving thread needs the bootstrap lock to finish: deadlock"),
    Variant("standalone-server-close-lock-order", _SA + ".server_close",
            lambda fn: replace_stmt(fn, stmt_is("with self.__close_lock.get(), contextlib.ExitStack() as stack"),
                                    "with self.__bootstrap_lock.get():\n    with self.__close_lock.get(), contextlib.ExitStack() as stack:\n        stack.callback(self.__is_closed.set)"),
            "C18.order", why="bootstrap -> close while serve_forever takes close -> bootstrap"),
    Variant("standalone-event-set-registered-last", _SA + ".serve_forever",
            lambda fn: (delete_stmt(fn, stmt_is("server_exit_stack.callback(self.__is_shutdown.set)")), insert_after(fn, stmt_is("server_exit_stack.callback(reacquire_bootstrap_lock_on_shutdown)"), "server_exit_stack.callback(self.__is_shutdown.set)")),
            "C18.tear"),
    Variant("standalone-closed-latch-cleared", _SA + ".serve_forever", lambda fn: insert_before(fn, stmt_is("self.__is_shutdown.clear()"), "self.__is_closed.clear()"), "C18.latch"),
    Variant("async-already-running-test-after-create", _AA + ".serve_forever",
            lambda fn: (lambda t: (t[0].insert(t[1] + 1, t[0].pop(t[1]))))(find_stmt(fn, stmt_is("if not self.__is_shutdown.is_set()"))), "C18.refuse",
            why="the event is replaced before it is tested"),
    Variant("async-yield-between-test-and-replace", _AA + ".serve_forever",
            lambda fn: insert_after(fn, stmt_is("if not self.__is_shutdown.is_set()"), "await self.__backend.coro_yield()"), "C18.refuse"),
    Variant("async-shutdown-early-return", _AA + ".shutdown",
            lambda fn: replace_stmt(fn, stmt_is("if self.__server_run_scope is not None"), "if self.__server_run_scope is None:\n    return\nself.__server_run_scope.cancel()"), "C18.tear"),
    Variant("async-server-close-keeps-factory", _AA + ".server_close", lambda fn: delete_stmt(fn, stmt_is("self.__servers_factory_cb = None")), "C18.latch"),
    Variant("async-close-listeners-after-tasks", _AA + ".server_close",
            lambda fn: (delete_stmt(fn, stmt_has("push_async_callback(self.__close_all_servers")), fn.body[0].body.append(ast.parse("exit_stack.push_async_callback(self.__close_all_servers, self.__backend, self.__servers[:])").body[0])),
            "C18.tear"),
    Variant("portal-drain-before-clearing-loop", _PORTAL + ".__aexit__",
            lambda fn: (lambda t: (t[0].append(t[0].pop(t[1]))))(find_stmt(fn, stmt_is("with self.__lock.get()"))), "C18.portal"),
    Variant("standalone-shutdown-skips-wait-without-timeout", _SA + ".shutdown",
            lambda fn: replace_stmt(fn, stmt_is("self.__is_shutdown.wait(timeout)"), "if timeout is not None:\n    self.__is_shutdown.wait(timeout)"), "C18.tear"),
]

BENIGN = [
    Variant("standalone-nested-with-instead-of-comma", _SA + ".server_close",
            lambda fn: replace_stmt(fn, stmt_is("with self.__close_lock.get(), contextlib.ExitStack() as stack"),
                                    "with self.__close_lock.get():\n    with contextlib.ExitStack() as stack:\n        stack.callback(self.__is_closed.set)\n        self._run_sync_or(lambda portal, server: portal.run_coroutine(server.server_close), None)"),
            why="`with a, b:` rewritten as nested withs"),
    Variant("async-shutdown-rename", _AA + ".shutdown", lambda fn: insert_before(fn, stmt_has("await self.__is_shutdown.wait()"), "event = self.__is_shutdown"), why="unrelated local"),
    Variant("standalone-rename-portal-local", _SA + ".shutdown", lambda fn: rename_local(fn, "elapsed", "timer"), why="local renamed"),
]


_ACT = _AA + ".server_activate"
_THR = "servers.threads_helper:NetworkServerThread.run"


def _closed_check_before_lock(fn):
    w = next(n for n in ast.walk(fn) if isinstance(n, ast.AsyncWith))
    chk = next(s for s in w.body if isinstance(s, ast.If) and "servers_factory" in ast.unparse(s.test))
    w.body.remove(chk)
    fn.body.insert(fn.body.index(w), chk)


def _event_only_on_error(fn):
    t = next(n for n in ast.walk(fn) if isinstance(n, ast.Try))
    h = ast.ExceptHandler(type=ast.Name(id="BaseException", ctx=ast.Load()), name=None, body=t.finalbody + [ast.Raise(exc=None, cause=None)])
    t.handlers, t.finalbody = [h], []


MUTANTS += [
    Variant("closed-check-before-activation-lock", _ACT, _closed_check_before_lock, "C18.refuse",
            why="an activation queued on the lock uses a factory read before server_close() ran: a closed server serves (seed C18-4)"),
    Variant("is-up-event-set-only-on-error", _THR, _event_only_on_error, "C18.wait",
            why="shutdown during start-up: serve_forever() returns normally, start() deadlocks (seed C18-6)"),
]
BENIGN += [
    Variant("is-up-event-set-in-both-arms", _THR,
            lambda fn: setattr(fn, "body", fn.body[:-1] + ast.parse("try:\n    self.__server.serve_forever(is_up_event=self.__is_up_event)\nexcept BaseException:\n    self.__is_up_event.set()\n    raise\nelse:\n    self.__is_up_event.set()").body),
            why="event set explicitly on both the error and the normal exit"),
]


_SCLOSE = _SA + ".server_close"
_ACLOSE = _AA + ".server_close"
MUTANTS += [
    Variant("standalone-close-sets-the-latch-only-when-not-running", _SCLOSE,
            lambda fn: setattr(fn, "body", ast.parse("with self.__close_lock.get():\n    self._run_sync_or_else(lambda portal, server: portal.run_coroutine(server.server_close), self.__is_closed.set)").body), "C18.latch",
            why="a server closed while running serves again instead of raising ServerClosedError (seed C18-7)"),
    Variant("async-close-takes-the-activation-lock", _ACLOSE, lambda fn: replace_expr(fn, "self.__server_close_lock", "self.__server_activation_lock"), "C18.order",
            why="closing during start-up blocks behind the activation it is supposed to cancel (seed C18-8)"),
    Variant("udp-serve-awaits-the-shared-future-bare", "lowlevel.api_async.backend._asyncio.datagram.listener:DatagramListenerProtocol.serve",
            lambda fn: replace_expr(fn, "asyncio.shield(self.__serve_forever_fut)", "self.__serve_forever_fut"), "C18.tear",
            why="shutdown() cancels the protocol's long-lived future: the next serve_forever() stops at once (seed C18-9)"),
]
