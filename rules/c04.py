"""C04 - send_packet writes exactly the packet's bytes and always terminates (DESIGN.md section 3, C04)."""
from __future__ import annotations

import ast
import itertools

from sa.analyses.signs import N, P, UNK, Z, Buf, Dq, SignInterp, State, Tup
from sa.db import AnalysisError, FunctionInfo, dotted, mangle, norm_stmt, own_nodes
from sa.flow import Interp, call_of

CLAIM = {
    "text": "Decides progress of every user-space send loop for every sign pattern of (chunk lengths, bytes accepted) by a finite abstract interpretation of the real loop bodies over the sign domain {0,+} (deque of buffers = list of signs up to length 3, resolved helpers such as adjust_leftover_buffer inlined, send primitives stubbed): from every abstract pre-state that satisfies the loop condition each iteration either leaves the loop or makes progress on the well-founded measure (an element removed, an element replaced by a strict suffix of itself, the sent-counter grown by a positive amount); decides the byte accounting (the loop advances by the count returned by the send primitive of the same iteration, the next offered slice starts at the accumulated count, negative counts raise) and the single hand-off of the producer's generator to exactly one transport call. Also decided: (wait) the selector wait of the retry wrapper is min(remaining budget, retry interval) and the unbounded select() is confined to the arm where that wait is infinite, and the time budget is threaded freshly through the blocking send path (typestate of C11); (tls) the async TLS writer flushes under the send lock only and every send entry point hands the whole plaintext backlog to the SSL object before it returns (rules of C08). (drain) every transport write of the asyncio adapter is followed by the awaited drain (rule of C20). Round 4: every chunk of an iterable handed to a send_all_from_iterable-style function is consumed - no truthiness test on `next(it, default)`, no truncating adaptor. Round 5: the end-of-stream latch of the endpoints is stored only after the transport's send_eof() completed; writer_drain() of the asyncio protocols awaits drain() on every path; send_all() and send_all_from_iterable() of one transport refuse under the same condition. Round 6: no loop on the way from the protocol to the wire pulls chunks with next(it, default) and stops on a falsy element (an empty chunk is not the end of the packet).",
    "note": "Assumptions (stated): a non-blocking send never returns 0 for a non-empty buffer (it raises EAGAIN, which the retry wrapper turns into a bounded wait - C11) and returns 0 for an all-empty offer; SC_IOV_MAX is at least the abstract list bound. Not decided: wall-clock termination, kernel behaviour, byte-for-byte equality on the wire.",
    "technique": "finite abstract interpretation of the loop bodies over the sign domain with a small relational refinement (strict-suffix facts from the branch conditions), def-use checks for the accounting, cardinality-on-paths for the hand-off",
}
NOT_DECIDED = ["wall-clock termination", "kernel / peer behaviour", "byte-for-byte equality of what reaches the wire"]

SYNC_ABC = "lowlevel.api_sync.transports.abc:StreamWriteTransport.send_all"
SYNC_SOCK = "lowlevel.api_sync.transports.socket:SocketStreamTransport.send_all_from_iterable"
TRIO_SOCK = "lowlevel.api_async.backend._trio.stream.socket:TrioStreamSocketAdapter.send_all_from_iterable"
TLS_WRITER = "lowlevel.api_async.transports.tls:AsyncTLSStreamTransport.__write_all_to_ssl_object"


# ------------------------------------------------------------------------------------------ stubs
def _offered_sign(v) -> str:
    if isinstance(v, Buf):
        return v.sign
    if isinstance(v, Dq):
        return P if any(b.sign == P for b in v.items) else Z
    return P


def stub_send(interp, e, st):
    """send(buffer[, timeout]) / write(buffer): '+' for a non-empty offer (possibly partial), 0 for an empty one."""
    res = []
    for v, s in interp.ev(e.args[0], st):
        res.append((_offered_sign(v), s))
    return res


def stub_retry(interp, e, st):
    """_retry(callback, timeout) -> (callback(), remaining timeout)"""
    cb = e.args[0]
    fake = ast.Call(func=cb, args=[], keywords=[])
    ast.copy_location(fake, e)
    return [(Tup((v, UNK)), s) for v, s in interp.call(fake, st)]


def stub_passthrough(interp, e, st):
    """deque(x) / map(memoryview, x) / list(x) / itertools.islice(x, n): the abstract sequence itself"""
    name = e.func.attr if isinstance(e.func, ast.Attribute) else e.func.id
    src = e.args[1] if name == "map" and len(e.args) > 1 else (e.args[0] if e.args else None)
    if src is None:
        return [(Dq(()), st)]
    res = []
    for v, s in interp.ev(src, st):
        if isinstance(v, Dq):
            res.append((v, s))
        else:
            res.append((UNK, s))
    return res


def stub_filter(interp, e, st):
    """filter(len / None / bool, x): drops the empty elements"""
    res = []
    for v, s in interp.ev(e.args[1], st):
        if isinstance(v, Dq):
            res.append((Dq(tuple(b for b in v.items if b.sign == P)), s))
        else:
            res.append((UNK, s))
    return res


def stub_super_return(interp, e, st):
    return [(UNK, st)]


STUBS = {
    "send": stub_send, "write": stub_send, "sendmsg": stub_send, "send_noblock": stub_send,
    "_retry": stub_retry,
    "deque": stub_passthrough, "map": stub_passthrough, "list": stub_passthrough, "islice": stub_passthrough, "tuple": stub_passthrough,
    "filter": stub_filter,
}


def _lists(max_len):
    out = []
    for n in range(0, max_len + 1):
        for combo in itertools.product((Z, P), repeat=n):
            out.append(Dq(tuple(Buf(s, f"b{i}") for i, s in enumerate(combo))))
    return out


def check_prog(eng, run):
    db = eng.db
    insts = []
    insts.append((db.fn(SYNC_ABC), [{"data": Buf(s, "d"), "timeout": P} for s in (Z, P)]))
    insts.append((db.fn(SYNC_SOCK), [{"iterable_of_data": dq, "timeout": P} for dq in _lists(3)]))
    trio = db.fn_opt(TRIO_SOCK)
    if trio is not None:
        insts.append((trio, [{"iterable_of_data": dq} for dq in _lists(3)]))
    tls = db.cls("lowlevel.api_async.transports.tls.AsyncTLSStreamTransport").methods.get("__write_all_to_ssl_object")
    if tls is None:
        raise AnalysisError("anchor vanished: AsyncTLSStreamTransport.__write_all_to_ssl_object")
    insts.append((tls, [{"write_backlog": dq} for dq in _lists(3)]))
    run.floor("C04.prog send loops", len(insts), 3)
    total_pre = 0
    for fn, pres in insts:
        loops = [n for n in own_nodes(fn.node) if isinstance(n, ast.While)]
        if not loops:
            raise AnalysisError(f"anchor vanished: send loop in {fn.qualname}")
        bad = []
        iters = 0
        for pre in pres:
            it = SignInterp(eng, fn, STUBS)
            st = State(env=dict(pre))
            it.block(fn.node.body, [st])
            iters += it.iterations
            for loop, s0 in it.no_progress:
                bad.append((loop, pre, s0))
        total_pre += len(pres)
        seen = set()
        for loop, pre, s0 in bad:
            desc = {k: _show(v) for k, v in s0.env.items() if isinstance(v, (Dq, Buf)) or v in (Z, P, N)}
            key = (norm_stmt(loop), tuple(sorted(desc.items())))
            if key in seen:
                continue
            seen.add(key)
            if len(seen) > 2:
                break
            lfn = fn
            if not (fn.lineno <= loop.lineno <= getattr(fn.node, "end_lineno", 10**9)):
                lfn = next((g for g in eng.db.all_functions() if not isinstance(g.node, ast.Lambda) and any(x is loop for x in own_nodes(g.node))), fn)
            run.finding("C04.prog", fn, norm_stmt(loop) if lfn is not fn else loop,
                        f"send loop makes no progress from abstract state {desc} (input {_show_pre(pre)}): it spins for ever without sending or consuming anything")
        run.ob("C04.prog", fn.short, not bad, abstract_inputs=len(pres), loop_iterations_explored=iters)
    run.counters["abstract_pre_states"] = total_pre


def _show(v):
    if isinstance(v, Dq):
        return "[" + ",".join(b.sign for b in v.items) + "]"
    if isinstance(v, Buf):
        return f"buf({v.sign})"
    return str(v)


def _show_pre(pre):
    return {k: _show(v) for k, v in pre.items()}


# ------------------------------------------------------------------------------------------ accounting
def _bound_from(fn, name, callee_names):
    """is `name` bound (possibly via tuple unpacking, first element) from a call of one of callee_names?"""
    for n in own_nodes(fn.node):
        if isinstance(n, (ast.Assign, ast.AnnAssign, ast.NamedExpr)) and getattr(n, "value", None) is not None:
            tg = n.targets if isinstance(n, ast.Assign) else [n.target]
            v = n.value.value if isinstance(n.value, ast.Await) else n.value
            if isinstance(v, ast.Subscript) and isinstance(v.slice, ast.Constant) and v.slice.value == 0:
                v = v.value  # `call(...)[0]`: first component of the (count, remaining timeout) pair
            for t in tg:
                first = t.elts[0] if isinstance(t, ast.Tuple) and t.elts else t
                if isinstance(first, ast.Name) and first.id == name and isinstance(v, ast.Call):
                    nm = v.func.attr if isinstance(v.func, ast.Attribute) else getattr(v.func, "id", "")
                    if nm in callee_names:
                        return True
    return False


def check_acct(eng, run):
    db = eng.db
    # send_all: total_sent += sent ; offered slice data[total_sent:] ; negative raises
    fn = db.fn(SYNC_ABC)
    loop = next(n for n in own_nodes(fn.node) if isinstance(n, ast.While))
    aug = [n for n in ast.walk(loop) if isinstance(n, ast.AugAssign) and isinstance(n.op, ast.Add)]
    # the counter: the name in the loop test (either side: `sent < total` / `total > sent`) that the loop body increments
    test_names = {x.id for x in ast.walk(loop.test) if isinstance(x, ast.Name)}
    counter = next((a_.target.id for a_ in aug if isinstance(a_.target, ast.Name) and a_.target.id in test_names), None)
    ok = False
    msg = "the sent-counter is not advanced by the count returned by send() of the same iteration"
    from sa.norm import nodes_inl, through_identity_helper
    for a in aug:
        v = through_identity_helper(fn, a.value)  # `total += _check(sent)`: a validating pass-through
        if isinstance(a.target, ast.Name) and a.target.id == counter and isinstance(v, ast.Name) and _bound_from(fn, v.id, {"send"}):
            ok = True
    slices = [n for n in ast.walk(loop) if isinstance(n, ast.Subscript) and isinstance(n.slice, ast.Slice)]
    ok_slice = any(isinstance(s.slice.lower, ast.Name) and s.slice.lower.id == counter and s.slice.upper is None for s in slices)
    def rejects_negative(n):
        return isinstance(n, ast.If) and isinstance(n.test, ast.Compare) and isinstance(n.test.ops[0], ast.Lt) and any(isinstance(r, ast.Raise) for r in n.body)

    helpers = {o for c in ast.walk(loop) if isinstance(c, ast.Call) for n, o in nodes_inl(fn) if o is not fn and (dotted(c.func) or "").split(".")[-1] == o.name}
    neg = any(rejects_negative(n) for n in ast.walk(loop)) or any(rejects_negative(n) for h in helpers for n in own_nodes(h.node))
    if not ok:
        run.finding("C04.acct", fn, aug[0] if aug else loop, msg + ": bytes would be skipped or sent twice")
    if not ok_slice:
        run.finding("C04.acct", fn, loop, "the next offered slice does not start at the accumulated count")
    if not neg:
        run.finding("C04.acct", fn, loop, "a negative count returned by send() is no longer rejected")
    run.ob("C04.acct", fn.short, ok and ok_slice and neg)
    # sendmsg loops: adjust_leftover_buffer(buffers, sent) with sent from the send primitive of the same iteration
    for q in (SYNC_SOCK, TRIO_SOCK):
        f = db.fn_opt(q)
        if f is None:
            continue
        loop = next((n for n in own_nodes(f.node) if isinstance(n, ast.While)), None)
        calls = [n for n in ast.walk(loop) if isinstance(n, ast.Call) and (dotted(n.func) or "").endswith("adjust_leftover_buffer")] if loop else []
        ok = bool(calls)
        for c in calls:
            a = c.args[1] if len(c.args) > 1 else None
            if not (isinstance(a, ast.Name) and _bound_from(f, a.id, {"_retry", "sendmsg"})):
                ok = False
            if not (isinstance(c.args[0], ast.Name) and isinstance(loop.test, ast.Name) and c.args[0].id == loop.test.id):
                ok = False
        if not ok:
            run.finding("C04.acct", f, calls[0] if calls else (loop or f.node), "the buffer queue is not advanced by exactly the count returned by sendmsg() of the same iteration: bytes would be dropped or duplicated")
        run.ob("C04.acct", f.short, ok)
    # helper: adjust_leftover_buffer consumes exactly nbytes
    adj = db.fn("lowlevel._utils:adjust_leftover_buffer")
    src = ast.unparse(adj.node)
    ok = "popleft" in src and "appendleft" in src and any(isinstance(n, ast.Subscript) and isinstance(n.slice, ast.Slice) and isinstance(n.slice.lower, ast.Name) and n.slice.lower.id == adj.params()[1].arg and n.slice.upper is None for n in own_nodes(adj.node)) \
        and any(isinstance(n, ast.AugAssign) and isinstance(n.op, ast.Sub) and isinstance(n.target, ast.Name) and n.target.id == adj.params()[1].arg for n in own_nodes(adj.node))
    if not ok:
        run.finding("C04.acct", adj, adj.node, "adjust_leftover_buffer no longer consumes exactly nbytes from the head of the queue (pop whole buffers, re-queue the unsent suffix `b[nbytes:]`)")
    run.ob("C04.acct", adj.short, ok)
    # TLS backlog writer: head replaced by data[sent:] on a short write, removed otherwise
    tls = db.cls("lowlevel.api_async.transports.tls.AsyncTLSStreamTransport").methods["__write_all_to_ssl_object"]
    loop = next(n for n in own_nodes(tls.node) if isinstance(n, ast.While))
    from sa.norm import cmp_canon
    ifs = []
    ok = False
    for i in [n for n in ast.walk(loop) if isinstance(n, ast.If)]:
        c = cmp_canon(tls, i.test)
        if c is None:
            continue
        d, op = c
        sent = next((k for k in d if k and not k.startswith("len(") and _bound_from(tls, k, {"write"})), None)
        length = next((k for k in d if k.startswith("len(")), None)
        if sent is None or length is None or len([k for k in d if k]) != 2 or d.get("", 0) != 0:
            continue
        ifs.append(i)
        # which arm is the short write (sent < len(data))?  `sent < len` == (len - sent > 0) ; `sent >= len` is its complement
        from sa.norm import if_arms
        then_arm, else_arm = if_arms(loop, i)
        if op == ">" and d[sent] == -1 and d[length] == 1:
            short, full = then_arm, else_arm
        elif op == ">=" and d[sent] == 1 and d[length] == -1:
            short, full = else_arm, then_arm
        else:
            continue
        keeps = any(isinstance(s_, ast.Assign) and isinstance(s_.value, ast.Subscript) and isinstance(s_.value.slice, ast.Slice) and isinstance(s_.value.slice.lower, ast.Name)
                    and s_.value.slice.lower.id == sent and s_.value.slice.upper is None for s_ in short)
        drops = any(isinstance(s_, ast.Delete) or (isinstance(s_, ast.Expr) and "popleft" in ast.unparse(s_)) for s_ in full)
        ok = ok or (keeps and drops)
    if not ok:
        run.finding("C04.acct", tls, ifs[0] if ifs else loop, "the TLS backlog is not advanced by exactly the count returned by ssl_object.write(): `sent < len(data)` must keep data[sent:], otherwise the chunk is removed")
    run.ob("C04.acct", tls.short, ok)


def check_once(eng, run):
    """the producer's generator is handed to exactly one transport call on every path, outside any loop"""
    from rules.c05 import Card
    from sa.flow import Interp

    db = eng.db
    insts = [
        db.module("lowlevel.api_sync.endpoints.stream").classes["_DataSenderImpl"].methods["send"],
        db.module("lowlevel.api_async.endpoints.stream").classes["_DataSenderImpl"].methods["send"],
        db.cls("lowlevel.api_async.servers.stream.ConnectedStreamClient").methods["send_packet"],
    ]
    for fn in insts:
        an = Card(eng, {"generate"}, {"send_all_from_iterable"})
        out = Interp(an, fn).run()
        bad = [f for f in out.ret if f != (1, 1)] or an.loop_sites
        from sa.analyses.buffers import through_local
        # the generator object reaches the transport call itself - written inline or bound to a single-use local first
        nested = False
        for n in own_nodes(fn.node):
            if isinstance(n, ast.Call) and (n.func.attr if isinstance(n.func, ast.Attribute) else "") == "send_all_from_iterable" and n.args:
                a0 = through_local(fn, n.args[0])
                if isinstance(a0, ast.Call) and (a0.func.attr if isinstance(a0.func, ast.Attribute) else "") == "generate":
                    uses = sum(1 for x in own_nodes(fn.node) if isinstance(n.args[0], ast.Name) and isinstance(x, ast.Name) and x.id == n.args[0].id and isinstance(x.ctx, ast.Load))
                    nested = not isinstance(n.args[0], ast.Name) or uses == 1
        if bad or not nested:
            run.finding("C04.once", fn, fn.node, "the packet's chunks are not handed to exactly one transport call (producer.generate(packet) passed once to send_all_from_iterable): the packet would be sent twice, partially or not at all")
        run.ob("C04.once", fn.module.name.split(".")[-3] + "." + fn.short, not bad and nested)
    for q in ("lowlevel.api_sync.transports.abc:StreamWriteTransport.send_all_from_iterable", "lowlevel.api_async.transports.abc:AsyncStreamWriteTransport.send_all_from_iterable"):
        fn = db.fn(q)
        calls = [n for n in own_nodes(fn.node) if isinstance(n, ast.Call) and isinstance(n.func, ast.Attribute) and n.func.attr == "send_all"]
        joins = [n for n in own_nodes(fn.node) if isinstance(n, ast.Call) and isinstance(n.func, ast.Attribute) and n.func.attr == "join"]
        ok = len(calls) == 1 and len(joins) == 1 and not any(isinstance(n, (ast.For, ast.While)) for n in own_nodes(fn.node))
        if not ok:
            run.finding("C04.once", fn, fn.node, "the default send_all_from_iterable no longer joins the chunks and calls send_all exactly once")
        run.ob("C04.once", fn.module.name.split(".")[-3] + "." + fn.short, ok)


from sa.report import RuleAlias as _As  # noqa: E402


def check_wait(eng, run):
    """never blocks for ever / fails within its budget: the selector wait of the retry wrapper, the time budget threading of the
    blocking send path, and the lock discipline + backlog drain of the async TLS writer (machinery shared with C11 and C08)."""
    from rules import c08, c11
    from sa.analyses.budget import Budget

    retry, cap_ok, unbounded = c11.retry_wait_shape(eng)
    if not cap_ok:
        run.finding("C04.wait", retry, retry.node, "the selector wait is no longer min(remaining budget, retry interval): send_packet overshoots its time budget")
    for c, g in unbounded:
        if not g:
            run.finding("C04.wait", retry, c, "selector.select() without a timeout is not confined to the arm where the computed wait is infinite: a would-block send whose readiness event "
                        "never comes (TLS want-read) blocks for ever instead of being retried after retry_interval")
    run.ob("C04.wait", f"{retry.short}:bounded-select", cap_ok and all(g for _, g in unbounded), unbounded_selects=len(unbounded))
    n = 0
    for fn, var in c11.budget_functions(eng):
        if not (fn.name in ("_retry", "lock_with_timeout") or "send" in fn.name):
            continue
        an = Budget(eng, var)
        Interp(an, fn).run()
        if not an.blocking_sites:
            continue
        n += 1
        seen = set()
        for rule, node, msg in an.viol:
            st = c11._stmt_at(fn, getattr(node, "lineno", fn.lineno))
            if norm_stmt(st) in seen:
                continue
            seen.add(norm_stmt(st))
            run.finding("C04.wait", fn, st, msg)
        run.ob("C04.wait", f"{fn.module.name.split('easynetwork.')[1]}:{fn.short}:budget-threaded", not an.viol, budget=var, blocking_sites=len(an.blocking_sites))
    run.floor("C04.wait send-path functions with a budget and a blocking call", n, 8)
    c08.check_locks(eng, _As(run, "C04.tls"))
    c08.check_drain(eng, _As(run, "C04.tls"))
    # asyncio adapter: every transport write is followed by the awaited drain (also the only place where a write that failed inside
    # the event loop is reported to the sender) - rule of C20
    from rules import c20
    c20.check_drain(eng, _As(run, "C04.drain"))
    c20.check_wake(eng, _As(run, "C04.drain"))  # never hangs on a dead connection: the write flow control wakes / fails every suspended sender


LOSSY_ITER = {"zip": "truncates to the shortest input", "islice": "takes a prefix", "takewhile": "stops at the first falsy element", "dropwhile": "drops a prefix",
              "set": "drops duplicates and order", "frozenset": "drops duplicates and order", "compress": "drops elements"}


def check_iterable_consumed(eng, run):
    """every chunk of the iterable handed to a `send_all_from_iterable`-style function is consumed: the iterable (or an iterator made
    from it) only meets whole-sequence consumers; a `next(it, <default>)` whose result decides by *truthiness* whether the rest is
    read confuses an empty chunk with exhaustion and drops everything behind it; prefix / truncating adaptors are lossy"""
    n = 0
    for fn in eng.db.all_functions():
        if isinstance(fn.node, ast.Lambda):
            continue
        params = [a.arg for a in fn.params() if a.arg.startswith("iterable_of_")]
        if not params or not fn.module.name.startswith("easynetwork.lowlevel"):
            continue
        nodes = list(own_nodes(fn.node))
        alias = set(params)
        for _ in range(2):
            for st in nodes:
                if isinstance(st, (ast.Assign, ast.AnnAssign)) and st.value is not None:
                    v = st.value
                    src_names = {x.id for x in ast.walk(v) if isinstance(x, ast.Name)}
                    if isinstance(v, ast.Call) and (dotted(v.func) or "").split(".")[-1] in ("iter", "map", "filter", "chain", "from_iterable") and src_names & alias:
                        for t in (st.targets if isinstance(st, ast.Assign) else [st.target]):
                            if isinstance(t, ast.Name):
                                alias.add(t.id)
        uses = [c for c in nodes if isinstance(c, ast.Call) and any(isinstance(a, ast.Name) and a.id in alias for a in c.args)]
        if not uses and not any(isinstance(x, ast.For) and isinstance(x.iter, ast.Name) and x.iter.id in alias for x in nodes):
            continue
        n += 1
        probs = []
        for c in uses:
            nm = (dotted(c.func) or "").split(".")[-1]
            if nm in LOSSY_ITER:
                probs.append((c, f"`{nm}()` {LOSSY_ITER[nm]}"))
            if nm == "next" and len(c.args) == 2:
                # which name receives the result, and is it tested by truthiness?
                tgt = None
                for st in nodes:
                    if isinstance(st, ast.NamedExpr) and st.value is c:
                        tgt = st.target.id
                    if isinstance(st, (ast.Assign, ast.AnnAssign)) and st.value is c:
                        t0 = (st.targets if isinstance(st, ast.Assign) else [st.target])[0]
                        tgt = t0.id if isinstance(t0, ast.Name) else None

                def truthy(t):
                    while isinstance(t, ast.UnaryOp) and isinstance(t.op, ast.Not):
                        t = t.operand
                    if isinstance(t, ast.BoolOp):
                        return any(truthy(v) for v in t.values)
                    if isinstance(t, ast.NamedExpr):
                        return t.value is c
                    return isinstance(t, ast.Name) and t.id == tgt and tgt is not None

                tests = [x.test for x in nodes if isinstance(x, (ast.If, ast.While, ast.IfExp))]
                if any(truthy(t) for t in tests):
                    probs.append((c, "the result of `next(it, default)` is tested by truthiness: an empty chunk is taken for the end of the iterable"))
        for c, why in probs[:1]:
            run.finding("C04.acct", fn, _stmt_of(fn, c), f"{why}: the chunks behind it never reach the wire although the call reports success")
        run.ob("C04.acct", f"{fn.module.name.split('.')[-2]}.{fn.short}:every-chunk-consumed", not probs, uses=len(uses))
    run.floor("C04.acct functions consuming an iterable of chunks", n, 4)
    # the same confusion anywhere on the way from the protocol to the wire: a loop that pulls chunks with `next(it, <default>)` and
    # stops on a *falsy* result (`while chunk := next(chunks, None):`) ends at the first empty chunk
    m = 0
    for fn in eng.db.all_functions():
        if isinstance(fn.node, ast.Lambda) or not fn.module.name.startswith(("easynetwork.lowlevel", "easynetwork.protocol", "easynetwork.serializers.abc", "easynetwork.clients")):
            continue
        for w in own_nodes(fn.node):
            if not isinstance(w, ast.While):
                continue
            t = w.test
            while isinstance(t, ast.UnaryOp) and isinstance(t.op, ast.Not):
                t = t.operand
            leaves = t.values if isinstance(t, ast.BoolOp) else [t]
            for lf in leaves:
                if isinstance(lf, ast.NamedExpr) and isinstance(lf.value, ast.Call) and (dotted(lf.value.func) or "") == "next" and len(lf.value.args) == 2:
                    m += 1
                    run.finding("C04.acct", fn, w, f"`{ast.unparse(w.test)[:60]}` ends the loop on a falsy element: an empty chunk produced in the middle of a packet is taken for the end of "
                                "the chunk iterator and everything behind it is never sent, although the send reports success")
    run.ob("C04.acct", "no-truthiness-terminated-chunk-loops", m == 0)


def _stmt_of(fn, node):
    best = None
    for x in own_nodes(fn.node):
        if isinstance(x, ast.stmt) and any(y is node for y in ast.walk(x)):
            if best is None or (x.lineno >= best.lineno and not isinstance(x, (ast.If, ast.With, ast.AsyncWith, ast.Try, ast.For, ast.While))):
                best = x
    return best if best is not None else fn.node


def check_latch_after_operation(eng, run):
    """a latch that makes later sends refuse (`__eof_sent`) is stored only on paths on which the operation it records has completed:
    set before `await transport.send_eof()`, a transport that refuses or fails to half-close leaves a fully open connection on which
    send_packet() raises and transmits nothing"""
    from sa.analyses.base import RuleAnalysis
    n = 0
    for fn in eng.db.all_functions():
        if isinstance(fn.node, ast.Lambda) or fn.name != "send_eof" or ".endpoints." not in fn.module.name:
            continue
        stores = [x for x in own_nodes(fn.node) if isinstance(x, ast.Assign) and isinstance(x.value, ast.Constant) and x.value.value is True
                  and any(isinstance(t, ast.Attribute) and "eof" in t.attr.lower() for t in x.targets)]
        if not stores:
            continue
        n += 1

        class After(RuleAnalysis):
            tokens = ("Exception",)

            def __init__(self, e):
                super().__init__(e)
                self.viol = []

            def initial(self, f):
                return [False]

            def may_raise(self, node, fact):
                return []

            def transfer(self, node, fact):
                c = call_of(node)
                if c is not None and isinstance(c.func, ast.Attribute) and c.func.attr == "send_eof":
                    return [True]
                if node in stores and not fact and node not in self.viol:
                    self.viol.append(node)
                return [fact]

        an = After(eng)
        Interp(an, fn).run()
        for v in an.viol[:1]:
            run.finding("C04.once", fn, v, "the end-of-stream latch is set before the transport's send_eof() has completed: when the transport refuses or fails to half-close, the endpoint "
                        "still refuses every later send_packet() on a fully open connection (RuntimeError instead of the transmission)")
        run.ob("C04.once", f"{fn.module.name.split('.')[-3]}.{fn.short}:latch-set-after-send_eof", not an.viol, stores=len(stores))
    run.floor("C04.once endpoints recording a sent EOF", n, 2)


def check_drain_unconditional(eng, run):
    """`writer_drain()` of the asyncio protocols awaits the flow control's drain() on every path: drain() is also where a lost connection
    is reported to the writer (asyncio's write() silently discards data after the loss), so a fast path that skips it when writing is
    not paused makes a send on a dead connection return normally"""
    from sa.analyses.must import exits_without
    n = 0
    for fn in eng.db.all_functions():
        if isinstance(fn.node, ast.Lambda) or fn.name != "writer_drain" or "_asyncio" not in fn.module.name:
            continue
        n += 1
        bad, sites = exits_without(eng, fn, lambda x: isinstance(x, ast.Await) and isinstance(x.value, ast.Call) and isinstance(x.value.func, ast.Attribute) and x.value.func.attr == "drain",
                                   raising=lambda x: False, kinds=("ret",))
        for label, tr in bad[:1]:
            run.finding("C04.drain", fn, _stmt_of(fn, fn.node) if not tr else fn.node, "writer_drain() can return without awaiting the flow control's drain(): the lost-connection check and the backpressure wait are skipped "
                        "- a send on a dead connection returns normally although nothing was transmitted")
        run.ob("C04.drain", f"{fn.module.name.split('.')[-2]}.{fn.short}:always-awaits-drain", not bad, drain_sites=sites)
    run.floor("C04.drain writer_drain() implementations", n, 2)


def check_sibling_guards(eng, run):
    """send_all() and send_all_from_iterable() of one transport refuse under the same condition: the closing guard that opens both
    methods reads the same flag (one of them testing 'close finished' while the other tests 'close started' lets a packet into the
    SSL object while the closing handshake is in progress)"""
    n = 0
    for ci in eng.db.classes.values():
        a, b = ci.methods.get("send_all"), ci.methods.get("send_all_from_iterable")
        if a is None or b is None or isinstance(a.node, ast.Lambda) or isinstance(b.node, ast.Lambda):
            continue

        def guard(fn, depth=0):
            body = [st for st in fn.node.body if not (isinstance(st, ast.Expr) and isinstance(st.value, ast.Constant)) and not isinstance(st, ast.Assert)]
            if body and isinstance(body[0], ast.If) and any(isinstance(r, ast.Raise) for r in body[0].body):
                return ast.unparse(body[0].test)
            # the guard factored into a private helper shared by both entry points: `self.__ensure_not_closing()`
            if body and isinstance(body[0], ast.Expr) and isinstance(body[0].value, ast.Call) and depth < 2:
                from sa.norm import private_helper
                h = private_helper(fn, body[0].value)
                if h is not None and not h.is_async and not body[0].value.args and not body[0].value.keywords:
                    return guard(h, depth + 1)
            return None

        ga, gb = guard(a), guard(b)
        if ga is None and gb is None:
            continue
        n += 1
        ok = ga == gb
        if not ok:
            run.finding("C04.once", b, b.node.body[0], f"send_all() refuses under `{ga}` but send_all_from_iterable() under `{gb}`: the two entry points of one transport disagree on when the transport "
                        "no longer accepts data")
        run.ob("C04.once", f"{ci.name}:send_all~send_all_from_iterable:same-guard", ok, guard=ga)
    run.floor("C04.once transports with guarded send entry points", n, 1)


def run(eng, run):
    from sa.anchors import verify as _verify_anchor_names
    _verify_anchor_names(eng, run)
    run.not_decided += NOT_DECIDED
    run.attempt(check_iterable_consumed, eng, run)
    run.attempt(check_latch_after_operation, eng, run)
    run.attempt(check_drain_unconditional, eng, run)
    run.attempt(check_sibling_guards, eng, run)
    run.assumptions += ["a non-blocking send returns a positive count for a non-empty offer (EAGAIN is raised otherwise and handled by the retry wrapper) and 0 for an all-empty offer",
                        "SC_IOV_MAX >= 3 (the abstract list bound)"]
    run.attempt(check_prog, eng, run)
    run.attempt(check_acct, eng, run)
    run.attempt(check_once, eng, run)
    run.attempt(check_wait, eng, run)
    run.end_of_rules()


# ---------------------------------------------------------------------------------------------- self-test corpus
from sa.mutate import (Variant, delete_stmt, find_stmt, insert_after, insert_before, rename_local, replace_expr, replace_stmt,  # noqa: E402
                       stmt_has, stmt_is)

_ABC = SYNC_ABC
_SOCK = SYNC_SOCK
_ADJ = "lowlevel._utils:adjust_leftover_buffer"
_TLSW = TLS_WRITER
_SND = "lowlevel.api_sync.endpoints.stream:_DataSenderImpl.send"

MUTANTS = [
    Variant("sendmsg-keep-empty-chunks", _SOCK, lambda fn: replace_expr(fn, "deque(filter(len, map(memoryview, iterable_of_data)))", "deque(map(memoryview, iterable_of_data))"),
            "C04.prog", why="regression of the F2 fix: a trailing empty chunk spins for ever"),
    Variant("send-all-counter-plus-one", _ABC, lambda fn: replace_stmt(fn, stmt_is("total_sent += sent"), "total_sent += 1"), "C04.acct",
            why="bytes re-sent: the offered slice advances by 1 instead of the accepted count"),
    Variant("adjust-called-with-sent-minus-one", _SOCK, lambda fn: replace_expr(fn, "_utils.adjust_leftover_buffer(buffers, sent)", "_utils.adjust_leftover_buffer(buffers, sent - 1)"), "C04.acct"),
    Variant("tls-short-write-le", _TLSW, lambda fn: replace_expr(fn, "sent < len(data)", "sent <= len(data)"), "C04",
            why="a fully written chunk is replaced by its empty suffix and never removed"),
    Variant("tls-pop-before-write", _TLSW,
            lambda fn: replace_stmt(fn, stmt_is("if sent < len(data)"), "del write_backlog[0]\nif sent < len(data):\n    write_backlog.appendleft(data[sent + 1:])"), "C04.acct",
            why="off-by-one suffix re-queued"),
    Variant("adjust-no-requeue", _ADJ, lambda fn: replace_stmt(fn, stmt_has("buffers.appendleft(b[nbytes:])"), "pass"), "C04.acct",
            why="the unsent suffix of a partially sent buffer is dropped"),
    Variant("sender-sends-twice", _SND,
            lambda fn: replace_stmt(fn, stmt_is("return self.transport.send_all_from_iterable"), "self.transport.send_all_from_iterable(self.producer.generate(packet), timeout)\nreturn self.transport.send_all_from_iterable(self.producer.generate(packet), timeout)"),
            "C04.once"),
    Variant("send-all-zero-progress", _ABC, lambda fn: replace_stmt(fn, stmt_is("total_sent += sent"), "total_sent += sent * 0"), "C04", why="the counter never grows"),
]

BENIGN = [
    Variant("sendmsg-filter-none", _SOCK, lambda fn: replace_expr(fn, "filter(len, map(memoryview, iterable_of_data))", "filter(None, map(memoryview, iterable_of_data))"), why="filter(None, ...) drops empty views as well"),
    Variant("send-all-rename-counter", _ABC, lambda fn: rename_local(fn, "total_sent", "offset"), why="local renamed"),
    Variant("adjust-rename", _ADJ, lambda fn: rename_local(fn, "b_len", "size"), why="local renamed"),
]

_RETRY = "lowlevel.api_sync.transports.base_selector:SelectorBaseTransport._retry"
_LWT = "lowlevel._utils:lock_with_timeout"
_TLSR = "lowlevel.api_async.transports.tls:AsyncTLSStreamTransport._retry_ssl_method"
_TLSF = "lowlevel.api_async.transports.tls:AsyncTLSStreamTransport.__flush_data_to_send"


def _nest_tls_locks(fn):
    from sa.mutate import find_handler
    h = find_handler(fn, "_ssl_module.SSLWantReadError")
    inner = next(t for t in h.body if isinstance(t, ast.Try))
    first, second = inner.body
    if isinstance(first, ast.If):  # `if self._write_bio.pending:` around the flush (since the F10 fix): the mutant takes the lock unconditionally
        first = first.body[0]
    first.body.append(second)
    inner.body = [first]


MUTANTS += [
    Variant("retry-unbounded-select-on-infinite-budget", _RETRY, lambda fn: replace_expr(fn, "wait_time == math.inf", "timeout == math.inf"), "C04.wait",
            why="timeout=None with a finite retry interval: select() never wakes up to retry a TLS want-read write (seed C04-4)"),
    Variant("lock-wait-not-charged-to-the-send-budget", _LWT, lambda fn: delete_stmt(fn, stmt_is("timeout = elapsed.recompute_timeout(timeout)")), "C04.wait",
            why="a contended send_packet(timeout=T) fails after lock wait + T (seed C04-5)"),
    Variant("tls-read-under-send-lock", _TLSR, _nest_tls_locks, "C04.tls", why="a task parked in recv blocks every sender for ever (seed C04-6)"),
    Variant("tls-flush-skipped-when-busy", _TLSF, lambda fn: insert_before(fn, stmt_has("try:"), "if self.__transport_send_lock.locked():\n    return"), "C04.tls",
            why="send_all returns with un-encrypted bytes still queued"),
]
BENIGN += [
    Variant("retry-wait-is-min", _RETRY, lambda fn: replace_stmt(fn, stmt_has("if timeout <= retry_interval:"),
                                                                "is_retry_interval = not (timeout <= retry_interval)\nwait_time = min(timeout, retry_interval)"),
            why="same wait computed with min()"),
]
