"""C09 - TLS truncation is never reported as a clean end-of-stream (DESIGN.md section 3, C09)."""
from __future__ import annotations

import ast

from sa.analyses.base import RuleAnalysis
from sa.db import AnalysisError, ClassInfo, FunctionInfo, dotted, mangle, norm_stmt, own_nodes
from sa.exc import CANCELLED
from sa.flow import Interp, call_of

CLAIM = {
    "text": "Decides the library-level mapping from ssl outcomes to end-of-stream / error and the close-notify call discipline, for both TLS transports and both TCP clients: in every TLS read method an empty result (b'' / 0) is returned only from a handler entered with SSLZeroReturnError, or from an SSLError handler on a path that passed both is_ssl_eof_error(exc) and `not standard_compatible` - never from outside a handler, never from a broader handler, and every other path out of an SSLError handler re-raises; the blocking transport passes suppress_ragged_eofs = not standard_compatible where the operand is the constructor parameter; closing performs unwrap() exactly under (standard_compatible and transport still open) - no extra condition can skip the close_notify - and never when standard-compatible mode is off; the default client contexts clear OP_IGNORE_UNEXPECTED_EOF before they reach the transport and caller-supplied contexts are never touched; the clients map an SSL EOF error to ECONNABORTED (an error), the synchronous and asynchronous siblings agree. Also decided: (dflt) every entry point with a defaulted standard_compatible parameter defaults to True, or resolves None to True (and nothing else) before use, or hands None unchanged to the callee that does; (notify) the alert produced by unwrap() reaches the peer through the retry loop's flush discipline - flushed before waiting for the peer and after success, under the send lock only (rules of C08); (arms) no mapping arm is shadowed. The default contexts are hardened on every path through the default-context branch (no nested condition), and every store to an SSLContext attribute targets a context created in the same function; OP_IGNORE_UNEXPECTED_EOF is never switched on. Round 5: `self.is_closing()` on the way to unwrap() counts as an extra condition; a stapled transport is closing only when both halves are; the server-side request receivers treat an error as a disconnection only when a filter was given and accepts it. Round 6: the blocking TLS transport calls / hands on SSLSocket.shutdown() and unwrap() only from close() and private methods referenced from close() alone (the SSL layer is never dropped on a read path).",
    "note": "Trusted: OpenSSL / the ssl module raise SSLZeroReturnError only after the peer's close_notify and SSLEOFError (or the UNEXPECTED_EOF strerror) on a truncated stream. Not decided: what OpenSSL reports for a given cut.",
    "technique": "guarded-return typestate by abstract interpretation with an exception-class lattice (handler token + branch facts), configuration-flow and must-pass-through shape checks, sibling comparison",
}
NOT_DECIDED = ["what OpenSSL reports for a given cut position (trusted)", "that the peer receives our close_notify (network)"]

ZR = "ssl.SSLZeroReturnError"
EOFE = "ssl.SSLEOFError"
SSLE = "ssl.SSLError"


def _stmt_at(fn, line):
    best = None
    for n in own_nodes(fn.node):
        if isinstance(n, ast.stmt) and getattr(n, "lineno", -1) == line:
            if best is None or not isinstance(n, (ast.Try, ast.With, ast.AsyncWith, ast.For, ast.If, ast.While)):
                best = n
    return best if best is not None else fn.node


def _cname(c):
    return (c.func.attr if isinstance(c.func, ast.Attribute) else getattr(c.func, "id", "")) if c is not None else ""


class EofMap(RuleAnalysis):
    tokens = (ZR, EOFE, SSLE, "OSError", CANCELLED)

    def __init__(self, engine):
        super().__init__(engine)
        self.viol = []
        self.empty_returns = []
        self.io_sites = []

    def initial(self, fn):
        return [frozenset()]

    def may_raise(self, node, fact):
        c = call_of(node)
        if c is not None and _cname(c) in ("_retry_ssl_method", "_try_ssl_method", "_retry"):
            if node not in self.io_sites:
                self.io_sites.append(node)
            return [t for t in self.tokens if t != CANCELLED or isinstance(node, ast.Await)]
        return []

    def handler_entry(self, handler, token, fact):
        return [frozenset(x for x in fact if not x.startswith("h:")) | {f"h:{token}"}]

    def _empty(self, v) -> bool:
        return isinstance(v, ast.Constant) and v.value in (b"", 0) and not isinstance(v.value, bool)

    def transfer(self, node, fact):
        if isinstance(node, ast.Return) and self._empty(node.value):
            if node not in self.empty_returns:
                self.empty_returns.append(node)
            h = next((x[2:] for x in fact if x.startswith("h:")), None)
            ok = h == ZR or (h in (EOFE, SSLE) and "eof" in fact and "nsc" in fact)
            if not ok:
                where = f"in a handler entered with {h.split('.')[-1]}" if h else "outside any ssl error handler"
                self.viol.append((node, f"an empty result (clean end-of-stream) is returned {where}{'' if not h else ' without both is_ssl_eof_error(exc) and `not standard_compatible`'}: a truncated TLS stream would be reported as a clean EOF"))
        return [fact]

    def branch(self, test, fact):
        t = test
        neg = False
        while isinstance(t, ast.UnaryOp) and isinstance(t.op, ast.Not):
            neg = not neg
            t = t.operand
        if isinstance(t, ast.Call) and _cname(t) == "is_ssl_eof_error":
            tr, fl = [fact | {"eof"}], [fact]
            return (fl, tr) if neg else (tr, fl)
        d = dotted(t)
        if d is not None and d.endswith("standard_compatible"):
            # truthy: standard compatible
            tr, fl = [fact | {"sc"}], [fact | {"nsc"}]
            return (fl, tr) if neg else (tr, fl)
        return [fact], [fact]


def check_map(eng, run):
    db = eng.db
    insts = []
    a = db.cls("lowlevel.api_async.transports.tls.AsyncTLSStreamTransport")
    s = db.cls("lowlevel.api_sync.transports.socket.SSLStreamTransport")
    for ci, names in ((a, ("recv", "recv_into")), (s, ("recv_noblock", "recv_noblock_into"))):
        for n in names:
            f = ci.methods.get(n)
            if f is None:
                raise AnalysisError(f"anchor vanished: {ci.name}.{n}")
            insts.append(f)
    facts = {}
    for fn in insts:
        an = EofMap(eng)
        out = Interp(an, fn).run()
        if not an.io_sites:
            raise AnalysisError(f"anchor vanished: ssl I/O call in {fn.qualname}")
        seen = set()
        for node, msg in an.viol:
            if norm_stmt(node) + msg in seen:
                continue
            seen.add(norm_stmt(node) + msg)
            run.finding("C09.map", fn, node, msg)
        # an SSLError handler path that neither re-raises nor returns empty under the two conditions = falls through
        falls = [tr for f, tr in out.ret.items() if any(x in (f"h:{EOFE}", f"h:{SSLE}") for x in f) and not ("eof" in f and "nsc" in f)]
        run.ob("C09.map", f"{fn.cls.name}.{fn.name}", not an.viol, empty_returns=len(an.empty_returns), paths=len(out.ret) + sum(len(m) for m in out.exc.values()))
        escaping = sorted(t.split(".")[-1] for t, m in out.exc.items() if m)
        facts[fn] = (len(an.empty_returns) > 0, tuple(escaping))
    # sibling agreement recv <-> recv_into
    for x, y in ((insts[0], insts[1]), (insts[2], insts[3])):
        same = facts[x] == facts[y]
        if not same:
            run.finding("C09.map", y, y.node, f"{x.name}() and {y.name}() disagree on which ssl outcomes are an end-of-stream and which propagate: {facts[x]} vs {facts[y]}")
        run.ob("C09.map", f"{x.cls.name}:{x.name}~{y.name}", same, escaping=list(facts[x][1]))


def check_ragged(eng, run):
    fn = eng.db.fn("lowlevel.api_sync.transports.socket:SSLStreamTransport.__init__")
    call = next((n for n in own_nodes(fn.node) if isinstance(n, ast.Call) and _cname(n) == "wrap_socket"), None)
    if call is None:
        raise AnalysisError("anchor vanished: wrap_socket() in SSLStreamTransport.__init__")
    kw = next((k.value for k in call.keywords if k.arg == "suppress_ragged_eofs"), None)
    from sa.analyses.buffers import through_local
    kw = through_local(fn, kw)  # `suppress = not standard_compatible; wrap_socket(..., suppress_ragged_eofs=suppress)`
    ok = isinstance(kw, ast.UnaryOp) and isinstance(kw.op, ast.Not) and isinstance(kw.operand, ast.Name)
    if ok:
        name = kw.operand.id
        # reaching definitions of `name`: the parameter, possibly through bool(name)
        defs = [n for n in own_nodes(fn.node) if isinstance(n, ast.Assign) and any(isinstance(t, ast.Name) and t.id == name for t in n.targets)]
        ok = any(a.arg == name for a in fn.params()) and all(isinstance(d.value, ast.Call) and _cname(d.value) == "bool" and d.value.args and dotted(d.value.args[0]) == name for d in defs)
    if not ok:
        run.finding("C09.ragged", fn, call, "wrap_socket(suppress_ragged_eofs=...) is no longer `not standard_compatible` of the constructor parameter: in standard-compatible mode the ssl module would turn a truncated stream into a clean EOF")
    run.ob("C09.ragged", fn.short, ok)
    # the same parameter feeds close() and the extra attributes
    stores = [n for n in own_nodes(fn.node) if isinstance(n, (ast.Assign, ast.AnnAssign)) and (dotted(n.targets[0] if isinstance(n, ast.Assign) else n.target) or "").endswith("__standard_compatible")]
    ok2 = bool(stores) and all(dotted(s.value) == (kw.operand.id if ok else "standard_compatible") for s in stores)
    if not ok2:
        run.finding("C09.ragged", fn, stores[0] if stores else fn.node, "the stored standard_compatible flag is not the constructor parameter that configured the ssl socket")
    run.ob("C09.ragged", f"{fn.short}:stored-flag", ok2)


def _conjuncts(test):
    if isinstance(test, ast.BoolOp) and isinstance(test.op, ast.And):
        return [ast.unparse(v) for v in test.values]
    return [ast.unparse(test)]


class NotifyPath(RuleAnalysis):
    """path conditions on the way to the closing handshake.  fact = frozenset of literals: '+std' / '-std' (standard-compatible mode),
    '+open' / '-open' (the wrapped transport / socket is still open), '+own' / '-own' (the object's own closing flag: idempotence
    guard), '+?<text>' / '-?<text>' (any other condition), 'unwrapped'.  Private helpers are interpreted in place, negations and
    guard clauses are normalised by the engine."""
    tokens = ("OSError", "Exception", CANCELLED)
    inline_helpers = True

    def __init__(self, engine, closers):
        super().__init__(engine)
        self.closers = closers
        self.unwrap_sites = []
        self.close_before = []

    def initial(self, fn):
        return [frozenset()]

    def _carries_unwrap(self, node) -> bool:
        """the call mentions `<x>.unwrap` - directly, in a lambda, or through a nested function defined in the analysed function"""
        if any(isinstance(x, ast.Attribute) and x.attr == "unwrap" for x in ast.walk(node)):
            return True
        names = {x.id for x in ast.walk(node) if isinstance(x, ast.Name)}
        fn = self.fn
        for d in ast.walk(fn.node) if fn is not None else []:
            if isinstance(d, (ast.FunctionDef, ast.AsyncFunctionDef)) and d is not fn.node and d.name in names \
                    and any(isinstance(x, ast.Attribute) and x.attr == "unwrap" for x in ast.walk(d)):
                return True
        # ... or through a bound private method handed over as the callback (`self._retry(self.__try_unwrap, t)`)
        if fn is not None and fn.cls is not None and isinstance(node, ast.Call):
            for a in list(node.args) + [k.value for k in node.keywords]:
                if isinstance(a, ast.Attribute) and isinstance(a.value, ast.Name) and a.value.id == fn.self_name and a.attr.startswith("_"):
                    g = fn.cls.methods.get(a.attr)
                    if g is not None and not isinstance(g.node, ast.Lambda) and any(isinstance(x, ast.Attribute) and x.attr == "unwrap" for x in ast.walk(g.node)):
                        return True
        return False

    def keeps_opaque(self, g, node):
        # the call that carries the unwrap (retry wrapper given `ssl_object.unwrap`) is the event of interest, not something to look into
        return self._carries_unwrap(node)

    def may_raise(self, node, fact):
        if isinstance(node, ast.Await):
            return list(self.tokens)
        if isinstance(node, ast.Call):
            if isinstance(node.func, ast.Attribute) and node.func.attr in ("fileno", "is_closing", "is_closed", "cancelled_caught", "backend", "move_on_after", "callback"):
                return []  # state accessors / registrations: they do not fail
            return ["OSError", "Exception"]
        return []

    def raise_fact(self, node, fact, token):
        call = node.value if isinstance(node, ast.Await) and isinstance(node.value, ast.Call) else node
        if isinstance(call, ast.Call) and self._carries_unwrap(call):
            return [fact | {"unwrapped"}]  # the closing handshake was attempted; its failure is handled by the caller's arms
        return [fact]

    @staticmethod
    def _literal(test):
        src = ast.unparse(test)
        if "standard_compatible" in src and not any(isinstance(x, ast.Call) for x in ast.walk(test)):
            return "std", True
        if isinstance(test, ast.Call) and isinstance(test.func, ast.Attribute) and test.func.attr in ("is_closing", "is_closed"):
            if isinstance(test.func.value, ast.Name) and test.func.value.id in ("self", "cls"):
                return "?" + src, True  # the object's own state, not the wrapped transport's: an extra condition on the way to unwrap()
            return "open", False
        if isinstance(test, ast.Compare) and len(test.ops) == 1 and isinstance(test.left, ast.Call) and isinstance(test.left.func, ast.Attribute) and test.left.func.attr == "fileno" \
                and isinstance(test.comparators[0], (ast.Constant, ast.UnaryOp)):
            try:
                c = ast.literal_eval(test.comparators[0])
            except Exception:  # noqa: BLE001
                return "?" + src, True
            op = type(test.ops[0])
            if (op is ast.GtE and c == 0) or (op is ast.Gt and c == -1):
                return "open", True
            if (op is ast.Lt and c == 0) or (op is ast.LtE and c == -1):
                return "open", False
        if isinstance(test, ast.Attribute) and any(test.attr.lower().endswith(w) for w in ("closing", "closed")):
            return "own", True
        return "?" + src, True

    def branch(self, test, fact):
        lit, positive = self._literal(test)
        t, f = fact | {("+" if positive else "-") + lit}, fact | {("-" if positive else "+") + lit}
        return [t], [f]

    def transfer(self, node, fact):
        if isinstance(node, ast.Await) and isinstance(node.value, ast.Call):
            node = node.value
        if isinstance(node, ast.Call):
            mentions_unwrap = self._carries_unwrap(node)
            if mentions_unwrap:
                self.unwrap_sites.append((node, fact))
                return [fact | {"unwrapped"}]
            name = ast.unparse(node.func)
            if (name in self.closers or name.split(".")[-1] in self.closers) and "+std" in fact and "-open" not in fact and "+own" not in fact and "unwrapped" not in fact:
                self.close_before.append(node)
        return [fact]


def check_notify(eng, run):
    """closing sends a close notification: in standard-compatible mode, with the wrapped transport still open, every normal path of
    close()/aclose() runs unwrap() before it closes the transport; unwrap() is reached under no other condition than those two (and
    the object's own idempotence flag) and never when the mode is off.  Decided on path conditions, so guard clauses, swapped arms and
    helpers extracted from the function read the same."""
    db = eng.db
    insts = [
        (db.fn("lowlevel.api_async.transports.tls:AsyncTLSStreamTransport.aclose"), {"aclose", "self._transport.aclose"}),
        (db.fn("lowlevel.api_sync.transports.socket:SSLStreamTransport.close"), {"_close_stream_socket"}),
    ]
    for fn, closers in insts:
        an = NotifyPath(eng, closers)
        out = Interp(an, fn).run()
        ok, why, where = True, "", fn.node
        if not an.unwrap_sites:
            ok, why = False, "unwrap() (close_notify) is no longer performed on close"
        for node, fact in an.unwrap_sites:
            extra = sorted(x for x in fact if x[1:].startswith("?"))
            if "+std" not in fact:
                ok, why, where = False, ("unwrap() is performed even when standard-compatible mode is off" if "-std" in fact else
                                          "unwrap() is not guarded by standard_compatible: with the mode off the close would start a closing handshake"), node
            elif extra:
                ok, why, where = False, f"the close_notify is sent only under an extra condition {[e[2:] for e in extra]}: otherwise the peer sees a truncated stream although we closed in standard-compatible mode", node
        # every normal exit in standard-compatible mode with the transport open has gone through unwrap()
        for fact, tr in out.ret.items():
            if "+std" in fact and "-open" not in fact and "+own" not in fact and "unwrapped" not in fact:
                ok, why = False, "a path returns in standard-compatible mode, with the transport still open, without having performed unwrap(): no close_notify is sent"
        for node in an.close_before[:1]:
            ok, why, where = False, "the transport is closed before unwrap()", node
        if not ok:
            run.finding("C09.notify", fn, where if where is not fn.node else fn.node, why)
        run.ob("C09.notify", f"{fn.cls.name}.{fn.name}", ok, unwrap_sites=len(an.unwrap_sites), path_conditions=[sorted(f) for _, f in an.unwrap_sites][:2])


def _created_and_cleared(root, body, var):
    """(the statement that binds `var` to ssl.create_default_context(), the statement `var.options &= ~OP_IGNORE_UNEXPECTED_EOF`)"""
    created = next((s for s in body if isinstance(s, ast.Assign) and "create_default_context" in ast.unparse(s.value)), None)
    cleared = next((n for n in ast.walk(root) if isinstance(n, ast.AugAssign) and isinstance(n.op, ast.BitAnd) and "OP_IGNORE_UNEXPECTED_EOF" in ast.unparse(n.value)
                    and isinstance(n.value, ast.UnaryOp) and isinstance(n.value.op, ast.Invert) and ast.unparse(n.target) == f"{var}.options"), None)
    return created, cleared


def check_ctx(eng, run):
    db = eng.db
    facts = {}
    for q in ("clients.tcp:TCPNetworkClient.__init__", "clients.async_tcp:AsyncTCPNetworkClient.__init__"):
        fn = db.fn(q)
        ok = False
        why = "the default TLS context no longer clears OP_IGNORE_UNEXPECTED_EOF: on OpenSSL 3 a truncated stream would be reported as a clean end-of-stream"
        cleared = None
        scope_root = None
        for iff in own_nodes(fn.node):
            if isinstance(iff, ast.If) and "isinstance(ssl, bool)" in ast.unparse(iff.test):
                created, cleared_ = _created_and_cleared(iff, iff.body, "ssl")
                if created is not None and cleared_ is not None and created.lineno < cleared_.lineno:
                    ok, cleared, scope_root, scope_fn = True, cleared_, iff, fn
                    continue
                # the default context built by a helper of the repository: `ssl = _utils.create_default_client_ssl_context(...)`
                for st in iff.body:
                    if isinstance(st, ast.Assign) and len(st.targets) == 1 and isinstance(st.targets[0], ast.Name) and st.targets[0].id == "ssl" and isinstance(st.value, ast.Call):
                        for h in eng.typer.call_targets(fn, st.value, dispatch=False):
                            if not hasattr(h, "node") or isinstance(h.node, ast.Lambda):
                                continue
                            var = next((a.targets[0].id for a in own_nodes(h.node) if isinstance(a, ast.Assign) and len(a.targets) == 1 and isinstance(a.targets[0], ast.Name)
                                        and "create_default_context" in ast.unparse(a.value)), None)
                            if var is None:
                                continue
                            created, cleared_ = _created_and_cleared(h.node, h.node.body, var)
                            returns_it = all(isinstance(r.value, ast.Name) and r.value.id == var for r in own_nodes(h.node) if isinstance(r, ast.Return))
                            if created is not None and cleared_ is not None and created.lineno < cleared_.lineno and returns_it:
                                ok, cleared, scope_root, scope_fn = True, cleared_, h.node, h
        # a caller-supplied context is never modified: every store to ssl.<attr> lies inside the isinstance(ssl, bool) branch
        outside = []
        for n in own_nodes(fn.node):
            if isinstance(n, (ast.Assign, ast.AugAssign)):
                tg = n.targets if isinstance(n, ast.Assign) else [n.target]
                if any(isinstance(t, ast.Attribute) and isinstance(t.value, ast.Name) and t.value.id == "ssl" for t in tg):
                    inside = any(isinstance(iff, ast.If) and "isinstance(ssl, bool)" in ast.unparse(iff.test) and any(n in list(ast.walk(s)) for s in iff.body) for iff in own_nodes(fn.node))
                    if not inside:
                        outside.append(n)
        if outside:
            ok, why = False, "a caller-supplied SSLContext is modified"
        # the hardening runs on every path through the default-context branch: between the clearing statement and that branch there
        # are only `with` blocks (no nested condition such as `if not server_hostname:`)
        if ok:
            pm = {}
            for p_ in ast.walk(scope_fn.node):
                for c_ in ast.iter_child_nodes(p_):
                    pm[c_] = p_
            x = cleared
            while x in pm:
                x = pm[x]
                if x is scope_root:
                    break
                if isinstance(x, (ast.If, ast.For, ast.While, ast.ExceptHandler, ast.Match)) or (isinstance(x, ast.Try) and cleared not in [n_ for b in x.body for n_ in ast.walk(b)]):
                    ok, why = False, f"the default TLS context is hardened (OP_IGNORE_UNEXPECTED_EOF cleared) only under `{ast.unparse(getattr(x, 'test', x))[:40]}`: on the other paths a truncated stream is reported as a clean end-of-stream"
                    break
        if not ok:
            run.finding("C09.ctx", fn, outside[0] if outside else fn.node, why)
        run.ob("C09.ctx", fn.short, ok)
        facts[q] = ok
    same = len(set(facts.values())) == 1
    run.ob("C09.ctx", "sync~async", same)


def check_ctx_global(eng, run):
    """nobody weakens or edits a TLS context it does not own: every store to an SSLContext attribute (options, verify_mode,
    check_hostname, ...) targets a context created in the same function, and OP_IGNORE_UNEXPECTED_EOF is never switched on"""
    CTX_ATTRS = {"options", "verify_mode", "check_hostname", "minimum_version", "maximum_version", "verify_flags"}
    n = 0
    for fn in eng.db.all_functions():
        if isinstance(fn.node, ast.Lambda) or not fn.module.name.startswith("easynetwork."):
            continue
        for st in own_nodes(fn.node):
            if not isinstance(st, (ast.Assign, ast.AugAssign)):
                continue
            tg = st.targets if isinstance(st, ast.Assign) else [st.target]
            for t in tg:
                if not (isinstance(t, ast.Attribute) and t.attr in CTX_ATTRS):
                    continue
                owner = dotted(t.value) or ""
                if not any(w in owner.lower() for w in ("ssl", "ctx", "context")):
                    continue
                n += 1
                fresh = any(isinstance(a, ast.Assign) and any(dotted(x) == owner for x in a.targets) and isinstance(a.value, ast.Call)
                            and (dotted(a.value.func) or "").split(".")[-1] in ("create_default_context", "SSLContext", "_create_unverified_context") and a.lineno < st.lineno
                            for a in own_nodes(fn.node))
                switches_on = isinstance(st, ast.AugAssign) and isinstance(st.op, ast.BitOr) and "OP_IGNORE_UNEXPECTED_EOF" in ast.unparse(st.value)
                ok = fresh and not switches_on
                if not ok:
                    run.finding("C09.ctx", fn, st, (f"`{ast.unparse(st)[:70]}` switches OP_IGNORE_UNEXPECTED_EOF on" if switches_on else f"`{ast.unparse(st)[:70]}` edits `{owner}`, a context this function did not create") +
                                ": the setting stays on the caller's (shared) SSLContext, so later standard-compatible connections made from it report a truncated stream as a clean end-of-stream")
                run.ob("C09.ctx", f"{fn.short}:{owner}.{t.attr}:own-context-only", ok)
    run.floor("C09.ctx stores to TLS context attributes", n, 2)


def check_cli(eng, run):
    from sa.norm import helper_return_expr, strip_not
    db = eng.db
    for q in ("clients.tcp:TCPNetworkClient", "clients.async_tcp:AsyncTCPNetworkClient"):
        ci = db.cls(q.replace(":", "."))
        fn = ci.methods.get("__convert_socket_error")
        if fn is None:
            raise AnalysisError(f"anchor vanished: {q}.__convert_socket_error")

        def raises_aborted(stmts) -> bool:
            """a `raise <ECONNABORTED error>` (literally, or through a private helper that returns one) in stmts"""
            for r in [x for st in stmts for x in ast.walk(st) if isinstance(x, ast.Raise) and x.exc is not None]:
                if "ECONNABORTED" in ast.unparse(r.exc):
                    return True
                if isinstance(r.exc, ast.Call):
                    h_ = helper_return_expr(fn, r.exc)
                    if h_ is not None and "ECONNABORTED" in ast.unparse(h_[0]):
                        return True
            return False

        ok = False
        for t in [x for x in own_nodes(fn.node) if isinstance(x, ast.Try)]:
            for h in t.handlers:
                if h.type is not None and "SSLError" in ast.unparse(h.type):
                    iff = next((s_ for s_ in h.body if isinstance(s_, ast.If) and "is_ssl_eof_error" in ast.unparse(s_.test)), None)
                    if iff is None:
                        continue
                    _, neg = strip_not(iff.test)
                    rest = h.body[h.body.index(iff) + 1:]
                    # the statements executed when the error *is* an SSL EOF / when it is not (guard-clause and if/else forms alike)
                    if not neg:
                        eof_side, other_side = iff.body, (iff.orelse or rest)
                    else:
                        eof_side, other_side = (iff.orelse or rest), iff.body
                    raises_abort = raises_aborted(eof_side)
                    reraises = any(isinstance(r, ast.Raise) and r.exc is None for st in other_side for r in ast.walk(st))
                    no_return = not any(isinstance(r, (ast.Return, ast.Pass)) for r in ast.walk(h))
                    ends_raise = isinstance(h.body[-1], ast.Raise)
                    ok = raises_abort and reraises and no_return and ends_raise
        if not ok:
            run.finding("C09.cli", fn, fn.node, "the client no longer maps an SSL EOF error to ECONNABORTED (an error): a truncated TLS stream could surface as something a caller treats as a clean close")
        run.ob("C09.cli", fn.short, ok)


def check_layers_below(eng, run):
    """two facts about the layers under / above the TLS transport that decide whether a truncation or a close is seen as what it is:
    (a) a stapled (send + receive) transport reports `is_closing()` only when *both* halves are closing - the TLS transport asks it before
        the closing handshake, and 'closing' as soon as the receive half is closed makes aclose() skip unwrap(): no close_notify is sent;
    (b) the server-side request receivers treat a receive error as a disconnection only when a filter was given *and* accepts it: with
        `filter is None or filter(exc)` the default (no filter) turns every error - the SSLEOFError of a truncated stream included - into a
        clean end of the request stream"""
    n = 0
    for ci in eng.db.classes.values():
        if not ci.module.name.endswith("transports.composite") or ci.methods.get("is_closing") is None:
            continue
        fn = ci.methods["is_closing"]
        rets = [r.value for r in own_nodes(fn.node) if isinstance(r, ast.Return) and r.value is not None]
        halves = [c for r in rets for c in ast.walk(r) if isinstance(c, ast.Call) and isinstance(c.func, ast.Attribute) and c.func.attr in ("is_closing", "is_closed")]
        if len(halves) < 2:
            continue
        n += 1
        ok = all(isinstance(r, ast.BoolOp) and isinstance(r.op, ast.And) for r in rets) or all(isinstance(r, ast.Call) and getattr(r.func, "id", "") == "all" for r in rets)
        if not ok:
            run.finding("C09.notify", fn, fn.node, "the stapled transport reports is_closing() when only one of its halves is closing: the TLS transport above it then skips the closing handshake "
                        "although the send half is open - the peer sees a truncated stream instead of our close_notify")
        run.ob("C09.notify", f"{ci.name}.is_closing:both-halves", ok)
    for q in ("lowlevel.api_async.servers.stream:_RequestReceiver.next", "lowlevel.api_async.servers.stream:_BufferedRequestReceiver.next"):
        fn = eng.db.fn_opt(q)
        if fn is None:
            continue
        for i in [x for x in own_nodes(fn.node) if isinstance(x, ast.If) and any(isinstance(b, ast.Break) for b in x.body) and "filter" in ast.unparse(x.test)]:
            n += 1
            t = i.test
            ok = isinstance(t, ast.BoolOp) and isinstance(t.op, ast.And) and any(isinstance(v, ast.Compare) and isinstance(v.ops[0], ast.IsNot) for v in t.values) \
                and any(isinstance(v, ast.Call) for v in t.values)
            if not ok:
                from sa.norm import helper_return_expr
                if isinstance(t, ast.Call):
                    r = helper_return_expr(fn, t)
                    if r is not None:
                        t2 = r[0]
                        ok = isinstance(t2, ast.BoolOp) and isinstance(t2.op, ast.And) and any(isinstance(v, ast.Compare) and isinstance(v.ops[0], ast.IsNot) for v in t2.values)
            if not ok:
                run.finding("C09.map", fn, i, f"a receive error ends the request stream under `{ast.unparse(i.test)[:70]}`: without a filter every error counts as a disconnection, so the SSLEOFError of a "
                            "truncated TLS stream reaches the handler as a clean end-of-stream instead of being thrown into it")
            run.ob("C09.map", f"{fn.short}:error-is-a-disconnection-only-if-the-filter-says-so", ok)
    run.floor("C09 layer facts (stapled is_closing, receiver filters)", n, 3)


def check_default(eng, run):
    """standard-compatible mode is the default everywhere: an entry point that accepts `standard_compatible=None` resolves None to
    True (and to nothing else) before use, or hands it unchanged to the callee that does; a literal default is True."""
    n = 0
    for fn in eng.db.all_functions():
        if isinstance(fn.node, ast.Lambda) or fn.has_decorator("overload"):
            continue
        a = fn.node.args
        pos = a.posonlyargs + a.args
        defaults = dict(zip([x.arg for x in pos[len(pos) - len(a.defaults):]], a.defaults))
        defaults.update({k.arg: d for k, d in zip(a.kwonlyargs, a.kw_defaults) if d is not None})
        for name, d in defaults.items():
            if not name.endswith("standard_compatible"):
                continue
            n += 1
            if isinstance(d, ast.Constant) and d.value is not None:
                ok = d.value is True
                if not ok:
                    run.finding("C09.dflt", fn, fn.node, f"`{name}` defaults to {d.value!r}: truncation would be reported as a clean end-of-stream unless the caller opts in")
                run.ob("C09.dflt", f"{fn.short}:{name}=True", ok)
                continue
            # default None: every use is (a) the `is None` / `is not None` tests, (b) the resolution `name = True` under `if name is None`,
            # (c) passing it on as-is (keyword / positional argument, attribute store)
            probs = []
            resolved = False
            for node in own_nodes(fn.node):
                if isinstance(node, (ast.Assign, ast.AnnAssign)):
                    tg = node.targets if isinstance(node, ast.Assign) else [node.target]
                    if any(isinstance(t, ast.Name) and t.id == name for t in tg):
                        v = node.value
                        under_none = any(isinstance(i, ast.If) and node in i.body and isinstance(i.test, ast.Compare) and dotted(i.test.left) == name and isinstance(i.test.ops[0], ast.Is)
                                         and isinstance(i.test.comparators[0], ast.Constant) and i.test.comparators[0].value is None for i in own_nodes(fn.node))
                        if isinstance(v, ast.Constant) and v.value is True and under_none:
                            resolved = True
                        else:
                            probs.append(f"`{ast.unparse(node)}` changes the meaning of the unspecified default")
            for c in own_nodes(fn.node):
                if isinstance(c, ast.Call) and (dotted(c.func) or "") in ("bool", "int") and c.args and dotted(c.args[0]) == name and not resolved:
                    probs.append(f"`{ast.unparse(c)}` turns the unspecified default (None) into False")
                if isinstance(c, ast.BoolOp) and any(dotted(v) == name for v in c.values) and not resolved:
                    probs.append(f"`{ast.unparse(c)}` coerces the unspecified default (None)")
            passes_on = any(isinstance(c, ast.Call) and any(k.arg and k.arg.endswith("standard_compatible") and dotted(k.value) == name for k in c.keywords) for c in ast.walk(fn.node))  # closures / lambdas included
            stores_raw = any(isinstance(s_, (ast.Assign, ast.AnnAssign)) and dotted(getattr(s_, "value", None)) == name and any(isinstance(t, ast.Attribute) for t in (s_.targets if isinstance(s_, ast.Assign) else [s_.target]))
                             for s_ in own_nodes(fn.node))
            if not resolved and not passes_on:
                probs.append("None is neither resolved to True nor handed on to a callee that resolves it")
            if not resolved and stores_raw:
                probs.append("the unresolved None is stored and later read as falsy")
            for p_ in probs[:1]:
                run.finding("C09.dflt", fn, fn.node, f"`{name}`: {p_}: TLS connections silently run in non-standard mode (no close_notify sent, truncation read as a clean EOF)")
            run.ob("C09.dflt", f"{fn.short}:{name}=None->True", not probs, resolved_here=resolved, delegated=passes_on and not resolved)
    run.floor("C09.dflt entry points with a defaulted standard_compatible parameter", n, 5)


def check_ssl_layer_kept(eng, run):
    """the blocking TLS transport never drops its SSL layer outside close(): `SSLSocket.shutdown()` / `.unwrap()` discard the SSL object,
    after which `recv()` on the same socket is a *plain* socket read that answers the peer's FIN with b"" - a clean end-of-stream
    for a stream that was in fact cut.  Only close() (and helpers reachable from close() alone) may call them; the async transport
    likewise writes end-of-file into its BIOs / calls unwrap only from aclose() and the error arms that re-raise."""
    ci = eng.db.cls("lowlevel.api_sync.transports.socket.SSLStreamTransport")
    from sa.norm import private_helper
    sock_attr = f"__socket"
    from sa.norm import referenced_only_from
    from sa.analyses.buffers import through_local
    n = 0
    for m in ci.methods.values():
        if isinstance(m.node, ast.Lambda):
            continue
        for c in ast.walk(m.node):  # called or handed on as a bound method (`self._try_ssl_method(self.__socket.unwrap)`), lambdas included
            recv = through_local(m, c.value) if isinstance(c, ast.Attribute) and isinstance(c.value, ast.Name) else getattr(c, "value", None)  # `ssl_socket = self.__socket`
            if isinstance(c, ast.Attribute) and c.attr in ("shutdown", "unwrap") and (dotted(recv) or "").endswith(sock_attr):
                n += 1
                only_close = referenced_only_from(ci, m.name, {"close"})
                if not only_close:
                    run.finding("C09.ragged", m, _stmt_at(m, c.lineno), f"`{ast.unparse(c)[:60]}` outside close(): SSLSocket.{c.attr}() drops the SSL object, so the next recv() on this transport is a plain "
                                "socket read that reports the peer's FIN as a clean end-of-stream although no close notification was received")
                run.ob("C09.ragged", f"{ci.name}.{m.name}:{c.attr}:only-from-close", bool(only_close))
    run.floor("C09.ragged SSL-layer teardown calls of the blocking transport", n, 1)


def check_flush_shared(eng, run):
    """closing sends a close notification: unwrap() only *produces* the alert in the outgoing BIO; it reaches the peer through the
    retry loop's flush discipline (before waiting for the peer, after success) under the send lock only - machinery of C08"""
    from rules import c08
    from sa.report import RuleAlias
    c08.check_flush(eng, RuleAlias(run, "C09.notify"))
    c08.check_locks(eng, RuleAlias(run, "C09.notify"))


def run(eng, run):
    from sa.anchors import verify as _verify_anchor_names
    _verify_anchor_names(eng, run)
    run.not_decided += NOT_DECIDED
    run.assumptions += ["the ssl module is present (conditional handler expressions `X if ssl else ()` are evaluated with ssl available)"]
    run.attempt(check_map, eng, run)
    run.attempt(check_ragged, eng, run)
    run.attempt(check_ssl_layer_kept, eng, run)
    run.attempt(check_notify, eng, run)
    run.attempt(check_ctx, eng, run)
    run.attempt(check_ctx_global, eng, run)
    run.attempt(check_cli, eng, run)
    run.attempt(check_default, eng, run)
    run.attempt(check_flush_shared, eng, run)
    from sa.analyses.arms import check_dead_arms
    run.attempt(check_dead_arms, eng, run, "C09.arms", ("clients.tcp", "clients.async_tcp", "lowlevel.api_async.transports.tls", "lowlevel.api_sync.transports"), 7)
    run.attempt(check_layers_below, eng, run)
    run.end_of_rules()


# ---------------------------------------------------------------------------------------------- self-test corpus
from sa.mutate import (Variant, delete_stmt, find_handler, find_stmt, insert_after, insert_before, rename_local, replace_expr,  # noqa: E402
                       replace_stmt, set_handler_type, stmt_has, stmt_is)

_A = "lowlevel.api_async.transports.tls:AsyncTLSStreamTransport"
_S = "lowlevel.api_sync.transports.socket:SSLStreamTransport"
_TCP = "clients.tcp:TCPNetworkClient"
_ATCP = "clients.async_tcp:AsyncTCPNetworkClient"

MUTANTS = [
    Variant("async-recv-drop-not", _A + ".recv", lambda fn: replace_expr(fn, "not self._standard_compatible", "self._standard_compatible"), "C09.map",
            why="in standard-compatible mode a ragged EOF becomes a clean EOF"),
    Variant("async-recv-into-broad-handler", _A + ".recv_into", lambda fn: setattr(find_handler(fn, "_ssl_module.SSLError"), "body", [ast.parse("return 0").body[0]]), "C09.map"),
    Variant("sync-recv-catches-ssleof", _S + ".recv_noblock",
            lambda fn: [setattr(h, "type", ast.parse("(_ssl_module.SSLZeroReturnError, _ssl_module.SSLEOFError) if _ssl_module else ()", mode="eval").body) for h in ast.walk(fn) if isinstance(h, ast.ExceptHandler)],
            "C09.map"),
    Variant("sync-suppress-ragged-inverted", _S + ".__init__", lambda fn: replace_expr(fn, "not standard_compatible", "standard_compatible"), "C09.ragged"),
    Variant("async-aclose-skips-unwrap", _A + ".aclose",
            lambda fn: replace_stmt(fn, stmt_has("await self._retry_ssl_method(self._ssl_object.unwrap)"), "pass"), "C09.notify"),
    Variant("async-aclose-extra-condition", _A + ".aclose",
            lambda fn: replace_expr(fn, "self._standard_compatible and (not self._transport.is_closing())", "self._standard_compatible and (not self._transport.is_closing()) and (not self._data_deque)"), "C09.notify"),
    Variant("sync-close-unwrap-unconditional", _S + ".close", lambda fn: replace_expr(fn, "self.__standard_compatible and self.__socket.fileno() >= 0", "self.__socket.fileno() >= 0"), "C09.notify"),
    Variant("async-client-keeps-ignore-unexpected-eof", _ATCP + ".__init__", lambda fn: delete_stmt(fn, stmt_is("with contextlib.suppress(AttributeError)")), "C09.ctx"),
    Variant("tcp-client-ssl-eof-returns", _TCP + ".__convert_socket_error",
            lambda fn: replace_stmt(fn, stmt_is("if _utils.is_ssl_eof_error(exc)"), "if _utils.is_ssl_eof_error(exc):\n    return"), "C09.cli"),
    Variant("async-recv-eof-fastpath", _A + ".recv", lambda fn: insert_before(fn, stmt_is("try:"), "if self._read_bio.eof:\n    return b''"), "C09.map"),
]

BENIGN = [
    Variant("async-recv-is-eof-local", _A + ".recv",
            lambda fn: replace_stmt(fn, stmt_is("if _utils.is_ssl_eof_error(exc)"), "if _utils.is_ssl_eof_error(exc) and (not self._standard_compatible):\n    return b''"),
            why="the two conditions merged into one test"),
    Variant("sync-close-rename", _S + ".recv_noblock_into", lambda fn: rename_local(fn, "buffer", "buf"), why="parameter renamed"),
    Variant("async-aclose-rename-scope", _A + ".aclose", lambda fn: rename_local(fn, "shutdown_timeout_scope", "scope"), why="local renamed"),
]

_SRV = "servers.async_tcp:AsyncTCPNetworkServer.__init__"
_CLI = "clients.tcp:TCPNetworkClient.__init__"
_RETRY = _A + "._retry_ssl_method"


def _flush_inside_recv_lock(fn):
    h = find_handler(fn, "_ssl_module.SSLWantReadError")
    inner = next(t for t in h.body if isinstance(t, ast.Try))
    first, second = inner.body
    second.body.insert(0, first)
    inner.body = [second]


def _final_flush_not_when_closing(fn):
    t = next(t for t in ast.walk(fn) if isinstance(t, ast.Try) and t.orelse)
    i = next(x for x in ast.walk(t.orelse[0]) if isinstance(x, ast.If))
    i.test = ast.parse("self._write_bio.pending and not self.__closing", mode="eval").body


MUTANTS += [
    Variant("server-default-mode-bool-of-none", _SRV, lambda fn: replace_stmt(fn, stmt_is("if ssl_standard_compatible is None:"), "ssl_standard_compatible = bool(ssl_standard_compatible)"), "C09.dflt",
            why="an unspecified mode resolves to False: no close_notify, truncation read as clean EOF (seed C09-6)"),
    Variant("client-default-mode-false", _CLI, lambda fn: replace_stmt(fn, stmt_is("ssl_standard_compatible = True"), "ssl_standard_compatible = False"), "C09.dflt"),
    Variant("final-flush-skipped-when-closing", _RETRY, _final_flush_not_when_closing,
            "C09.notify", why="our close_notify produced by a successful unwrap() is never sent (seed C09-5)"),
    Variant("want-read-flush-under-recv-lock", _RETRY, _flush_inside_recv_lock, "C09.notify",
            why="a task parked in recv() holds the recv lock: aclose()'s close_notify is never flushed (seed C09-4)"),
]

_TCPI = "clients.tcp:TCPNetworkClient.__init__"


def _hardening_under_hostname_test(fn):
    iff = next(n for n in ast.walk(fn) if isinstance(n, ast.If) and "isinstance(ssl, bool)" in ast.unparse(n.test))
    w = next(s for s in iff.body if isinstance(s, ast.With) and "OP_IGNORE_UNEXPECTED_EOF" in ast.unparse(s))
    inner = next(s for s in iff.body if isinstance(s, ast.If) and "server_hostname" in ast.unparse(s.test))
    iff.body.remove(w)
    inner.body.append(w)


MUTANTS += [
    Variant("default-context-hardened-only-without-hostname", _TCPI, _hardening_under_hostname_test, "C09.ctx",
            why="indentation slip: with a server_hostname the default context keeps OP_IGNORE_UNEXPECTED_EOF (seed C09-8)"),
    Variant("wrap-switches-ignore-eof-on-the-callers-context", _A + ".wrap",
            lambda fn: fn.body.insert(next(i for i, s in enumerate(fn.body) if not (isinstance(s, ast.Expr) and isinstance(s.value, ast.Constant))),
                                      ast.parse("if not standard_compatible:\n    ssl_context.options |= _ssl_module.OP_IGNORE_UNEXPECTED_EOF").body[0]),
            "C09.ctx", why="the option stays on the shared context: later standard-compatible transports read truncation as EOF (seed C09-7)"),
]
