"""C05 - datagrams: one packet per datagram, boundaries preserved, errors isolated (DESIGN.md section 3, C05)."""
from __future__ import annotations

import ast

from sa.analyses.base import RuleAnalysis
from sa.analyses.escape import DESER, DGRAMPARSE, EscapeSummaries
from sa.analyses.buffers import through_local
from sa.db import AnalysisError, ClassInfo, FunctionInfo, dotted, mangle, norm_stmt, own_nodes
from sa.exc import CANCELLED
from sa.flow import FnExit, Interp, call_of

CLAIM = {
    "text": "Decides statelessness and cardinality of the datagram path: DatagramProtocol.make_datagram / build_packet_from_datagram store nothing and read only the two attributes fixed in the constructor; the datagram sender/receiver implementations declare no field besides transport and protocol (no buffer, no consumer); every datagram receive performs exactly one transport recv on every normal path, outside any loop, and hands exactly that value to exactly one build_packet_from_datagram call whose result is the only outcome; every send performs exactly one make_datagram and exactly one transport send of exactly that value (no slicing, concatenation or re-binding in between); the one-shot deserialize derived from the incremental interface raises on both 'generator did not finish' (closing it first) and 'non-empty remainder' and returns only on finished-and-empty; the overriding one-shot deserializers reject leftover data; only DatagramProtocolParseError (or the documented RuntimeError wrap) leaves a receive. Also decided: no input-dependent exception class other than DeserializeError escapes any serializer's one-shot deserialize (shared escape analysis of C06), so a malformed datagram is one parse error, not a RuntimeError; a datagram taken from a socket/queue is never dropped by a raising branch, an empty payload being a datagram like any other; the receive buffer handed to recv(2)/recvfrom(2) is MAX_DATAGRAM_BUFSIZE, a constant expression evaluated to at least the largest UDP payload (65527), at every datagram socket read; no except arm on the datagram path is shadowed. The loop-facing datagram_received() callbacks route a datagram independently of its payload; every text conversion of a serializer with a configured encoding uses it (no literal / default codec on one side only). Round 4: the queues between the datagram callbacks and the readers have no capacity bound (a bounded Queue + put_nowait or a deque(maxlen) drops datagrams silently). Round 5: a configured checksum is verified for every datagram (the guard reads the configuration only); iter_received_packets() returns a resumable iterator object, and the iterators end only on OSError. Round 6: every DeserializeError-family handler of DatagramProtocol.build_packet_from_datagram raises DatagramProtocolParseError; the UDP clients hand a packet to the endpoint exactly once per send_packet() on every path. Round 7: the line serializer's one-shot methods remove separators only under the keep_end switch.",
    "note": "Trusted: the serializers' one-shot serialize/deserialize are inverse on valid data (value level); the OS preserves datagram boundaries. Not decided: payload equality.",
    "technique": "effect/purity queries on the program database, cardinality-on-paths typestate by abstract interpretation, branch-totality typestate for the one-shot interface, exception-escape analysis (shared with C06)",
}
NOT_DECIDED = ["value equality of payloads (round trip)", "that the OS never merges or splits datagrams"]


def _stmt_at(fn, line):
    best = None
    for n in own_nodes(fn.node):
        if isinstance(n, ast.stmt) and getattr(n, "lineno", -1) == line:
            if best is None or not isinstance(n, (ast.Try, ast.With, ast.AsyncWith, ast.For, ast.If, ast.While)):
                best = n
    return best if best is not None else fn.node


def _cname(c):
    return (c.func.attr if isinstance(c.func, ast.Attribute) else getattr(c.func, "id", "")) if c is not None else ""


def check_pure(eng, run):
    db = eng.db
    proto = db.cls("protocol.DatagramProtocol")
    # the configuration fixed at construction: attributes that __init__ stores from its own parameters (the serializer and the
    # converter), whatever they are called
    init = proto.methods.get("__init__")
    if init is None:
        raise AnalysisError("anchor vanished: DatagramProtocol.__init__")
    iparams = {a.arg for a in init.params()}
    allowed_reads = set()
    for st in own_nodes(init.node):
        if isinstance(st, (ast.Assign, ast.AnnAssign)) and st.value is not None and isinstance(st.value, ast.Name) and st.value.id in iparams:
            for t in (st.targets if isinstance(st, ast.Assign) else [st.target]):
                if isinstance(t, ast.Attribute) and isinstance(t.value, ast.Name) and t.value.id == init.self_name:
                    allowed_reads.add(mangle(proto.name, t.attr))
    if len(allowed_reads) < 2:
        raise AnalysisError("anchor vanished: serializer / converter attributes of DatagramProtocol")
    for name in ("make_datagram", "build_packet_from_datagram"):
        fn = proto.methods.get(name)
        if fn is None:
            raise AnalysisError(f"anchor vanished: DatagramProtocol.{name}")
        bad = []
        for n in own_nodes(fn.node):
            if isinstance(n, (ast.Global, ast.Nonlocal)):
                bad.append((n, "global/nonlocal state"))
            if isinstance(n, (ast.Assign, ast.AugAssign, ast.AnnAssign, ast.Delete)):
                tg = n.targets if isinstance(n, (ast.Assign, ast.Delete)) else [n.target]
                for t in tg:
                    for x in ast.walk(t):
                        if isinstance(x, ast.Attribute) and isinstance(x.value, ast.Name) and x.value.id == fn.self_name:
                            bad.append((n, f"store to self.{x.attr}"))
            if isinstance(n, ast.Attribute) and isinstance(n.value, ast.Name) and n.value.id == fn.self_name and isinstance(n.ctx, ast.Load):
                if mangle(proto.name, n.attr) not in allowed_reads:
                    bad.append((n, f"reads self.{n.attr} (only the serializer and converter fixed in __init__ may be read)"))
            if isinstance(n, ast.Call) and isinstance(n.func, ast.Name) and n.func.id in ("setattr", "delattr"):
                bad.append((n, "setattr/delattr"))
        for n, why in bad:
            run.finding("C05.pure", fn, _stmt_at(fn, n.lineno), f"the datagram protocol method is no longer stateless: {why} - a datagram could influence the parsing of the next one")
        run.ob("C05.pure", fn.short, not bad)
    for attr in allowed_reads:
        writers = {f.name for f, _ in proto.field_values.get(attr, []) if f is not None}
        ok = writers <= {"__init__"} and bool(writers)
        if not ok:
            run.finding("C05.pure", proto.methods["__init__"], proto.node, f"`{attr}` is written outside the constructor ({sorted(writers)})")
        run.ob("C05.pure", f"DatagramProtocol.{attr}:written-in-__init__-only", ok)
    # sender / receiver implementations carry no state besides transport and protocol
    n = 0
    for modname in ("lowlevel.api_sync.endpoints.datagram", "lowlevel.api_async.endpoints.datagram"):
        m = db.module(modname)
        for cname in ("_DataSenderImpl", "_DataReceiverImpl"):
            ci = m.classes.get(cname)
            if ci is None:
                raise AnalysisError(f"anchor vanished: {modname}.{cname}")
            n += 1
            def write_only(attr):
                """a statistics counter: the methods only ever increment it (`self.x += 1`) and hand it out in a getter that does nothing else"""
                for m in ci.methods.values():
                    if isinstance(m.node, ast.Lambda):
                        continue
                    loads = [n for n in own_nodes(m.node) if isinstance(n, ast.Attribute) and n.attr in (attr, mangle(ci.name, attr)) and isinstance(n.value, ast.Name) and n.value.id == m.self_name and isinstance(n.ctx, ast.Load)]
                    if loads and any(isinstance(n, (ast.Await, ast.Call)) and not (isinstance(n, ast.Call) and isinstance(n.func, ast.Name)) for n in own_nodes(m.node)):
                        return False  # read in a method that also does I/O or calls the protocol
                    aug = [n for n in own_nodes(m.node) if isinstance(n, ast.AugAssign) and isinstance(n.target, ast.Attribute) and n.target.attr in (attr, mangle(ci.name, attr))]
                    if any(not (isinstance(a.op, ast.Add) and isinstance(a.value, ast.Constant)) for a in aug):
                        return False
                    plain = [n for n in own_nodes(m.node) if isinstance(n, (ast.Assign, ast.AnnAssign)) and m.name != "__init__" and m.name != "__post_init__"
                             and any(isinstance(t, ast.Attribute) and t.attr in (attr, mangle(ci.name, attr)) for t in (n.targets if isinstance(n, ast.Assign) else [n.target]))]
                    if plain:
                        return False
                return True

            extra = sorted(a for a in set(ci.fields) - {"transport", "protocol"} if not write_only(a))
            stores = sorted(a for a, st in ci.field_values.items() if any(f is not None for f, _ in st) and not write_only(a))
            ok = not extra and not stores
            if not ok:
                run.finding("C05.pure", next(iter(ci.methods.values())), ci.node, f"{cname} carries state besides transport/protocol ({extra or stores}): data could be carried over to the next datagram")
            run.ob("C05.pure", f"{modname.split('.')[-3]}.{cname}:no-carried-state", ok, fields=sorted(ci.fields))
    run.floor("C05.pure datagram impl classes", n, 4)


class Card(RuleAnalysis):
    inline_helpers = True
    """fact = (n_in, n_mid, in_loop_violation) with counts capped at 2."""
    tokens = ("Exception", CANCELLED)

    def __init__(self, engine, first: set[str], second: set[str]):
        super().__init__(engine)
        self.first = first
        self.second = second
        self.loop_sites = []
        self.first_sites = []
        self.second_sites = []

    def initial(self, fn):
        return [(0, 0)]

    def may_raise(self, node, fact):
        if isinstance(node, (ast.Call, ast.Await)):
            return ["Exception"] + ([CANCELLED] if isinstance(node, ast.Await) else [])
        return []

    def transfer(self, node, fact):
        a, b = fact
        c = call_of(node)
        nm = _cname(c)
        if c is not None and (isinstance(node, ast.Call) or isinstance(node, ast.Await)):
            if nm in self.first and not (isinstance(node, ast.Call) and False):
                if self.interp.ctx.loop_depth:
                    self.loop_sites.append(node)
                if node not in self.first_sites:
                    self.first_sites.append(node)
                return [(min(a + 1, 2), b)]
            if nm in self.second:
                if self.interp.ctx.loop_depth:
                    self.loop_sites.append(node)
                if node not in self.second_sites:
                    self.second_sites.append(node)
                return [(a, min(b + 1, 2))]
        return [fact]


def _single_binding_flow(fn, producer: str, consumer: str) -> tuple[bool, str]:
    """the value passed to `consumer(...)` is a name bound exactly once, from `producer(...)`, and passed as is.  Either call may
    sit in a private helper of the same class / module: a helper that receives the value in a namesake parameter and hands it to
    `consumer`, a helper all of whose returns are `producer(...)` (the error-wrapping wrappers an extract-method leaves behind)."""
    from sa.norm import nodes_inl, private_helper
    binds = {}
    for n in own_nodes(fn.node):
        if isinstance(n, (ast.Assign, ast.AnnAssign)) and getattr(n, "value", None) is not None:
            tg = n.targets if isinstance(n, ast.Assign) else [n.target]
            for t in tg:
                if isinstance(t, ast.Name):
                    binds.setdefault(t.id, []).append(n.value)
        if isinstance(n, ast.AugAssign) and isinstance(n.target, ast.Name):
            binds.setdefault(n.target.id, []).append(n)

    def produced(v, depth=0) -> bool:
        v = v.value if isinstance(v, ast.Await) else v
        if isinstance(v, ast.Call) and _cname(v) == producer:
            return True
        if isinstance(v, ast.Call) and depth < 2:
            g = private_helper(fn, v)
            if g is not None:
                rets = [r.value for r in own_nodes(g.node) if isinstance(r, ast.Return)]
                return bool(rets) and all(r is not None and produced(r, depth + 1) for r in rets)
        return False

    for n, owner in nodes_inl(fn):
        if isinstance(n, ast.Call) and _cname(n) == consumer:
            if not n.args:
                return False, "no positional argument"
            a = n.args[0]
            if not isinstance(a, ast.Name):
                return False, f"`{ast.unparse(a)}` is not the plain value produced by {producer}()"
            name = a.id
            if owner is not fn:
                # the helper got it in a namesake parameter: follow it to the caller's variable
                call = next((c for c in own_nodes(fn.node) if isinstance(c, ast.Call) and private_helper(fn, c) is owner), None)
                ps = [x.arg for x in owner.params()]
                if owner.cls is not None and ps and not owner.has_decorator("staticmethod"):
                    ps = ps[1:]
                if call is None or name not in ps or ps.index(name) >= len(call.args) or not isinstance(call.args[ps.index(name)], ast.Name):
                    return False, f"`{name}` reaches {consumer}() through a helper in a way that cannot be followed"
                if any(isinstance(t, ast.Name) and t.id == name and isinstance(t.ctx, ast.Store) for t in own_nodes(owner.node)):
                    return False, f"`{name}` is re-bound in {owner.name}() before it reaches {consumer}()"
                name = call.args[ps.index(name)].id
            vals = binds.get(name, [])
            if len(vals) != 1:
                return False, f"`{name}` is bound {len(vals)} times"
            if not produced(vals[0]):
                return False, f"`{name}` is not the result of {producer}()"
            return True, name
    return False, f"no call of {consumer}()"


def check_card(eng, run):
    db = eng.db
    insts = []
    for modname in ("lowlevel.api_sync.endpoints.datagram", "lowlevel.api_async.endpoints.datagram"):
        m = db.module(modname)
        insts.append((m.classes["_DataReceiverImpl"].methods["receive"], {"recv"}, {"build_packet_from_datagram"}, "recv", "build_packet_from_datagram"))
        insts.append((m.classes["_DataSenderImpl"].methods["send"], {"make_datagram"}, {"send"}, "make_datagram", "send"))
    srv = db.cls("lowlevel.api_async.servers.datagram.AsyncDatagramServer")
    insts.append((srv.methods["send_packet_to"], {"make_datagram"}, {"send_to"}, "make_datagram", "send_to"))
    # the UDP clients: one send_packet() hands the packet to the endpoint exactly once and checks the socket state once - a 'second
    # chance' after a reported socket error puts a second copy of a datagram that had already left on the wire
    for q in ("clients.udp:UDPNetworkClient.send_packet", "clients.async_udp:AsyncUDPNetworkClient.send_packet"):
        insts.append((db.fn(q), {"send_packet"}, {"check_real_socket_state"}, None, "check_real_socket_state"))
    for fn, first, second, prod, cons in insts:
        an = Card(eng, first, second)
        out = Interp(an, fn).run()
        bad = [(f, tr) for f, tr in out.ret.items() if f != (1, 1)]
        for f, tr in bad[:1]:
            run.finding("C05.card", fn, _stmt_at(fn, tr[-1]) if tr else fn.node, f"a normal path performs {f[0]} x {sorted(first)} and {f[1]} x {sorted(second)} (must be exactly 1 and 1): datagrams would be merged, split, dropped or duplicated", tr)
        for n in an.loop_sites[:1]:
            run.finding("C05.card", fn, _stmt_at(fn, n.lineno), "transport/protocol call of the datagram path inside a loop")
        ok_flow, why = _single_binding_flow(fn, prod, cons) if prod is not None else (True, "count only")
        if not ok_flow:
            run.finding("C05.card", fn, fn.node, f"the value handed to {cons}() is not exactly the value produced by {prod}(): {why}")
        run.ob("C05.card", fn.module.name.split(".")[-3] + "." + fn.short, not bad and not an.loop_sites and ok_flow, paths=len(out.ret), via=why if ok_flow else None)


class OneShot(RuleAnalysis):
    """fact flags: 'fin' (generator finished: StopIteration handler entered), 'empty' (remainder tested empty),
    'closed' (generator closed)."""
    tokens = ("StopIteration", "Exception")

    def __init__(self, engine):
        super().__init__(engine)
        self.viol = []
        self.rem_names = set()

    def initial(self, fn):
        for n in own_nodes(fn.node):
            if isinstance(n, ast.Assign) and isinstance(n.targets[0], ast.Tuple) and "value" in ast.unparse(n.value):
                elts = n.targets[0].elts
                if len(elts) == 2 and isinstance(elts[1], ast.Name):
                    self.rem_names.add(elts[1].id)
        return [frozenset()]

    def may_raise(self, node, fact):
        c = call_of(node)
        if isinstance(node, ast.Call) and _cname(c) in ("send", "next"):
            return ["StopIteration"]
        return []

    def handler_entry(self, handler, token, fact):
        if token == "StopIteration":
            return [fact | {"fin"}]
        return [fact]

    def transfer(self, node, fact):
        c = call_of(node)
        if isinstance(node, ast.Call) and _cname(c) == "close":
            return [fact | {"closed"}]
        if isinstance(node, ast.Call) and _cname(c) == "send":
            return [fact | {"sent"}]
        if isinstance(node, ast.Return):
            if not ({"fin", "empty"} <= fact):
                self.viol.append((node, f"returns a packet on a path where the generator {'finished' if 'fin' in fact else 'did not finish'} and the remainder was {'checked' if 'empty' in fact else 'not checked'}"))
        return [fact]

    def branch(self, test, fact):
        if isinstance(test, ast.Name) and test.id in self.rem_names:
            return [fact | {"extra"}], [fact | {"empty"}]
        return [fact], [fact]


def check_oneshot(eng, run):
    db = eng.db
    base = db.cls("serializers.abc.AbstractIncrementalPacketSerializer")
    fn = base.methods["deserialize"]
    an = OneShot(eng)
    out = Interp(an, fn).run()
    if not an.rem_names:
        raise AnalysisError("anchor vanished: (packet, remaining) unpacking in AbstractIncrementalPacketSerializer.deserialize")
    for node, msg in an.viol[:1]:
        run.finding("C05.oneshot", fn, node, f"one-shot deserialize {msg}: a datagram with missing or extra data would be accepted")
    # exits by exception: the not-finished arm and the extra arm raise DeserializeError; not-finished closes the generator first
    bad = []
    for tok, fmap in out.exc.items():
        for f, tr in fmap.items():
            if "sent" in f and "fin" not in f and "closed" not in f and tok != "StopIteration":
                bad.append(("not-finished arm raises without closing the generator", tr))
    # normal exits must be returns with fin & empty (checked above); additionally there must be raise sites for both arms
    raises = [r for r in own_nodes(fn.node) if isinstance(r, ast.Raise) and r.exc is not None and "DeserializeError" in ast.unparse(r.exc)]
    if len(raises) < 2:
        bad.append(("fewer than two DeserializeError exits (missing data / extra data)", ()))
    for msg, tr in bad[:1]:
        run.finding("C05.oneshot", fn, _stmt_at(fn, tr[-1]) if tr else fn.node, msg, tr)
    run.ob("C05.oneshot", fn.short, not an.viol and not bad, raises=len(raises))
    # overriding one-shot deserializers reject leftovers: (class, words that must guard a raise DeserializeError)
    table = [
        ("serializers.base_stream.FileBasedPacketSerializer", ["extra"]),
        ("serializers.pickle.PickleSerializer", ["extra"]),
        ("serializers.wrapper.compressor.AbstractCompressorSerializer", ["eof", "unused_data"]),
        ("serializers.msgpack.MessagePackSerializer", ["extra_data"]),
    ]
    for q, words in table:
        ci = db.cls(q)
        f = ci.methods.get("deserialize")
        if f is None:
            raise AnalysisError(f"anchor vanished: {q}.deserialize")
        missing = []
        for w in words:
            ok = False
            from sa.norm import nodes_inl as _ninl
            for n, _o in _ninl(f):  # (the guards may sit in a private helper that deserialize() delegates the decoding to)
                if isinstance(n, ast.If) and w in ast.unparse(n.test).lower():
                    if _all_paths_raise(n.body):
                        ok = True
                if isinstance(n, ast.ExceptHandler) and n.type is not None and w in ast.unparse(n.type).lower():
                    if _all_paths_raise(n.body):
                        ok = True
            if not ok:
                missing.append(w)
        for w in missing:
            run.finding("C05.oneshot", f, f.node, f"{ci.name}.deserialize no longer raises DeserializeError on leftover data (`{w}` guard): two packets glued in one datagram would be accepted as one")
        run.ob("C05.oneshot", f"{ci.name}.deserialize:leftover-rejected", not missing, guards=words)


def _all_paths_raise(stmts) -> bool:
    if not stmts:
        return False
    last = stmts[-1]
    if isinstance(last, ast.Raise):
        return "DeserializeError" in ast.unparse(last) or last.exc is None
    if isinstance(last, ast.If):
        return _all_paths_raise(last.body) and _all_paths_raise(last.orelse)
    return False


def check_err(eng, run):
    db = eng.db
    summ = EscapeSummaries(eng)
    lat = eng.lattice
    for modname in ("lowlevel.api_sync.endpoints.datagram", "lowlevel.api_async.endpoints.datagram"):
        fn = db.module(modname).classes["_DataReceiverImpl"].methods["receive"]
        toks = summ.escapes(fn, fn.cls)
        bad = [t for t in toks if not (lat.is_sub(t, DGRAMPARSE) or t == "RuntimeError")]
        for t in bad:
            run.finding("C05.err", fn, fn.node, f"`{t}` can leave the datagram receive; only DatagramProtocolParseError or the documented RuntimeError may")
        # contract violations of a user serializer/converter are wrapped (documented RuntimeError), never leaked raw
        wrap = False
        from sa.norm import nodes_inl
        for t, t_owner in [(x, o) for x, o in nodes_inl(fn) if isinstance(x, ast.Try)]:
            for h in t.handlers:
                names = eng.lattice.handler_classes(t_owner, h.type)
                if eng.lattice.match(names, "Exception", ("Exception",)) == "must" and any(isinstance(r, ast.Raise) and r.exc is not None and "RuntimeError" in ast.unparse(r.exc) for r in h.body):
                    wrap = True
        if not wrap:
            run.finding("C05.err", fn, fn.node, "an exception other than DatagramProtocolParseError raised while building the packet is no longer wrapped: it leaves the receive with an arbitrary type")
        run.ob("C05.err", modname.split(".")[-3] + "." + fn.short, not bad and wrap, escaping=sorted(toks), crash_wrap=wrap)
    # a malformed datagram is *one parse error*: no input-dependent exception but DeserializeError leaves any serializer's one-shot deserialize
    # (anything else is turned into the RuntimeError('... crashed') above, which is not a parse error)
    from rules.c06 import ENTRY_POINTS, _stmt_on_path, entry_escapes
    n = 0
    for ci, mname, label, sfn, stoks, sbad in entry_escapes(eng, summ, ENTRY_POINTS[:1]):
        n += 1
        for t in sbad:
            tr = summ.witness.get((sfn.qualname, ci.qualname), {}).get(t, ())
            run.finding("C05.err", sfn, _stmt_on_path(sfn, tr), f"`{t}` (input-dependent) can escape {ci.name}.deserialize: the datagram receive reports RuntimeError('... crashed') instead of exactly one parse error", tr)
        run.ob("C05.err", f"{ci.name}.deserialize:only-DeserializeError", not sbad, escaping=sorted(stoks))
    run.floor("C05.err one-shot deserializers", n, 15)
    # every error of the DeserializeError family raised by the one-shot deserialize() becomes the datagram's parse error: no handler of
    # build_packet_from_datagram() turns one of them (the incremental subclass a default deserialize() lets through) into something else
    bp = db.cls("protocol.DatagramProtocol").methods.get("build_packet_from_datagram")
    if bp is None:
        raise AnalysisError("anchor vanished: DatagramProtocol.build_packet_from_datagram")
    nh = 0
    for t in [x for x in own_nodes(bp.node) if isinstance(x, ast.Try)]:
        for h in t.handlers:
            names = eng.lattice.handler_classes(bp, h.type) if h.type is not None else []
            if names and all(lat.is_sub(nm, "easynetwork.exceptions.DeserializeError") or nm.split(".")[-1] in ("DeserializeError", "IncrementalDeserializeError", "LimitOverrunError") for nm in names):
                nh += 1
                raises = [r for b in h.body for r in ast.walk(b) if isinstance(r, ast.Raise)]
                okh = bool(raises) and all(r.exc is not None and "DatagramProtocolParseError" in ast.unparse(r.exc) for r in raises)
                if not okh:
                    run.finding("C05.err", bp, h, f"a `{ast.unparse(h.type)}` raised by the serializer's deserialize() is not reported as DatagramProtocolParseError: a malformed datagram "
                                "surfaces as another exception (the endpoint reports '... crashed') instead of exactly one parse error")
                run.ob("C05.err", f"{bp.short}:{ast.unparse(h.type)}:becomes-parse-error", okh)
    if nh == 0:
        raise AnalysisError("anchor vanished: DeserializeError handler of DatagramProtocol.build_packet_from_datagram")
    fn = db.cls("lowlevel.api_async.servers.datagram.AsyncDatagramServer").methods.get("__parse_datagram")
    if fn is None:
        raise AnalysisError("anchor vanished: AsyncDatagramServer.__parse_datagram")
    toks = summ.escapes(fn, fn.cls)
    ok = not toks
    if not ok:
        run.finding("C05.err", fn, fn.node, f"{sorted(toks)} can leave __parse_datagram: a malformed datagram kills the client task instead of being thrown into the handler")
    run.ob("C05.err", fn.short, ok, escaping=sorted(toks))


def check_drop(eng, run):
    """a datagram taken out of a queue / transport is handed on: never dropped by a raising call, a re-binding or an exit"""
    from sa.analyses.hold import MARK, RET, HoldAnalysis
    from sa.flow import Interp

    n = 0
    mods = ("easynetwork.lowlevel.api_async.backend._asyncio.datagram", "easynetwork.lowlevel.api_async.backend._trio.datagram", "easynetwork.lowlevel.api_sync.endpoints.datagram",
            "easynetwork.lowlevel.api_async.endpoints.datagram", "easynetwork.lowlevel.api_async.servers.datagram",
            "easynetwork.lowlevel.api_sync.transports")
    for fn in eng.db.all_functions():
        if isinstance(fn.node, ast.Lambda) or not fn.module.name.startswith(mods):
            continue
        if fn.module.name.startswith("easynetwork.lowlevel.api_sync.transports") and not (
                fn.cls is not None and any("Datagram" in c.name for c in fn.cls.mro())):
            continue  # stream transports: an empty read is EOF, not a datagram
        probe = HoldAnalysis(eng)
        probe.fn = fn
        if not any(isinstance(x, ast.Call) and probe.is_source_call(x) for x in own_nodes(fn.node)):
            continue
        an = HoldAnalysis(eng)
        an.empty_is_data = True
        out = Interp(an, fn).run()
        if not an.sources:
            continue
        n += 1
        bad = [(node, kind, var) for node, kind, var in an.problems if kind in ("raiser", "killed")]
        exits = []
        for kind, tok, fmap in [("return", None, out.ret)] + [("raise", t, m) for t, m in out.exc.items()]:
            for fact, tr in fmap.items():
                held = set(fact) - {RET}
                if held and MARK not in held:
                    exits.append((held, tr))
        seen = set()
        for node, kind, var in bad:
            st = _stmt_at(fn, node.lineno)
            if norm_stmt(st) in seen:
                continue
            seen.add(norm_stmt(st))
            what = "a call that can raise runs" if kind == "raiser" else "the holder is re-bound / deleted"
            run.finding("C05.drop", fn, st, f"{what} while `{var}` holds a received datagram that has not been handed on: that datagram is lost (another one's error / data takes its place)")
        for held, tr in exits[:1]:
            if not bad:
                run.finding("C05.drop", fn, _stmt_at(fn, tr[-1]) if tr else fn.node, f"exit while `{','.join(sorted(held))}` still holds a received datagram", tr)
        run.ob("C05.drop", fn.module.name.split("easynetwork.")[1].split(".")[-2] + "." + fn.short, not bad and not exits, sources=len(an.sources))
    run.floor("C05.drop datagram functions with a source", n, 5)


def check_sep(eng, run):
    """one-shot (de)serialization removes / tests the separator only as a suffix: strip-family calls treat their
    argument as a *set of bytes* and eat partial or reordered separators that belong to the payload"""
    n = 0
    for ci in eng.db.classes.values():
        if not ci.module.name.startswith("easynetwork.serializers"):
            continue
        for fn in ci.methods.values():
            if isinstance(fn.node, ast.Lambda):
                continue
            for c in own_nodes(fn.node):
                if isinstance(c, ast.Call) and isinstance(c.func, ast.Attribute) and c.func.attr in ("rstrip", "lstrip", "strip") and c.args:
                    a = ast.unparse(c.args[0])
                    if "separator" in a.lower():
                        n += 1
                        run.finding("C05.sep", fn, _stmt_at(fn, c.lineno), f"`{ast.unparse(c)[:60]}` strips a *set of bytes*, not the separator sequence: with a multi-byte separator trailing bytes of the payload that happen to be in the set are removed (sent 'abc\\n' with CRLF, received 'abc')")
            # the accepted idiom: endswith / removesuffix with the separator
    uses = sum(1 for ci in eng.db.classes.values() if ci.module.name.startswith("easynetwork.serializers") for fn in ci.methods.values() if not isinstance(fn.node, ast.Lambda)
               for c in own_nodes(fn.node) if isinstance(c, ast.Call) and isinstance(c.func, ast.Attribute) and c.func.attr in ("removesuffix", "endswith") and c.args and "separator" in ast.unparse(c.args[0]).lower())
    run.ob("C05.sep", "serializers:separator-handled-as-a-suffix", n == 0, suffix_operations=uses, strip_family_uses=n)
    run.floor("C05.sep separator suffix operations", uses, 3)


UDP_MAX_PAYLOAD = 65535 - 8  # largest payload a UDP datagram can carry (IPv6, no jumbogram); IPv4 allows 65507


def _const_int(e):
    """value of a constant integer expression (literals, + - * // << **), else None"""
    if isinstance(e, ast.Constant) and isinstance(e.value, int) and not isinstance(e.value, bool):
        return e.value
    if isinstance(e, ast.BinOp):
        a, b = _const_int(e.left), _const_int(e.right)
        if a is None or b is None:
            return None
        try:
            return {ast.Add: a.__add__, ast.Sub: a.__sub__, ast.Mult: a.__mul__, ast.FloorDiv: a.__floordiv__, ast.LShift: a.__lshift__, ast.Pow: a.__pow__}[type(e.op)](b)
        except (KeyError, ZeroDivisionError, ValueError):
            return None
    return None


def check_bufsize(eng, run):
    """never split: the receive buffer handed to recv(2)/recvfrom(2) on a datagram socket holds the largest UDP datagram;
    a shorter buffer makes the kernel truncate the datagram silently (the rest is discarded)"""
    const = eng.db.module("lowlevel.constants")
    val = node = None
    for st in const.tree.body:
        tgt = st.target if isinstance(st, ast.AnnAssign) else (st.targets[0] if isinstance(st, ast.Assign) and len(st.targets) == 1 else None)
        if isinstance(tgt, ast.Name) and tgt.id == "MAX_DATAGRAM_BUFSIZE" and st.value is not None:
            val, node = _const_int(st.value), st
    if node is None:
        raise AnalysisError("anchor vanished: lowlevel.constants.MAX_DATAGRAM_BUFSIZE")
    ok = val is not None and val >= UDP_MAX_PAYLOAD
    if not ok:
        from types import SimpleNamespace
        run.finding("C05.bufsz", SimpleNamespace(qualname=const.name, file=const.relpath), node, f"MAX_DATAGRAM_BUFSIZE = {val if val is not None else ast.unparse(node.value)} is smaller than the largest UDP payload ({UDP_MAX_PAYLOAD}): "
                    "a legal datagram longer than that is truncated by recv(2) and yields a wrong packet or a spurious parse error")
    run.ob("C05.bufsz", "constants.MAX_DATAGRAM_BUFSIZE>=65527", ok, value=val)
    # every datagram receive on a raw socket passes that constant (or the constructor-validated size defaulting to it), unmodified
    n = 0
    mods = ("easynetwork.lowlevel.api_sync.transports.socket", "easynetwork.lowlevel.api_async.backend._trio.datagram")
    for fn in eng.db.all_functions():
        if not fn.module.name.startswith(mods):
            continue
        if fn.module.name.endswith("transports.socket") and not (fn.cls is not None and any("Datagram" in c.name for c in fn.cls.mro())):
            continue
        for c in own_nodes(fn.node):
            if isinstance(c, ast.Call) and isinstance(c.func, ast.Attribute) and c.func.attr in ("recv", "recvfrom") and len(c.args) >= 1 \
                    and any(w in (dotted(c.func.value) or "").lower() for w in ("socket", "listener", "sock")):
                n += 1
                a = through_local(fn, c.args[0])
                d = (dotted(a) or "").lower()
                good = ("max_datagram" in d) and not isinstance(a, ast.BinOp)
                if not good:
                    run.finding("C05.bufsz", fn, c, f"datagram socket read with buffer size `{ast.unparse(c.args[0])}` instead of the maximum datagram size: longer datagrams are truncated")
                run.ob("C05.bufsz", f"{fn.short}:{c.func.attr}({ast.unparse(c.args[0])})", good)
    run.floor("C05.bufsz datagram socket reads", n, 3)
    # the user-supplied override is validated (> 0) and defaults to the constant
    init = eng.db.fn("lowlevel.api_sync.transports.socket:SocketDatagramTransport.__init__")
    dflt = [ast.unparse(d) for d in list(init.node.args.defaults) + [d for d in init.node.args.kw_defaults if d is not None]]
    ok = any(d.endswith("MAX_DATAGRAM_BUFSIZE") for d in dflt)
    if not ok:
        run.finding("C05.bufsz", init, init.node, "SocketDatagramTransport no longer defaults max_datagram_size to MAX_DATAGRAM_BUFSIZE")
    run.ob("C05.bufsz", f"{init.short}:default-is-the-constant", ok)


def check_callbacks(eng, run):
    """the loop-facing datagram callbacks route every datagram independently of its payload: no condition in datagram_received()
    mentions the payload parameter (an empty datagram is a datagram; a size- or content-dependent filter silently drops packets)"""
    n = 0
    for fn in eng.db.all_functions():
        if isinstance(fn.node, ast.Lambda) or fn.name != "datagram_received" or not fn.module.name.startswith("easynetwork."):
            continue
        ps = [a.arg for a in fn.params()]
        if len(ps) < 2:
            continue
        payload = ps[1]
        n += 1
        bad = []
        for x in own_nodes(fn.node):
            tests = []
            if isinstance(x, (ast.If, ast.While, ast.IfExp)):
                tests.append(x.test)
            if isinstance(x, ast.Assert):
                tests.append(x.test)
            for t in tests:
                if any(isinstance(y, ast.Name) and y.id == payload for y in ast.walk(t)):
                    bad.append(t)
        for t in bad[:1]:
            run.finding("C05.drop", fn, _stmt_at(fn, t.lineno), f"the routing of a received datagram depends on its payload (`{ast.unparse(t)[:60]}`): datagrams for which the test fails "
                        "(e.g. zero-length ones) are dropped without a packet or a parse error")
        run.ob("C05.drop", f"{fn.module.name.split('.')[-1]}.{fn.short}:payload-independent-routing", not bad)
    run.floor("C05.drop datagram_received callbacks", n, 2)


def check_codec(eng, run):
    """writer and reader agree on the text encoding: in every serializer class that stores an encoding, every str<->bytes conversion
    (`x.encode(...)`, `x.decode(...)`, `str(x, enc, ...)`) names that stored attribute - never a literal, never the default"""
    root = eng.db.classes.get("easynetwork.serializers.abc:AbstractPacketSerializer") or eng.db.cls("serializers.abc.AbstractPacketSerializer")
    n = 0
    for ci in [root] + root.all_subclasses():
        if not ci.module.name.startswith("easynetwork.serializers"):
            continue
        enc_attrs = {m for m in list(ci.fields) + list(ci.field_values) if m.endswith("__encoding")}
        if not enc_attrs:
            continue
        for fn in ci.methods.values():
            if isinstance(fn.node, ast.Lambda) or fn.self_name is None:
                continue
            for c in own_nodes(fn.node):
                if not isinstance(c, ast.Call):
                    continue
                enc = None
                kind = None
                if isinstance(c.func, ast.Attribute) and c.func.attr in ("encode", "decode"):
                    recv = (dotted(c.func.value) or ast.unparse(c.func.value)).lower()
                    if "coder" in recv or "codec" in recv:
                        continue  # an encoder / decoder *object* (json.JSONEncoder.encode(packet)), not a text codec call
                    kind = c.func.attr
                    enc = c.args[0] if c.args else next((k.value for k in c.keywords if k.arg == "encoding"), None)
                elif isinstance(c.func, ast.Name) and c.func.id in ("str", "bytes") and len(c.args) >= 2:
                    kind, enc = c.func.id, c.args[1]
                elif isinstance(c.func, ast.Name) and c.func.id in ("str", "bytes") and any(k.arg == "encoding" for k in c.keywords):
                    kind, enc = c.func.id, next(k.value for k in c.keywords if k.arg == "encoding")
                if kind is None:
                    continue
                n += 1
                e = through_local(fn, enc) if enc is not None else None
                ok = isinstance(e, ast.Attribute) and dotted(e.value) == fn.self_name and any(m.endswith(e.attr.lstrip("_")) or m.endswith(e.attr) for m in enc_attrs)
                if not ok:
                    run.finding("C05.pure", fn, _stmt_at(fn, c.lineno), f"`{ast.unparse(c)[:70]}` converts text with {'the default / ' if enc is None else ''}`{ast.unparse(enc) if enc is not None else 'utf-8'}` instead of the "
                                f"serializer's configured encoding: what serialize() produces is no longer what deserialize() reads (e.g. utf-16), the sent packet comes back as a parse error")
                run.ob("C05.pure", f"{ci.name}.{fn.name}:{kind}@+{c.lineno - fn.lineno}:configured-encoding", ok)
    run.floor("C05.pure text codec call sites in serializers with a configured encoding", n, 8)


def check_integrity_and_iterators(eng, run):
    """(a) an integrity check that is configured is applied to every datagram: the test that guards `compare_digest` reads the
    configuration only (`checksum is not None`), no property of the input (a length guard lets short forged tokens through);
    (b) the clients' `iter_received_packets()` hand out resumable iterator objects, not generator functions (a generator is finalised
    by the first exception that leaves it: after one parse error the iterator would only raise StopIteration);
    (c) those iterators turn only OSError (time-out, closed connection) into the end of the iteration: a parse error propagates"""
    b64 = eng.db.module("serializers.wrapper.base64").classes.get("Base64EncoderSerializer")
    de = b64.methods.get("deserialize") if b64 else None
    if de is None:
        raise AnalysisError("anchor vanished: Base64EncoderSerializer.deserialize")
    guards = [i for i in own_nodes(de.node) if isinstance(i, ast.If) and any(isinstance(c, ast.Call) and "compare_digest" in ast.unparse(c.func) for b in i.body for c in ast.walk(b))]
    ok = bool(guards)
    for i in guards:
        t = i.test
        while isinstance(t, ast.NamedExpr):
            t = t.value
        if isinstance(t, ast.Compare) and isinstance(t.left, ast.NamedExpr):
            t = ast.Compare(left=t.left.value, ops=t.ops, comparators=t.comparators)
        plain = isinstance(t, ast.Compare) and len(t.ops) == 1 and isinstance(t.ops[0], ast.IsNot) and isinstance(t.comparators[0], ast.Constant) and t.comparators[0].value is None
        if not plain:
            ok = False
            run.finding("C05.err", de, i, f"the checksum verification is guarded by `{ast.unparse(t)[:80]}`, i.e. by more than 'a checksum is configured': a forged datagram that avoids the extra "
                        "condition is accepted as a packet instead of being reported as one parse error")
    run.ob("C05.err", f"{de.short}:checksum-verified-whenever-configured", ok, guards=len(guards))
    n = 0
    for modname in ("clients.abc",):
        m = eng.db.module(modname)
        for ci in m.classes.values():
            fn = ci.methods.get("iter_received_packets")
            if fn is None or isinstance(fn.node, ast.Lambda):
                continue
            n += 1
            gen = fn.is_generator
            if gen:
                run.finding("C05.err", fn, fn.node, "iter_received_packets() is a generator function: the first exception that leaves it (a parse error for one malformed datagram) finalises it, "
                            "and the datagrams behind the malformed one are never delivered through that iterator")
            run.ob("C05.err", f"{ci.name}.iter_received_packets:resumable-iterator", not gen)
    it = eng.db.module("clients._iter")
    for ci in it.classes.values():
        for fn in ci.methods.values():
            if fn.name not in ("__next__", "__anext__") or isinstance(fn.node, ast.Lambda):
                continue
            n += 1
            bad = []
            for t in [x for x in own_nodes(fn.node) if isinstance(x, ast.Try)]:
                for h in t.handlers:
                    if any(isinstance(r, ast.Raise) and r.exc is not None and "Stop" in ast.unparse(r.exc) for r in ast.walk(h)):
                        names = eng.lattice.handler_classes(fn, h.type) or ["<bare>"]
                        if not all(nm != "<bare>" and eng.lattice.is_sub(nm, "OSError") for nm in names):
                            bad.append(h)
            for h in bad[:1]:
                run.finding("C05.err", fn, h, f"`except {ast.unparse(h.type) if h.type else ''}` ends the iteration for more than OSError: a parse error raised for one malformed datagram is "
                            "swallowed - it yields neither a packet nor an error, and the loop stops as if the timeout had expired")
            run.ob("C05.err", f"{ci.name}.{fn.name}:only-OSError-ends-the-iteration", not bad)
    run.floor("C05.err receive iterators", n, 3)


def check_keep_end_governs_removal(eng, run):
    """what the line serializer sends is what it hands back: its one-shot methods remove the separator only under the `keep_end`
    switch (off: trailing newlines are not part of the packet).  A removal that ignores the switch - on either side - makes a packet
    that ends in a newline come back shorter when keep_end=True."""
    n = 0
    for ci in eng.db.classes.values():
        if not ci.module.name.endswith("serializers.line"):
            continue
        for m in ci.methods.values():
            if isinstance(m.node, ast.Lambda) or m.name not in ("serialize", "deserialize"):
                continue
            pm = {}
            for p_ in ast.walk(m.node):
                for c_ in ast.iter_child_nodes(p_):
                    pm[c_] = p_
            for c in own_nodes(m.node):
                if isinstance(c, ast.Call) and isinstance(c.func, ast.Attribute) and c.func.attr in ("removesuffix", "rstrip", "strip", "removeprefix", "lstrip"):
                    n += 1
                    x, ok = c, False
                    while x in pm:
                        x = pm[x]
                        if isinstance(x, ast.If) and "keep_end" in ast.unparse(x.test):
                            ok = True
                    if not ok:
                        run.finding("C05.sep", m, next((s_ for s_ in own_nodes(m.node) if isinstance(s_, ast.stmt) and not isinstance(s_, (ast.If, ast.While, ast.For)) and any(y is c for y in ast.walk(s_))), m.node),
                                    f"`{ast.unparse(c)[:50]}` removes separators without asking `keep_end`: with keep_end=True a packet ending in the newline sequence is not the packet that is received")
                    run.ob("C05.sep", f"{ci.name}.{m.name}:{c.func.attr}:under-keep_end", ok)
    run.floor("C05.sep separator removals in the line serializer's one-shot methods", n, 1)


def run(eng, run):
    from sa.anchors import verify as _verify_anchor_names
    _verify_anchor_names(eng, run)
    run.not_decided += NOT_DECIDED
    run.attempt(check_drop, eng, run)
    run.attempt(check_sep, eng, run)
    run.attempt(check_keep_end_governs_removal, eng, run)
    run.attempt(check_pure, eng, run)
    run.attempt(check_card, eng, run)
    run.attempt(check_oneshot, eng, run)
    run.attempt(check_err, eng, run)
    run.attempt(check_bufsize, eng, run)
    run.attempt(check_callbacks, eng, run)
    run.attempt(check_codec, eng, run)
    run.attempt(check_integrity_and_iterators, eng, run)
    from sa.analyses.sharing import check_unbounded_queues
    run.attempt(check_unbounded_queues, eng, run, "C05.drop", lambda m: "datagram" in m or m.endswith(("clients.udp", "clients.async_udp", "servers.async_udp")), 2)
    from sa.analyses.arms import check_dead_arms
    run.attempt(check_dead_arms, eng, run, "C05.arms", ("clients.udp", "clients.async_udp", "lowlevel.api_async.endpoints.datagram", "lowlevel.api_sync.endpoints.datagram", "lowlevel.api_async.servers.datagram", "protocol"), 6)
    run.end_of_rules()


# ---------------------------------------------------------------------------------------------- self-test corpus
from sa.mutate import (Variant, delete_stmt, find_handler, find_stmt, insert_after, insert_before, rename_local, replace_expr,  # noqa: E402
                       replace_stmt, stmt_has, stmt_is)

_P = "protocol:DatagramProtocol"
_AR = "lowlevel.api_async.endpoints.datagram:_DataReceiverImpl.receive"
_SS = "lowlevel.api_sync.endpoints.datagram:_DataSenderImpl.send"
_ABC = "serializers.abc:AbstractIncrementalPacketSerializer.deserialize"
_COMP = "serializers.wrapper.compressor:AbstractCompressorSerializer.deserialize"
_FB = "serializers.base_stream:FileBasedPacketSerializer.deserialize"

MUTANTS = [
    Variant("protocol-caches-last-datagram", _P + ".build_packet_from_datagram", lambda fn: fn.body.insert(0, ast.parse("self.__serializer.last = datagram").body[0]), "C05.pure"),
    Variant("receiver-loops-until-non-empty", _AR,
            lambda fn: replace_stmt(fn, stmt_has("datagram = await self.transport.recv()"), "datagram = await self.transport.recv()\nwhile not datagram:\n    datagram = await self.transport.recv()"),
            "C05.card", why="an empty datagram is swallowed"),
    Variant("sender-splits-datagram", _SS, lambda fn: replace_stmt(fn, stmt_is("self.transport.send(datagram, timeout)"), "self.transport.send(datagram[:1024], timeout)"), "C05.card"),
    Variant("sender-sends-twice", _SS, lambda fn: insert_after(fn, stmt_is("self.transport.send(datagram, timeout)"), "self.transport.send(datagram, timeout)"), "C05.card"),
    Variant("oneshot-extra-data-accepted", _ABC, lambda fn: delete_stmt(fn, stmt_is("if remaining:")), "C05.oneshot",
            why="two packets glued in one datagram are accepted as the first one"),
    Variant("oneshot-missing-data-returns", _ABC,
            lambda fn: replace_stmt(fn, stmt_is("consumer.close()"), "consumer.close()\nreturn None"), "C05.oneshot"),
    Variant("compressor-not-eof-accepted", _COMP, lambda fn: replace_stmt(fn, stmt_is("if not decompressor.eof:"), "pass"), "C05.oneshot"),
    Variant("filebased-extra-accepted", _FB, lambda fn: delete_stmt(fn, stmt_has("if (extra := buffer.read()):")), "C05.oneshot"),
    Variant("receiver-leaks-other-exception", _AR, lambda fn: [t.handlers.remove(h) for t in ast.walk(fn) if isinstance(t, ast.Try) for h in list(t.handlers) if ast.unparse(h.type) == "Exception"], "C05.err",
            expect_fn="_DataReceiverImpl"),
]

BENIGN = [
    Variant("receiver-rename-local", _AR, lambda fn: rename_local(fn, "datagram", "dgram"), why="local renamed"),
    Variant("sender-del-reordered", _SS, lambda fn: rename_local(fn, "exc", "error"), why="handler variable renamed"),
    Variant("oneshot-rename-remaining", _ABC, lambda fn: rename_local(fn, "remaining", "rest"), why="local renamed"),
]

MUTANTS += [
    Variant("line-rstrip-separator", "serializers.line:StringLineSerializer.deserialize",
            lambda fn: replace_stmt(fn, stmt_is("if not self.__keep_end"), "if not self.__keep_end:\n    data = data.rstrip(self.__separator)"), "C05.sep",
            why="CRLF separator: a payload ending in a lone \\n or \\r loses it"),
    Variant("endpoint-error-check-after-dequeue", "lowlevel.api_async.backend._asyncio.datagram.endpoint:DatagramEndpoint.recvfrom",
            lambda fn: insert_after(fn, stmt_has("data_and_address = await self.__recv_queue.get()"), "self.__check_exceptions()"), "C05.drop",
            why="a pending socket error swallows the datagram that was just dequeued"),
]

_RNB = "lowlevel.api_sync.transports.socket:SocketDatagramTransport.recv_noblock"
_TRS = "lowlevel.api_async.backend._trio.datagram.socket:TrioDatagramSocketAdapter.recv"
MUTANTS += [
    Variant("json-oneshot-recursion-unmapped", "serializers.json:JSONSerializer.deserialize",
            lambda fn: [t.handlers.remove(h) for t in ast.walk(fn) if isinstance(t, ast.Try) for h in list(t.handlers) if "RecursionError" in ast.unparse(h.type)], "C05.err",
            why="a deeply nested datagram yields RuntimeError('... crashed') instead of one parse error (seed C05-4)"),
    Variant("empty-datagram-treated-as-spurious-wakeup", _RNB,
            lambda fn: replace_stmt(fn, stmt_has("return self.__socket.recv(max_datagram_size)"),
                                    "data = self.__socket.recv(max_datagram_size)\nif not data:\n    raise base_selector.WouldBlockOnRead(self.__socket.fileno())\nreturn data"),
            "C05.drop", why="a zero-length datagram is consumed and dropped (seed C05-5)"),
    Variant("trio-recv-small-buffer", _TRS, lambda fn: replace_expr(fn, "self.MAX_DATAGRAM_BUFSIZE", "8192"), "C05.bufsz", why="datagrams above 8 KiB truncated"),
    Variant("sync-recv-half-buffer", _RNB, lambda fn: replace_expr(fn, "self.__socket.recv(max_datagram_size)", "self.__socket.recv(max_datagram_size // 2)"), "C05.bufsz"),
]
BENIGN += [
    Variant("sync-recv-noblock-via-local", _RNB,
            lambda fn: replace_stmt(fn, stmt_has("return self.__socket.recv(max_datagram_size)"), "data = self.__socket.recv(max_datagram_size)\nreturn data"),
            why="result bound to a local first"),
]


MUTANTS += [
    Variant("endpoint-callback-drops-empty-datagrams", "lowlevel.api_async.backend._asyncio.datagram.endpoint:DatagramEndpointProtocol.datagram_received",
            lambda fn: replace_expr(fn, "self.__transport is not None", "self.__transport is not None and data"), "C05.drop",
            why="a zero-length datagram yields neither a packet nor a parse error (seed C05-8)"),
]


def _ascii_fast_path(fn):
    r = next(n for n in ast.walk(fn) if isinstance(n, ast.Return))
    fn.body[fn.body.index(r):] = ast.parse("document = self.__encoder.encode(packet)\nif document.isascii():\n    return document.encode('ascii')\nreturn document.encode(self.__encoding, self.__unicode_errors)").body


MUTANTS += [
    Variant("json-serialize-ascii-fast-path", "serializers.json:JSONSerializer.serialize", _ascii_fast_path, "C05.pure",
            why="with encoding='utf-16' the datagram no longer deserializes to the sent packet (seed C05-9)"),
]
