"""C16 - datagram server: per-client FIFO, one active handler, nothing dropped (DESIGN.md section 3, C16)."""
from __future__ import annotations

import ast

from sa.analyses.atomic import AtomicSection
from sa.analyses.base import RuleAnalysis
from sa.db import AnalysisError, FunctionInfo, dotted, mangle, norm_stmt, own_nodes
from sa.exc import CANCELLED
from sa.flow import FnExit, Interp, TestAtom, WithEnter, WithExit, call_of

CLAIM = {
    "text": "Decides the structure that makes per-client datagram handling FIFO and single-handler for every arrival order: the per-client state is written only by three guarded transition functions realising exactly None->PENDING->RUNNING->None; every start of a client task is preceded, with no suspension point in between, by mark_pending() of the same client and the check-then-act sections (state test to mark_pending, the whole task-done hook, queue append before the first await) contain no suspension point, so no arrival can interleave; the client task marks itself running before its first await and runs the task-done hook on every exit; the hook restarts a task whenever the queue is non-empty; queues are touched only by append (right) and popleft; each datagram callback hands the datagram on exactly once; condition variables are per client; the queue length push_datagram() returns to the spawn decision is read after its last suspension point. A datagram taken out of a client's queue is never held across a cancellable suspension point or dropped by an exit (hold typestate of C10); the listener starts exactly one task per datagram, unconditionally, carrying that datagram. Round 4: the queue length push_datagram() returns is read after its last suspension point; the datagram listeners hand the per-datagram handler down unchanged or through a wrapper that reaches it without a suspension point (no shared semaphore / lock in front of the handler). Round 5: the trio twin of the listener yields after every datagram and only through a cancel-shielded checkpoint while a datagram is held; the datagram queues have no capacity bound. Round 6: error_received() of the datagram listener protocol only logs: it stores nothing on the object and completes no future.",
    "note": "Trusted: task-group start_soon runs tasks in FIFO order; asyncio/trio deliver datagram callbacks in arrival order. Not decided: liveness in time ('eventually handled').",
    "technique": "typestate on the client state machine, atomic-section analysis with interprocedural may-suspend summaries, exit-obligation and API-discipline queries over the ast program database",
}
NOT_DECIDED = ["liveness: that queued datagrams are handled within bounded time", "fairness between clients under load"]

SRV = "lowlevel.api_async.servers.datagram"


def _stmt_at(fn, line):
    best = None
    for n in own_nodes(fn.node):
        if isinstance(n, ast.stmt) and getattr(n, "lineno", -1) == line:
            if best is None or not isinstance(n, (ast.Try, ast.With, ast.AsyncWith, ast.For, ast.If, ast.While)):
                best = n
    return best if best is not None else fn.node


def _noreturn(fn: FunctionInfo) -> bool:
    r = getattr(fn.node, "returns", None)
    return r is not None and "NoReturn" in ast.unparse(r)


class StateGuard(RuleAnalysis):
    """fact: 'unchecked' | 'pre:<expr>'; calls of NoReturn functions do not continue."""
    tokens = ("Exception",)

    def __init__(self, engine, attr: str):
        super().__init__(engine)
        self.attr = attr
        self.stores: list[tuple[ast.AST, str]] = []

    def initial(self, fn):
        return ["unchecked"]

    def may_raise(self, node, fact):
        return []

    def transfer(self, node, fact):
        if isinstance(node, ast.Call):
            tg = [t for t in self.targets(node, dispatch=False) if isinstance(t, FunctionInfo)]
            if tg and all(_noreturn(t) for t in tg):
                return []  # NoReturn: no normal continuation
        if isinstance(node, ast.Assign) and any(dotted(t) == self.attr for t in node.targets):
            self.stores.append((node, fact))
        return [fact]

    def branch(self, test, fact):
        if isinstance(test, ast.Compare) and len(test.ops) == 1 and dotted(test.left) == self.attr:
            pre = ast.unparse(test.comparators[0])
            if isinstance(test.ops[0], ast.IsNot):
                return [fact], [f"pre:{pre}"]
            if isinstance(test.ops[0], ast.Is):
                return [f"pre:{pre}"], [fact]
        return [fact], [fact]


def check_state(eng, run):
    cd = eng.db.cls(f"{SRV}._ClientData")
    mattr = mangle(cd.name, "__state")
    stores = cd.field_values.get(mattr, [])
    writers = {f for f, _ in stores if f is not None}
    run.floor("C16.state writers of the client state", len(writers), 4)
    transitions = set()
    ok_all = True
    for fn in sorted(writers, key=lambda f: f.lineno):
        if fn.name == "__init__":
            continue
        an = StateGuard(eng, f"{fn.self_name}.__state")
        Interp(an, fn).run()
        for node, fact in an.stores:
            post = ast.unparse(node.value)
            if not fact.startswith("pre:"):
                ok_all = False
                run.finding("C16.state", fn, node, "store to the per-client state that is not dominated by a test of the required predecessor state (an inconsistent transition would go unnoticed and two handlers could run)")
            else:
                pre_s, post_s = fact[4:].split(".")[-1], post.split(".")[-1]
                ps = [a.arg for a in fn.params()]
                if pre_s in ps and post_s in ps:
                    # one parameterised transition function (`__switch(expected=..., new=...)`): the transitions are its call sites
                    pos = ps[1:] if fn.self_name else ps
                    for m in cd.methods.values():
                        if isinstance(m.node, ast.Lambda) or m is fn:
                            continue
                        for c in own_nodes(m.node):
                            if isinstance(c, ast.Call) and isinstance(c.func, ast.Attribute) and mangle(cd.name, c.func.attr) == mangle(cd.name, fn.name) and dotted(c.func.value) == m.self_name:
                                env = {pos[i]: ast.unparse(a) for i, a in enumerate(c.args) if i < len(pos)}
                                env.update({k.arg: ast.unparse(k.value) for k in c.keywords if k.arg})
                                if pre_s in env and post_s in env:
                                    transitions.add((env[pre_s].split(".")[-1], env[post_s].split(".")[-1]))
                else:
                    transitions.add((pre_s, post_s))
        run.ob("C16.state", f"{fn.short}:guarded-store", all(f.startswith("pre:") for _, f in an.stores) and bool(an.stores))
    want = {("None", "TASK_PENDING"), ("TASK_PENDING", "TASK_RUNNING"), ("TASK_RUNNING", "None")}
    if transitions != want and ok_all:
        run.finding("C16.state", next(iter(writers)), cd.node, f"state transitions {sorted(transitions)} differ from the cycle None->PENDING->RUNNING->None")
    run.ob("C16.state", "_ClientData:transition-cycle", transitions == want, transitions=sorted(transitions))
    # no writer outside the class
    outside = []
    for fn in eng.db.all_functions():
        if fn.cls is cd:
            continue
        for n in own_nodes(fn.node):
            if isinstance(n, (ast.Assign, ast.AugAssign)):
                tg = n.targets if isinstance(n, ast.Assign) else [n.target]
                if any(isinstance(t, ast.Attribute) and t.attr in (mattr, "_ClientData__state") for t in tg):
                    outside.append((fn, n))
    for fn, n in outside:
        run.finding("C16.state", fn, n, "client state written outside its three transition functions")
    run.ob("C16.state", "_ClientData:no-foreign-writer", not outside)


def _is_call_named(node, names):
    c = call_of(node)
    if c is None:
        return False
    nm = c.func.attr if isinstance(c.func, ast.Attribute) else getattr(c.func, "id", "")
    return nm in names or any(nm.endswith(x) for x in names)


def _mentions(node, text):
    c = call_of(node)
    if c is None:
        return False
    return any(text in ast.unparse(a) for a in list(c.args) + [k.value for k in c.keywords])


def check_single_and_atomic(eng, run):
    db = eng.db
    srv = db.cls(f"{SRV}.AsyncDatagramServer")
    serve = srv.methods["serve"]
    handler = serve.nested.get("handler")
    if handler is None:
        raise AnalysisError("anchor vanished: AsyncDatagramServer.serve.<locals>.handler")
    cc = srv.methods.get(mangle(srv.name, "__client_coroutine")) or srv.methods.get("__client_coroutine")
    hook = srv.methods.get(mangle(srv.name, "__on_client_coroutine_task_done")) or srv.methods.get("__on_client_coroutine_task_done")
    if cc is None or hook is None:
        raise AnalysisError("anchor vanished: __client_coroutine / __on_client_coroutine_task_done")
    cd = db.cls(f"{SRV}._ClientData")

    def starts_client(node):
        c = call_of(node)
        return c is not None and "__client_coroutine" in ast.unparse(c) and not _is_call_named(node, {"mark_pending"})

    # C16.single: mark_pending() immediately (no suspension) before every start of the client coroutine
    for fn in (handler, hook):
        an = AtomicSection(eng, lambda n: _is_call_named(n, {"mark_pending"}), starts_client)
        Interp(an, fn).run()
        if not an.ends:
            if fn is handler:
                run.finding("C16.single", fn, fn.node, "the per-datagram task never starts the client coroutine: datagrams are queued but not handled")
                run.ob("C16.single", f"{fn.short}:mark_pending-then-start", False, starts=0)
            continue  # (for the hook, C16.restart reports a missing restart)
        bad = [nd for nd, st in an.ends if st != "armed"]
        for nd in bad[:1]:
            run.finding("C16.single", fn, _stmt_at(fn, nd.lineno), "a client task is started without mark_pending() of that client immediately before (no suspension in between): two handler generators can become active for one client")
        run.ob("C16.single", f"{fn.short}:mark_pending-then-start", not bad, starts=len(an.ends))
    # client coroutine: mark_running before its first await
    an = AtomicSection(eng, None, lambda n: _is_call_named(n, {"mark_running"}), armed_at_entry=True)
    Interp(an, cc).run()
    ok = bool(an.ends) and all(st == "armed" for _, st in an.ends)
    if not ok:
        run.finding("C16.single", cc, an.breaks[0] if an.breaks else cc.node, "the client task suspends before mark_running(): an arrival in that window sees PENDING and relies on a task that has not taken over yet")
    run.ob("C16.single", f"{cc.short}:mark_running-first", ok)

    # task-done hook on every exit of the client coroutine
    class HookOnExit(RuleAnalysis):
        tokens = ("Exception", CANCELLED, "BaseException")

        def initial(self, fn):
            return ["no"]

        def transfer(self, node, fact):
            if _is_call_named(node, {"__on_client_coroutine_task_done"}):
                return ["yes"]
            if _is_call_named(node, {"mark_running"}):
                return ["armed"] if fact == "no" else [fact]
            return [fact]

        def raise_fact(self, node, fact, token):
            if _is_call_named(node, {"__on_client_coroutine_task_done"}):
                return ["yes"]
            return [fact]

        def may_raise(self, node, fact):
            if _is_call_named(node, {"mark_running"}):
                return []  # failing the state check means the task never took over
            return super().may_raise(node, fact)

    ha = HookOnExit(eng)
    out = Interp(ha, cc).run()
    bad = [(k, tr) for k, m in [("return", out.ret)] + [(t, m) for t, m in out.exc.items()] for f, tr in m.items() if f == "armed"]
    for k, tr in bad[:1]:
        run.finding("C16.single", cc, _stmt_at(cc, tr[-1]) if tr else cc.node, f"exit ({k}) of the client task without running the task-done hook: the client stays RUNNING for ever and its queued datagrams are stranded", tr)
    run.ob("C16.single", f"{cc.short}:hook-on-every-exit", not bad)

    # C16.single: the precondition of mark_pending() (state is None, from C16.state) is *established* at every call site
    class Pre(RuleAnalysis):
        tokens = ("Exception", CANCELLED)

        def __init__(self, e):
            super().__init__(e)
            self.viol = []
            self.calls = 0

        def initial(self, f):
            return ["?"]

        def may_raise(self, node, fact):
            if isinstance(node, ast.Await):
                return list(self.tokens)
            return []

        def transfer(self, node, fact):
            if isinstance(node, ast.Await) or (isinstance(node, (WithEnter, WithExit)) and node.is_async):
                if self.engine.summaries.atom_may_suspend(self.fn, node):
                    return ["?"]
            if _is_call_named(node, {"mark_done"}) and isinstance(node, ast.Call):
                return ["none"]
            if _is_call_named(node, {"mark_pending"}) and isinstance(node, ast.Call):
                self.calls += 1
                if fact != "none":
                    self.viol.append(node)
                return ["pending"]
            return [fact]

        def branch(self, test, fact):
            if isinstance(test, ast.Compare) and len(test.ops) == 1 and isinstance(test.comparators[0], ast.Constant) and test.comparators[0].value is None:
                left = dotted(test.left) or ""
                if left.endswith(".state") or left == "state":
                    if isinstance(test.ops[0], ast.Is):
                        return ["none"], [fact if fact != "none" else "?"]
                    if isinstance(test.ops[0], ast.IsNot):
                        return [fact if fact != "none" else "?"], ["none"]
            if isinstance(test, ast.Name):
                return [fact], [fact]
            return [fact], [fact]

    for fn in (handler, hook):
        pa = Pre(eng)
        # a local caching the state (`state = client_data.state`) keeps the knowledge: handled through `state is None`
        Interp(pa, fn).run()
        for v in pa.viol[:1]:
            run.finding("C16.single", fn, _stmt_at(fn, v.lineno), "mark_pending() is called on a path that did not just establish that the client's state is None (a test `state is None` / mark_done() with no suspension since): with a task already PENDING or RUNNING the state machine raises and the whole server task group is torn down, or two handlers run")
        if pa.calls:
            run.ob("C16.single", f"{fn.short}:mark_pending-precondition-established", not pa.viol, calls=pa.calls)

    # C16.atomic (a): state test -> mark_pending without suspension
    def reads_state(node):
        if isinstance(node, TestAtom):
            return ".state" in ast.unparse(node.test)
        if isinstance(node, (ast.Assign, ast.AnnAssign)) and node.value is not None:
            return isinstance(node.value, ast.Attribute) and node.value.attr == "state"
        return False

    an = AtomicSection(eng, reads_state, lambda n: _is_call_named(n, {"mark_pending"}))
    Interp(an, handler).run()
    ok = bool(an.ends) and bool(an.starts) and all(st == "armed" for _, st in an.ends)
    if not an.starts:
        run.finding("C16.atomic", handler, handler.node, "the per-datagram task no longer reads the client state before deciding to start a task")
    for b in an.breaks[:1]:
        run.finding("C16.atomic", handler, _stmt_at(handler, b.lineno), "suspension point between the test of the client state and mark_pending(): two arrivals can both see `None` and start two tasks")
    if not ok and not an.breaks:
        run.finding("C16.atomic", handler, an.ends[0][0] if an.ends else handler.node, "mark_pending() is reached on a path that did not just test the client state")
    run.ob("C16.atomic", f"{handler.short}:check-then-mark", ok)
    # (b) the hook is synchronous
    sync_ok = not hook.is_async and not any(isinstance(n, (ast.Await, ast.Yield, ast.YieldFrom)) for n in own_nodes(hook.node))
    if not sync_ok:
        run.finding("C16.atomic", hook, hook.node, "the task-done hook can suspend between mark_done(), the emptiness test and the restart: an arrival in between either starts a second task or is stranded")
    run.ob("C16.atomic", f"{hook.short}:synchronous", sync_ok)
    # (c) push_datagram appends before its first await; handler reaches push_datagram without suspending
    push = cd.methods.get("push_datagram")
    if push is None:
        raise AnalysisError("anchor vanished: _ClientData.push_datagram")
    from sa.analyses.buffers import through_local

    def queues_it(n):
        if not _is_call_named(n, {"append"}):
            return False
        recv = call_of(n).func.value
        return "_datagram_queue" in ast.unparse(through_local(push, recv))  # the deque itself or a local alias of it

    an = AtomicSection(eng, None, queues_it, armed_at_entry=True)
    Interp(an, push).run()
    ok = bool(an.ends) and all(st == "armed" for _, st in an.ends)
    if not ok:
        run.finding("C16.atomic", push, an.breaks[0] if an.breaks else push.node, "the datagram is queued after a suspension point: arrival order is no longer queue order")
    run.ob("C16.atomic", f"{push.short}:append-before-await", ok)
    # (d) the queue length push_datagram returns (the per-datagram task decides on it whether to start a client task) is read
    # after its last suspension point: a count taken before the notify can describe datagrams already consumed
    def reads_queue_len(n):
        return isinstance(n, ast.Call) and isinstance(n.func, ast.Name) and n.func.id == "len" and len(n.args) == 1 \
            and "_datagram_queue" in ast.unparse(through_local(push, n.args[0]))

    rets = [n for n in own_nodes(push.node) if isinstance(n, ast.Return) and n.value is not None and any(reads_queue_len(x) for x in ast.walk(through_local(push, n.value)))]
    if rets:
        an = AtomicSection(eng, reads_queue_len, lambda n: n in rets)
        Interp(an, push).run()
        ok = bool(an.ends) and all(st == "armed" for _, st in an.ends)
        if not ok:
            run.finding("C16.atomic", push, an.breaks[0] if an.breaks else rets[0], "the queue length returned by push_datagram() is read before a suspension point: by the time the per-datagram task acts on it the running handler may have consumed the queue, and a second client task is started on an empty queue")
        run.ob("C16.atomic", f"{push.short}:returned-length-is-fresh", ok, returns=len(rets))
    an = AtomicSection(eng, None, lambda n: _is_call_named(n, {"push_datagram"}), armed_at_entry=True)
    Interp(an, handler).run()
    ok = bool(an.ends) and all(st == "armed" for _, st in an.ends)
    if not ok:
        run.finding("C16.atomic", handler, an.breaks[0] if an.breaks else handler.node, "the per-datagram task suspends before queuing its datagram: a later datagram can be queued first")
    run.ob("C16.atomic", f"{handler.short}:queue-before-await", ok)

    # C16.restart
    class Restart(RuleAnalysis):
        tokens = ("Exception",)

        def initial(self, fn):
            return [frozenset()]

        def may_raise(self, node, fact):
            return []

        def transfer(self, node, fact):
            if _is_call_named(node, {"start_soon", "start"}) or (isinstance(node, ast.Call) and "start_soon" in ast.unparse(node) and "__client_coroutine" in ast.unparse(node)):
                return [fact | {"spawned"}]
            if _is_call_named(node, {"mark_pending"}):
                return [fact | {"pending"}]
            return [fact]

        def branch(self, test, fact):
            t = test
            neg = False
            while isinstance(t, ast.UnaryOp) and isinstance(t.op, ast.Not):
                neg = not neg
                t = t.operand
            if isinstance(t, ast.Call) and isinstance(t.func, ast.Attribute) and t.func.attr == "queue_is_empty":
                tr, fl = [fact | {"empty"}], [fact]
                return (fl, tr) if neg else (tr, fl)
            return [fact], [fact]

    ra = Restart(eng)
    out = Interp(ra, hook).run()
    bad = [(f, tr) for f, tr in out.ret.items() if not ("empty" in f or ("spawned" in f and "pending" in f))]
    for f, tr in bad[:1]:
        run.finding("C16.restart", hook, _stmt_at(hook, tr[-1]) if tr else hook.node, "the task-done hook can return with a non-empty queue and no new task: the queued datagrams are stranded until another datagram arrives (or for ever)", tr)
    run.ob("C16.restart", f"{hook.short}:restart-if-non-empty", not bad, exits=len(out.ret))
    # the empty exit leaves the state None (mark_done precedes the emptiness test)
    an = AtomicSection(eng, lambda n: _is_call_named(n, {"mark_done"}), lambda n: _is_call_named(n, {"queue_is_empty"}))
    Interp(an, hook).run()
    ok = bool(an.ends) and all(st == "armed" for _, st in an.ends)
    if not ok:
        run.finding("C16.restart", hook, hook.node, "mark_done() does not precede the emptiness test: on the empty path the state is not None and the next arrival starts no task")
    run.ob("C16.restart", f"{hook.short}:mark_done-first", ok)


def check_fifo(eng, run):
    db = eng.db
    n = 0
    allowed = {"append", "popleft", "clear", "__len__", "__bool__"}
    queues = [("_ClientData", "_datagram_queue", f"{SRV}"), ("DatagramListenerProtocol", "__delayed_datagrams_queue", "lowlevel.api_async.backend._asyncio.datagram.listener")]
    for cname, attr, mod in queues:
        ci = db.cls(f"{mod}.{cname}")
        uses = []
        for fn in db.all_functions():
            for x in own_nodes(fn.node):
                if isinstance(x, ast.Call) and isinstance(x.func, ast.Attribute) and isinstance(x.func.value, ast.Attribute) and x.func.value.attr in (attr, mangle(cname, attr)):
                    uses.append((fn, x))
                # aliased: queue = self._datagram_queue ; queue.popleft()
        alias_calls = []
        for fn in ci.methods.values():
            aliases = {t.id for x in own_nodes(fn.node) if isinstance(x, (ast.Assign, ast.AnnAssign)) and isinstance(getattr(x, "value", None), ast.Attribute) and x.value.attr == attr
                       for t in (x.targets if isinstance(x, ast.Assign) else [x.target]) if isinstance(t, ast.Name)}
            for x in own_nodes(fn.node):
                if isinstance(x, ast.Call) and isinstance(x.func, ast.Attribute) and isinstance(x.func.value, ast.Name) and x.func.value.id in aliases:
                    alias_calls.append((fn, x))
        bad = [(fn, x) for fn, x in uses + alias_calls if x.func.attr not in allowed]
        for fn, x in bad:
            run.finding("C16.fifo", fn, _stmt_at(fn, x.lineno), f"queue `{attr}` touched through `{x.func.attr}`: only append (right) and popleft keep arrival order")
        n += len(uses) + len(alias_calls)
        has_both = {x.func.attr for _, x in uses + alias_calls} >= {"append", "popleft"}
        if not has_both:
            # name the function that iterates / indexes the queue instead of draining it
            culprit = None
            for fn in ci.methods.values():
                for x in own_nodes(fn.node):
                    if isinstance(x, (ast.For, ast.AsyncFor)) and attr.strip("_") in ast.unparse(x.iter):
                        culprit = (fn, x)
            cf, cn = culprit if culprit else (next(iter(ci.methods.values())), ci.node)
            run.finding("C16.fifo", cf, cn, f"queue `{attr}` is no longer drained with popleft (appended on the right, removed on the left): queued datagrams are never removed - they are delivered again on the next serve() / grow without bound")
        run.ob("C16.fifo", f"{cname}.{attr}:append/popleft-only", not bad and has_both, uses=len(uses) + len(alias_calls))
    run.floor("C16.fifo queue use sites", n, 3)
    # datagram_received hands each datagram on exactly once, in callback order
    for cname, mod in (("DatagramListenerProtocol", "lowlevel.api_async.backend._asyncio.datagram.listener"),):
        ci = db.cls(f"{mod}.{cname}")
        fn = ci.methods["datagram_received"]

        class Once(RuleAnalysis):
            tokens = ("Exception",)

            def initial(self, f):
                return [0]

            def may_raise(self, node, fact):
                return []

            def transfer(self, node, fact):
                if isinstance(node, ast.Call) and isinstance(node.func, ast.Attribute) and node.func.attr in ("append", "handle", "start_soon", "put_nowait"):
                    return [min(fact + 1, 2)]
                return [fact]

        out = Interp(Once(eng), fn).run()
        ok = set(out.ret) == {1}
        if not ok:
            run.finding("C16.fifo", fn, fn.node, f"a received datagram is handed on {sorted(out.ret)} times on some path (must be exactly once)")
        run.ob("C16.fifo", f"{fn.short}:exactly-once", ok)
    # the serve context starts one task per datagram, no sorting / batching
    ctx = db.cls("lowlevel.api_async.backend._asyncio.datagram.listener._DatagramListenerServeContext")
    h = ctx.methods.get("handle")
    if h is None:
        raise AnalysisError("anchor vanished: _DatagramListenerServeContext.handle")
    spawns = [x for x in own_nodes(h.node) if isinstance(x, ast.Call) and isinstance(x.func, ast.Attribute) and x.func.attr == "start_soon"]
    ok = len(spawns) == 1 and not any(isinstance(x, (ast.For, ast.While)) for x in own_nodes(h.node))
    if ok:
        # ... unconditionally, and the task carries this very datagram (both parameters of handle() are handed to start_soon):
        # a shared dispatcher task would serialise clients - the first client's long-lived handler blocks everybody behind it
        sp = spawns[0]
        top_level = any(isinstance(st, ast.Expr) and st.value is sp for st in h.node.body)
        ps = [a.arg for a in h.params()][1:]
        carries = all(any(isinstance(a, ast.Name) and a.id == p_ for a in sp.args) for p_ in ps) and len(ps) >= 2
        ok = top_level and carries
    if not ok:
        run.finding("C16.fifo", h, h.node, "the listener no longer starts exactly one task per datagram, unconditionally and carrying that datagram, in callback order: "
                    "datagrams funnelled through a shared dispatcher wait behind the first client's handler (cross-client blocking)")
    run.ob("C16.fifo", f"{h.short}:one-task-per-datagram", ok)
    # drain of delayed datagrams is in order: `while queue: handle(*queue.popleft())`
    # C16.iso: per-client condition variable
    cd = db.cls(f"{SRV}._ClientData")
    st = cd.field_values.get("_queue_condition", [])
    ok = len(st) == 1 and st[0][0] is not None and st[0][0].name == "__init__" and isinstance(st[0][1], ast.Call) and "create_condition_var" in ast.unparse(st[0][1])
    if not ok:
        run.finding("C16.iso", cd.methods["__init__"], cd.node, "the queue condition is no longer created per client in the constructor: one slow client can block the others")
    run.ob("C16.iso", "_ClientData:per-client-condition", ok)


def check_handler_passthrough(eng, run):
    """the datagram listeners hand the per-datagram handler down unchanged, or through a wrapper that reaches the handler call without
    a suspension point: a wait on anything shared (a semaphore, a lock, a limiter) in front of the handler makes a datagram of
    one client wait for the handler generators of other clients - which run inside those very tasks for their whole life"""
    n = 0
    for fn in eng.db.all_functions():
        if isinstance(fn.node, ast.Lambda) or fn.name != "serve" or "datagram" not in fn.module.name or not any(a.arg == "handler" for a in fn.params()):
            continue
        n += 1
        passes = [c for c in own_nodes(fn.node) if isinstance(c, ast.Call) and any(isinstance(a, ast.Name) and a.id == "handler" for a in list(c.args) + [k.value for k in c.keywords])]
        wrappers = [g for g in fn.nested.values() if any(isinstance(c, ast.Call) and isinstance(c.func, ast.Name) and c.func.id == "handler" for c in own_nodes(g.node))]
        lambdas = [x for x in own_nodes(fn.node) if isinstance(x, ast.Lambda) and any(isinstance(c, ast.Name) and c.id == "handler" for c in ast.walk(x.body))]
        ok = True
        for g in wrappers:
            an = AtomicSection(eng, None, lambda x: isinstance(x, ast.Call) and isinstance(x.func, ast.Name) and x.func.id == "handler", armed_at_entry=True)
            Interp(an, g).run()
            good = bool(an.ends) and all(st == "armed" for _, st in an.ends)
            if not good:
                ok = False
                run.finding("C16.iso", g, an.breaks[0] if an.breaks else g.node, "the per-datagram handler is wrapped and the wrapper can suspend before it runs the handler (a shared semaphore / lock / limiter): the first datagram "
                            "of a client runs that client's whole handler generator inside its task, so datagrams of other clients wait for unrelated handlers to finish - slow handling of one client blocks the others")
        if not passes and not wrappers and not lambdas:
            raise AnalysisError(f"anchor vanished: {fn.qualname} no longer hands its handler on")
        run.ob("C16.iso", f"{fn.module.name.split('.')[-3]}.{fn.short}:handler-reached-without-shared-wait", ok, wrappers=len(wrappers), direct=len(passes))
    run.floor("C16.iso datagram listener serve() implementations", n, 2)


def check_trio_listener(eng, run):
    """the trio twin of the datagram listener (decided from its source although the sandbox cannot run trio): the receive loop yields
    to the scheduler after *every* datagram (`always_yield=True`: tasks started back-to-back in one scheduler batch have no defined
    order), and that yield - taken while the datagram is held in a local - is a shielded one (`cancel_shielded_checkpoint`): a plain
    checkpoint is a cancellation point, and a datagram already taken from the socket would be dropped there"""
    lst = eng.db.modules.get("easynetwork.lowlevel.api_async.backend._trio.datagram.listener")
    util = eng.db.modules.get("easynetwork.lowlevel.api_async.backend._trio._trio_utils")
    if lst is None or util is None:
        return
    n = 0
    for fn in [f for c in lst.classes.values() for f in c.methods.values() if f.name == "serve"]:
        for c in own_nodes(fn.node):
            if isinstance(c, ast.Call) and (dotted(c.func) or "").split(".")[-1].lstrip("_") == "retry_socket_method":
                n += 1
                kw = next((k.value for k in c.keywords if k.arg == "always_yield"), None)
                ok = isinstance(kw, ast.Constant) and kw.value is True
                if not ok:
                    run.finding("C16.fifo", fn, c, "the trio datagram listener no longer yields after every datagram: several readable datagrams are turned into tasks back-to-back in one scheduler batch, "
                                "whose execution order trio does not define - a client's datagrams can be handled out of arrival order")
                run.ob("C16.fifo", f"trio.{fn.short}:yields-after-every-datagram", ok)
    rs = util.functions.get("retry_socket_method")
    if rs is not None:
        aliases = {}
        for st in util.tree.body:
            if isinstance(st, ast.ImportFrom):
                for a in st.names:
                    aliases[a.asname or a.name] = a.name
        rets = [r for r in own_nodes(rs.node) if isinstance(r, ast.Return) and isinstance(r.value, ast.Name)]
        res = {r.value.id for r in rets}
        bad = []
        for t in [x for x in own_nodes(rs.node) if isinstance(x, ast.Try)]:
            if any(isinstance(a, (ast.Assign, ast.AnnAssign)) and any(isinstance(tg, ast.Name) and tg.id in res for tg in (a.targets if isinstance(a, ast.Assign) else [a.target])) for b in t.body for a in ast.walk(b)):
                for aw in [x for st in t.orelse for x in ast.walk(st) if isinstance(x, ast.Await)]:
                    nm = (dotted(aw.value.func) if isinstance(aw.value, ast.Call) else "") or ""
                    real = aliases.get(nm.split(".")[-1], nm.split(".")[-1])
                    if "shielded" not in real:
                        bad.append(aw)
                n += 1
        for aw in bad[:1]:
            run.finding("C16.fifo", rs, _stmt_at(rs, aw.lineno), "the yield taken after a successful socket call - while its result is held in a local - is not cancel-shielded: a cancellation delivered there "
                        "drops a datagram that was already taken from the socket")
        run.ob("C16.fifo", "trio.retry_socket_method:result-held-only-across-a-shielded-yield", not bad)
    run.count("trio_listener_sites", n)


def check_nothing_dropped(eng, run):
    """a datagram taken out of a client's queue reaches the handler: no cancellable suspension point, raising call or exit while a local
    still holds it (hold typestate of C10, datagram semantics: an empty payload is a datagram)"""
    from rules import c10
    from sa.analyses.hold import HoldAnalysis
    from sa.report import RuleAlias
    n = 0
    for fn in eng.db.all_functions():
        if isinstance(fn.node, ast.Lambda) or not fn.is_async or not fn.module.name.startswith("easynetwork.lowlevel.api_async.servers.datagram"):
            continue
        probe = HoldAnalysis(eng)
        probe.fn = fn
        if not any(isinstance(x, ast.Call) and probe.is_source_call(x) for x in own_nodes(fn.node)):
            continue
        n += 1
        c10.check_hold(eng, RuleAlias(run, "C16.fifo"), fn, "C16.fifo")
    run.floor("C16.fifo datagram-server functions taking a datagram out of a queue", n, 2)


def check_listener_errors_only_logged(eng, run, rule="C16.iso"):
    """an asynchronous socket error reported to the *listening* UDP socket (`error_received`: the ICMP bounce of one vanished peer)
    concerns nobody in particular: the listener protocol only logs it.  It stores nothing on the object and completes no future -
    otherwise the error of one peer ends serve() for everybody, or is raised in whichever client sends next."""
    n = 0
    for fn in eng.db.all_functions():
        if fn.name != "error_received" or fn.cls is None or isinstance(fn.node, ast.Lambda) or "listener" not in fn.module.name:
            continue
        n += 1
        effects = []
        for x in own_nodes(fn.node):
            if isinstance(x, (ast.Assign, ast.AugAssign, ast.AnnAssign)):
                tg = x.targets if isinstance(x, ast.Assign) else [x.target]
                if any(isinstance(t, (ast.Attribute, ast.Subscript)) and (dotted(t.value if isinstance(t, ast.Attribute) else t.value) or "").split(".")[0] == fn.self_name for t in tg):
                    effects.append(x)
            if isinstance(x, ast.Call) and isinstance(x.func, ast.Attribute) and x.func.attr in ("set_exception", "set_result", "cancel", "set", "append", "appendleft", "put_nowait", "close", "abort", "call_soon"):
                effects.append(x)
            if isinstance(x, ast.Raise):
                effects.append(x)
        for e in effects[:1]:
            run.finding(rule, fn, e if isinstance(e, ast.stmt) else fn.node, f"error_received() of the datagram listener does more than log (`{ast.unparse(e)[:60]}`): an error caused by one peer (an ICMP bounce) "
                        "stops the dispatch for every client or is raised in another client's send")
        run.ob(rule, f"{fn.cls.name}.error_received:only-logs", not effects)
    run.floor(f"{rule} datagram listener error callbacks", n, 1)


def run(eng, run):
    from sa.anchors import verify as _verify_anchor_names
    _verify_anchor_names(eng, run)
    run.not_decided += NOT_DECIDED
    run.attempt(check_state, eng, run)
    run.attempt(check_single_and_atomic, eng, run)
    run.attempt(check_fifo, eng, run)
    run.attempt(check_handler_passthrough, eng, run)
    run.attempt(check_listener_errors_only_logged, eng, run)
    run.attempt(check_trio_listener, eng, run)
    from sa.analyses.sharing import check_unbounded_queues
    from sa.report import RuleAlias as _RA16
    run.attempt(check_unbounded_queues, eng, _RA16(run, "C16.fifo"), "C16.fifo", lambda m: "datagram" in m, 2)
    run.attempt(check_nothing_dropped, eng, run)
    run.end_of_rules()


# ---------------------------------------------------------------------------------------------- self-test corpus
from sa.mutate import (Variant, delete_stmt, insert_after, insert_before, rename_local, replace_expr, replace_stmt,  # noqa: E402
                       stmt_has, stmt_is)

_S = "lowlevel.api_async.servers.datagram:AsyncDatagramServer"
_H = _S + ".serve.<locals>.handler"
_CC = _S + ".__client_coroutine"
_HOOK = _S + ".__on_client_coroutine_task_done"
_CD = "lowlevel.api_async.servers.datagram:_ClientData"
_LP = "lowlevel.api_async.backend._asyncio.datagram.listener:DatagramListenerProtocol"


def _hook_async(fn):
    # make the hook a coroutine with a checkpoint between mark_done and the restart
    import ast as _a
    new = _a.AsyncFunctionDef(name=fn.name, args=fn.args, body=fn.body, decorator_list=fn.decorator_list, returns=fn.returns, type_comment=None, type_params=[])
    fn.__class__ = _a.AsyncFunctionDef
    insert_after(fn, stmt_is("client_data.mark_done()"), "await client_data.backend.coro_yield()")


MUTANTS = [
    Variant("handler-yield-before-mark-pending", _H, lambda fn: insert_before(fn, stmt_is("client_data.mark_pending()"), "await backend.coro_yield()"),
            "C16.atomic", why="two datagrams arriving together both see state None and start two generators"),
    Variant("hook-async-with-checkpoint", _HOOK, _hook_async, "C16.atomic", why="arrival between mark_done and restart"),
    Variant("queue-appendleft", _CD + ".push_datagram", lambda fn: replace_expr(fn, "self._datagram_queue.append", "self._datagram_queue.appendleft"), "C16.fifo"),
    Variant("hook-no-restart", _HOOK, lambda fn: (delete_stmt(fn, stmt_has("default_context.copy().run(")), delete_stmt(fn, stmt_is("client_data.mark_pending()"))),
            "C16.restart", why="datagrams queued while the handler ran are stranded"),
    Variant("mark-running-after-await", _CC,
            lambda fn: (delete_stmt(fn, stmt_is("client_data.mark_running()")), insert_before(fn, stmt_is("try:"), "await client_data.backend.coro_yield()\nclient_data.mark_running()")),
            "C16.single"),
    Variant("client-coroutine-hook-not-in-finally", _CC,
            lambda fn: replace_stmt(fn, stmt_is("try:"), "await self.__client_coroutine_inner_loop(request_handler_generator=datagram_received_cb(client_ctx), client_data=client_data)\nself.__on_client_coroutine_task_done(datagram_received_cb=datagram_received_cb, client_ctx=client_ctx, client_data=client_data, task_group=task_group, default_context=default_context)"),
            "C16.single", why="a failing handler leaves the client RUNNING for ever"),
    Variant("mark-pending-unguarded", _CD + ".mark_pending", lambda fn: delete_stmt(fn, stmt_is("if self.__state is not None")), "C16.state"),
    Variant("push-datagram-notify-before-append", _CD + ".push_datagram",
            lambda fn: (delete_stmt(fn, stmt_has("self._datagram_queue.append(datagram)")), insert_before(fn, stmt_is("return len("), "self._datagram_queue.append(datagram)")),
            "C16.atomic", why="the append happens after the condition wait: arrival order != queue order"),
    Variant("listener-drops-when-serving", _LP + ".datagram_received", lambda fn: replace_stmt(fn, stmt_has("datagram_serve_ctx.handle(data, addr)"), "pass"), "C16.fifo"),
    Variant("handler-start-without-mark-pending", _H, lambda fn: delete_stmt(fn, stmt_is("client_data.mark_pending()")), "C16.single"),
]

MUTANTS += [
    Variant("handler-starts-task-unless-running", _H, lambda fn: replace_expr(fn, "client_data.state is None", "client_data.state is not _ClientState.TASK_RUNNING"), "C16.single",
            why="a datagram arriving while a replacement task is PENDING calls mark_pending() again: RuntimeError tears the server down"),
    Variant("listener-iterates-delayed-queue", _LP + ".serve",
            lambda fn: replace_stmt(fn, stmt_is("while self.__delayed_datagrams_queue"), "for data, addr in self.__delayed_datagrams_queue:\n    self.__datagram_serve_ctx.handle(data, addr)"), "C16.fifo",
            why="datagrams received during set-up are delivered again on every later serve()"),
]

BENIGN = [
    Variant("handler-cache-state-local", _H,
            lambda fn: replace_stmt(fn, stmt_is("if client_data.state is None and nb_datagrams_in_queue > 0"),
                                    "state = client_data.state\nif state is None and nb_datagrams_in_queue > 0:\n    try:\n        client_ctx = client_ctx_cache[address]\n    except KeyError:\n        client_ctx_cache[address] = client_ctx = DatagramClientContext(address, self)\n    client_data.mark_pending()\n    await self.__client_coroutine(datagram_received_cb, client_ctx, client_data, task_group, default_context)"),
            why="state cached in a local right before the test"),
    Variant("hook-rename-param-use", _HOOK, lambda fn: insert_before(fn, stmt_is("client_data.mark_done()"), "data = client_data"), why="unrelated local"),
    Variant("push-rename", _CD + ".push_datagram", lambda fn: rename_local(fn, "queue_condition", "cond"), why="local renamed"),
]


_POP = "lowlevel.api_async.servers.datagram:_ClientData.pop_datagram"
_HANDLE = "lowlevel.api_async.backend._asyncio.datagram.listener:_DatagramListenerServeContext.handle"
MUTANTS += [
    Variant("pop-datagram-cancellable-checkpoint-after-the-pop", _POP,
            lambda fn: replace_stmt(fn, stmt_has("return queue.popleft()"), "datagram = queue.popleft()\nawait self.__backend.coro_yield()\nreturn datagram"), "C16.fifo",
            why="a yielded timeout of 0 with a datagram already queued loses that datagram (seed C16-4)"),
    Variant("listener-funnels-datagrams-through-one-dispatcher", _HANDLE,
            lambda fn: setattr(fn, "body", ast.parse("self.pending.append((data, addr))\nif len(self.pending) == 1:\n    self.task_group.start_soon(self._dispatch_pending)").body), "C16.fifo",
            why="the first client's long-lived handler blocks every datagram behind it (seed C16-6)"),
]
