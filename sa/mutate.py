"""AST-computed variants of the current tree for the self-test corpora (DESIGN.md section 7).

A variant is described by the file, the qualified function it edits and an edit callback working on the
function's AST (located through the same names/roles the rules use, never through line numbers).  The whole
module is unparsed again and handed to the program database as an *overlay*: nothing is written to disk.
"""
from __future__ import annotations

import ast
import copy
from dataclasses import dataclass
from typing import Callable


class MutationError(Exception):
    pass


@dataclass
class Variant:
    name: str
    fn: str  # "lowlevel.x.y:Class.method" or "...:func.<locals>.inner" (module path relative to easynetwork)
    edit: Callable[[ast.AST], None]
    expect: str | None = None  # rule id (prefix) that must report; None for benign twins
    expect_fn: str | None = None  # function that must be named by the finding (default: the edited one)
    why: str = ""
    also: list | None = None  # further (fn, edit) pairs applied in the same variant


def _defs(node: ast.AST):
    todo = list(ast.iter_child_nodes(node))
    while todo:
        n = todo.pop(0)
        if isinstance(n, (ast.FunctionDef, ast.AsyncFunctionDef, ast.ClassDef)):
            yield n
        elif not isinstance(n, ast.Lambda):
            todo = list(ast.iter_child_nodes(n)) + todo


def locate(tree: ast.Module, qual: str) -> ast.AST:
    parts = [p for p in qual.split(".") if p != "<locals>"]
    node: ast.AST = tree
    for p in parts:
        found = [d for d in _defs(node) if d.name == p]
        if not found:
            raise MutationError(f"cannot locate {qual} (component {p})")
        node = found[-1]  # the last definition (implementation after @overload stubs)
    return node


def build_overlay(repo_src_reader, variant: Variant) -> dict[str, str]:
    overlay: dict[str, str] = {}
    jobs = [(variant.fn, variant.edit)] + list(variant.also or [])
    for fnq, edit in jobs:
        modpath, _, qual = fnq.partition(":")
        rel = "src/easynetwork/" + modpath.replace(".", "/") + ".py"
        src = overlay.get(rel) or repo_src_reader(rel)
        tree = ast.parse(src)
        node = locate(tree, qual)
        edit(node)
        ast.fix_missing_locations(tree)
        new = ast.unparse(tree)
        compile(new, rel, "exec")
        if ast.dump(ast.parse(new)) == ast.dump(ast.parse(src)):
            raise MutationError(f"variant {variant.name}: edit changed nothing in {fnq}")
        overlay[rel] = new
    return overlay


# ------------------------------------------------------------------------------------------------ edit helpers
def walk_stmts(node: ast.AST):
    """Yield (container_list, index, stmt) for every statement below node (not entering nested defs)."""
    for fieldname in ("body", "orelse", "finalbody"):
        lst = getattr(node, fieldname, None)
        if isinstance(lst, list):
            for i, st in enumerate(list(lst)):
                if isinstance(st, ast.stmt):
                    yield lst, i, st
                    if not isinstance(st, (ast.FunctionDef, ast.AsyncFunctionDef, ast.ClassDef)):
                        yield from walk_stmts(st)
    for h in getattr(node, "handlers", []) or []:
        yield from walk_stmts(h)
    for c in getattr(node, "cases", []) or []:
        yield from walk_stmts(c)


def find_stmt(node: ast.AST, pred, nth: int = 0):
    k = 0
    for lst, i, st in walk_stmts(node):
        if pred(st):
            if k == nth:
                return lst, lst.index(st), st
            k += 1
    raise MutationError(f"statement not found (nth={nth})")


def src(n: ast.AST) -> str:
    return ast.unparse(n)


def stmt_is(text: str):
    """Predicate: the statement's first line, unparsed, starts with `text`."""
    return lambda st: src(st).split("\n")[0].strip().startswith(text)


def stmt_has(text: str):
    return lambda st: text in src(st).split("\n")[0] and not isinstance(st, (ast.FunctionDef, ast.AsyncFunctionDef, ast.ClassDef))


def delete_stmt(node: ast.AST, pred, nth: int = 0) -> None:
    lst, i, st = find_stmt(node, pred, nth)
    if len(lst) == 1:
        lst[i] = ast.Pass()
    else:
        del lst[i]


def replace_stmt(node: ast.AST, pred, new_src: str, nth: int = 0) -> None:
    lst, i, st = find_stmt(node, pred, nth)
    lst[i : i + 1] = ast.parse(new_src).body


def insert_after(node: ast.AST, pred, new_src: str, nth: int = 0) -> None:
    lst, i, st = find_stmt(node, pred, nth)
    lst[i + 1 : i + 1] = ast.parse(new_src).body


def insert_before(node: ast.AST, pred, new_src: str, nth: int = 0) -> None:
    lst, i, st = find_stmt(node, pred, nth)
    lst[i:i] = ast.parse(new_src).body


def find_handler(node: ast.AST, type_text: str, nth: int = 0) -> ast.ExceptHandler:
    hs = [n for n in ast.walk(node) if isinstance(n, ast.ExceptHandler) and (src(n.type) if n.type is not None else "") == type_text]
    hs.sort(key=lambda n: (n.lineno, n.col_offset))  # source order
    if nth < len(hs):
        return hs[nth]
    raise MutationError(f"handler `except {type_text}` #{nth} not found")


def set_handler_type(node: ast.AST, type_text: str, new_type: str, nth: int = 0) -> None:
    h = find_handler(node, type_text, nth)
    h.type = ast.parse(new_type, mode="eval").body


def replace_expr(node: ast.AST, old_text: str, new_text: str, nth: int = 0, count: int = 1) -> None:
    """Replace the nth.. sub-expression whose unparsed text equals old_text."""
    new = ast.parse(new_text, mode="eval").body
    hits = 0
    done = 0

    class R(ast.NodeTransformer):
        def generic_visit(self, n):
            nonlocal hits, done
            if isinstance(n, ast.expr) and done < count:
                try:
                    t = ast.unparse(n)
                except Exception:
                    t = None
                if t == old_text:
                    if hits >= nth:
                        done += 1
                        hits += 1
                        return copy.deepcopy(new)
                    hits += 1
            return super().generic_visit(n)

    R().visit(node)
    if not done:
        raise MutationError(f"expression `{old_text}` not found")


def rename_local(node: ast.AST, old: str, new: str) -> None:
    n_hits = 0
    for n in ast.walk(node):
        if isinstance(n, ast.Name) and n.id == old:
            n.id = new
            n_hits += 1
        elif isinstance(n, ast.arg) and n.arg == old:
            n.arg = new
            n_hits += 1
        elif isinstance(n, (ast.Nonlocal, ast.Global)):
            n.names = [new if x == old else x for x in n.names]
        elif isinstance(n, ast.ExceptHandler) and n.name == old:
            n.name = new
            n_hits += 1
    if not n_hits:
        raise MutationError(f"local `{old}` not found")
