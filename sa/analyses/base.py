"""Common helpers for flow rules: call resolution on atoms and the cannot-raise refinement of the default policy."""
from __future__ import annotations

import ast
from typing import Any, Iterable

from ..db import FunctionInfo, dotted
from ..exc import CANCELLED
from ..flow import Analysis, ForIter, WithEnter, WithExit, call_of
from ..tables import CANNOT_RAISE, CANNOT_RAISE_METHODS, REPO_CANNOT_RAISE


LOGGING_METHODS = {"debug", "info", "warning", "error", "exception", "critical", "log", "isEnabledFor"}
_PURE_BUILTINS = {"isinstance", "callable", "getattr", "hasattr", "len", "bool", "type", "issubclass", "all", "any"}


def _pure_predicate(g: FunctionInfo) -> bool:
    """no await / yield / raise / with / try, every call is a side-effect-free builtin: the function can only return a value"""
    if isinstance(g.node, ast.Lambda) or g.is_async or g.is_generator:
        return False
    for n in ast.walk(g.node):
        if isinstance(n, (ast.Raise, ast.With, ast.Try, ast.Await, ast.Yield, ast.YieldFrom, ast.Assert, ast.Delete, ast.Global, ast.Nonlocal)):
            return False
        if isinstance(n, ast.Call) and not (isinstance(n.func, ast.Name) and n.func.id in _PURE_BUILTINS):
            return False
    return True


class RuleAnalysis(Analysis):
    def __init__(self, engine) -> None:
        super().__init__(engine.lattice)
        self.engine = engine
        self.db = engine.db
        self.typer = engine.typer
        self._tcache: dict[int, list] = {}

    def targets(self, call: ast.Call | None, dispatch: bool = True) -> list[Any]:
        if call is None or self.fn is None:
            return []
        key = (id(call), dispatch)
        if key not in self._tcache:
            self._tcache[key] = self.typer.call_targets(self.fn, call, dispatch=dispatch)
        return self._tcache[key]

    def target_names(self, call: ast.Call | None) -> list[str]:
        out = []
        for t in self.targets(call):
            out.append(t if isinstance(t, str) else getattr(t, "qualname", str(t)))
        return out

    def receiver_types(self, call: ast.Call | None) -> list:
        if call is None or not isinstance(call.func, ast.Attribute) or self.fn is None:
            return []
        return self.typer.expr_types(self.fn, call.func.value)

    def cannot_raise(self, node: Any) -> bool:
        call = call_of(node)
        if call is None:
            return False
        if isinstance(node, ast.Await):
            return False
        tg = self.targets(call)
        if tg:
            ok = True
            for t in tg:
                if isinstance(t, str):
                    if t not in CANNOT_RAISE:
                        ok = False
                elif isinstance(t, FunctionInfo):
                    q = t.qualname.replace("easynetwork.", "", 1)
                    if q not in REPO_CANNOT_RAISE:
                        ok = False
                else:
                    ok = False
            if ok:
                return True
        if isinstance(call.func, ast.Attribute) and call.func.attr in CANNOT_RAISE_METHODS:
            return True
        # logging: `logger.debug(...)`, `self.__logger.warning(...)`, `logger.isEnabledFor(...)` (trusted: the logging module reports its own
        # failures through its error handler, it does not raise into the caller)
        if isinstance(call.func, ast.Attribute) and call.func.attr in LOGGING_METHODS and "logger" in (dotted(call.func.value) or "").lower():
            return True
        # a private, pure predicate of the same module (`_is_transport_like(x)`: attribute look-ups, isinstance / callable / getattr only)
        if isinstance(call.func, ast.Name) and call.func.id.startswith("_") and self.fn is not None:
            g = self.fn.module.functions.get(call.func.id)
            if g is not None and _pure_predicate(g):
                return True
        return False

    SILENT_CMS = ("suppress", "nullcontext", "ExitStack", "AsyncExitStack", "closing")

    def may_raise(self, node: Any, fact) -> Iterable[str]:
        if self.cannot_raise(node):
            return []
        if isinstance(node, (WithEnter, WithExit)) and isinstance(node.item.context_expr, ast.Call) \
                and (dotted(node.item.context_expr.func) or "").split(".")[-1] == "suppress":
            return []  # entering / leaving contextlib.suppress() runs no code that can fail
        return super().may_raise(node, fact)


def is_name(e: ast.AST | None, name: str) -> bool:
    if "." in name:
        return isinstance(e, ast.Attribute) and dotted(e) == name  # a field of a local record (`race.winner`)
    return isinstance(e, ast.Name) and e.id == name


def none_test(test: ast.AST) -> tuple[str, bool] | None:
    """`x is None` -> (x, True) ; `x is not None` -> (x, False) ; also handles `not (...)`."""
    if isinstance(test, ast.UnaryOp) and isinstance(test.op, ast.Not):
        r = none_test(test.operand)
        return (r[0], not r[1]) if r else None
    if isinstance(test, ast.Compare) and len(test.ops) == 1 and isinstance(test.comparators[0], ast.Constant) and test.comparators[0].value is None:
        d = dotted(test.left)
        if d is None:
            return None
        if isinstance(test.ops[0], ast.Is):
            return (d, True)
        if isinstance(test.ops[0], ast.IsNot):
            return (d, False)
    return None
