"""Exception-escape (effect) analysis for the deserialisation paths (DESIGN.md C06.esc).

The may-raise set of an entry point is computed bottom-up from
  (a) explicit `raise` statements,
  (b) the summaries of resolved repository callees (recursively, per receiver class),
  (c) a frozen raise table for external decoders (input-dependent raises only),
filtered through the handlers on the way (exception-class lattice).  Handler classes and callables held in
attributes are resolved by write-once constant propagation through `__init__` (including keyword arguments
passed up by `super().__init__(...)` from the concrete subclass under analysis).
"""
from __future__ import annotations

import ast
from typing import Any, Iterable

from ..db import ClassInfo, FunctionInfo, dotted, mangle, own_nodes
from ..exc import CANCELLED, CODEC_ERROR, INT_DIGITS
from ..flow import Interp, call_of
from .base import RuleAnalysis

E = "easynetwork.exceptions."
DESER = E + "DeserializeError"
INCR = E + "IncrementalDeserializeError"
LIMIT = E + "LimitOverrunError"
STREAMPARSE = E + "StreamProtocolParseError"
DGRAMPARSE = E + "DatagramProtocolParseError"
CONVERT = E + "PacketConversionError"

# input-dependent raises of external decoders (reviewed against CPython 3.12; rows for absent libraries are
# the documented sets only)
RAISE_TABLE: dict[str, list[str]] = {
    "builtins.str#decode": ["UnicodeDecodeError"],  # str(bytes, encoding, errors)
    "bytes.decode": ["UnicodeDecodeError"],
    "bytearray.decode": ["UnicodeDecodeError"],
    "builtins.bytes.decode": ["UnicodeDecodeError"],
    "memoryview.tobytes": [],
    "codecs.decode": ["UnicodeDecodeError"],
    # ValueError: CPython >= 3.11 refuses to convert an integer literal of more than sys.get_int_max_str_digits() (4300) digits
    # ("Exceeds the limit ... for integer string conversion") - a plain ValueError, not a JSONDecodeError
    "json.JSONDecoder.decode": ["json.decoder.JSONDecodeError", "RecursionError", INT_DIGITS],
    "json.JSONDecoder.raw_decode": ["json.decoder.JSONDecodeError", "RecursionError", INT_DIGITS],
    "json.loads": ["json.decoder.JSONDecodeError", "RecursionError", "UnicodeDecodeError", INT_DIGITS],
    "struct.Struct.unpack": ["struct.error"],
    "struct.Struct.unpack_from": ["struct.error"],
    "struct.unpack": ["struct.error"],
    "base64.standard_b64decode": ["binascii.Error"],
    "base64.urlsafe_b64decode": ["binascii.Error"],
    "base64.b64decode": ["binascii.Error"],
    "zlib.decompressobj.decompress": ["zlib.error"],
    "zlib._Decompress.decompress": ["zlib.error"],
    "bz2.BZ2Decompressor.decompress": ["OSError"],  # EOFError only if called after .eof (guarded structurally)
    "pickle.Unpickler.load": ["Exception"],  # arbitrary: unpickling runs arbitrary reducers
    "cbor2.CBORDecoder.decode": ["cbor2.CBORDecodeError", "UnicodeDecodeError", "EOFError"],
    "cbor2.load": ["cbor2.CBORDecodeError", "UnicodeDecodeError", "EOFError"],
    "msgpack.unpackb": ["Exception"],
    "msgpack.Unpacker.unpack": ["Exception", "msgpack.OutOfData"],
    "msgpack.Unpacker.feed": ["BufferError"],
}
# DecompressorInterface.decompress of an arbitrary user subclass: whatever the subclass declared as expected
DECOMPRESS_PROTOCOL = "easynetwork.serializers.wrapper.compressor:DecompressorInterface.decompress"

UNIVERSE = (
    INT_DIGITS, CODEC_ERROR, "UnicodeDecodeError", "json.decoder.JSONDecodeError", "RecursionError", "struct.error", "binascii.Error", "zlib.error",
    "EOFError", "BufferError", LIMIT, INCR, DESER, STREAMPARSE, DGRAMPARSE, CONVERT, "StopIteration", "StopAsyncIteration",
    "NotImplementedError", "RuntimeError", "TypeError", "ValueError", "AssertionError", "OSError", "Exception",
)


class AttrResolver:
    """Write-once constant propagation for attributes of a concrete class."""

    def __init__(self, engine) -> None:
        self.engine = engine
        self.db = engine.db

    def stores(self, ctx: ClassInfo, lexical_cls: ClassInfo | None, attr: str) -> list[tuple[FunctionInfo, ast.AST, ClassInfo]]:
        m = mangle(lexical_cls.name if lexical_cls else None, attr)
        for c in ctx.mro():
            if m in c.field_values:
                return [(f, v, c) for f, v in c.field_values[m] if f is not None and isinstance(v, ast.AST)]
        return []

    def value_names(self, ctx: ClassInfo, fn: FunctionInfo, owner: ClassInfo, v: ast.AST, depth: int = 0) -> list[str] | None:
        """External dotted names (classes / callables) denoted by value expression `v` written in `fn` (a method of `owner`)."""
        if depth > 5:
            return None
        if isinstance(v, ast.Tuple):
            out: list[str] = []
            for e in v.elts:
                r = self.value_names(ctx, fn, owner, e, depth + 1)
                if r is None:
                    return None
                out += r
            return out
        if isinstance(v, ast.Name) and any(a.arg == v.id for a in fn.params()):
            # constructor parameter: follow super().__init__(kw=...) from the subclasses of `owner` in ctx's MRO
            mro = ctx.mro()
            below = mro[: mro.index(owner)] if owner in mro else []
            for sub in reversed(below):
                init = sub.methods.get("__init__")
                if init is None:
                    continue
                for n in own_nodes(init.node):
                    if isinstance(n, ast.Call) and isinstance(n.func, ast.Attribute) and n.func.attr == "__init__" and isinstance(n.func.value, ast.Call) \
                            and isinstance(n.func.value.func, ast.Name) and n.func.value.func.id == "super":
                        for kw in n.keywords:
                            if kw.arg == v.id:
                                return self.value_names(ctx, init, sub, kw.value, depth + 1)
                        params = [a.arg for a in fn.params()][1:]
                        if v.id in params and params.index(v.id) < len(n.args):
                            return self.value_names(ctx, init, sub, n.args[params.index(v.id)], depth + 1)
            # re-bound locally? e.g. `if not isinstance(x, tuple): x = (x,)` keeps the same classes
            return None
        d = dotted(v)
        if d is not None:
            obj = self.db.resolve(fn.module, d, fn)
            if isinstance(obj, ClassInfo):
                return [obj.qualname]
            if isinstance(obj, FunctionInfo):
                return [obj.qualname]
            return [self.db.external_name(fn.module, d, fn)]
        if isinstance(v, ast.Call):
            if (dotted(v.func) or "").split(".")[-1] == "partial" and v.args:
                return self.value_names(ctx, fn, owner, v.args[0], depth + 1)
            return self.value_names(ctx, fn, owner, v.func, depth + 1)
        if isinstance(v, ast.BoolOp) and isinstance(v.op, ast.Or):
            # `user_supplied or default`: the user-supplied object is configuration; the default decides
            return self.value_names(ctx, fn, owner, v.values[-1], depth + 1)
        return None

    def attr_names(self, ctx: ClassInfo, fn: FunctionInfo, expr: ast.AST) -> list[str] | None:
        """Names denoted by `self.<attr>` as written in method `fn`, for receiver class `ctx`."""
        if not (isinstance(expr, ast.Attribute) and isinstance(expr.value, ast.Name) and expr.value.id == fn.self_name):
            return None
        st = self.stores(ctx, fn.cls, expr.attr)
        if not st:
            return None
        out: list[str] = []
        for f, v, owner in st:
            r = self.value_names(ctx, f, owner, v)
            if r is None:
                # a normalising re-store such as `x = (x,)` of the same parameter: ignore if another store resolves
                continue
            out += [x for x in r if x not in out]
        return out or None


class EscapeAnalysis(RuleAnalysis):
    tokens = UNIVERSE
    precise_raise_tokens = True

    def __init__(self, engine, summaries: "EscapeSummaries", ctx: ClassInfo | None, bindings: dict | None = None) -> None:
        super().__init__(engine)
        self.summ = summaries
        self.ctx = ctx
        self.bindings = bindings or {}  # callable parameter name -> (FunctionInfo, receiver class)
        self.unresolved: list[ast.AST] = []
        self.assumed_silent: set[str] = set()  # external callees outside RAISE_TABLE: assumed to raise nothing input-dependent
        self.external_sites: list[tuple[ast.AST, str]] = []
        self.gen_vars: dict[str, tuple] = {}  # local generator object -> (generator FunctionInfo, ctx, bindings)
        self.typed_locals: dict[str, list[str]] = {}  # local -> external type names (through self.m() return annotations in ctx)

    def initial(self, fn):
        for n in own_nodes(fn.node):
            tgt = val = None
            if isinstance(n, ast.Assign) and len(n.targets) == 1 and isinstance(n.targets[0], ast.Name):
                tgt, val = n.targets[0].id, n.value
            elif isinstance(n, (ast.AnnAssign, ast.NamedExpr)) and isinstance(n.target, ast.Name) and n.value is not None:
                tgt, val = n.target.id, n.value
            if tgt is not None and isinstance(val, ast.Attribute) and isinstance(val.value, ast.Name) and val.value.id == fn.self_name and fn.cls is not None:
                # a generator object parked in an attribute by this class (`self.x = gen` where gen = <generator function>(...))
                g = self._attr_generator(fn.cls, val.attr)
                if g is not None:
                    self.gen_vars[tgt] = (g, g.cls)
                continue
            if tgt is None or not isinstance(val, ast.Call):
                continue
            f = val.func
            if not (isinstance(f, ast.Name) and f.id in self.bindings) and not (isinstance(f, ast.Attribute) and isinstance(f.value, ast.Name) and f.value.id == fn.self_name):
                # <receiver>.method(...) / function(...) resolving to generator function(s) of the repository
                gens = [t for t in self.typer.call_targets(fn, val, dispatch=False) if isinstance(t, FunctionInfo) and not isinstance(t.node, ast.Lambda) and t.is_generator]
                if len(gens) == 1:
                    self.gen_vars[tgt] = (gens[0], gens[0].cls)
                    continue
            if isinstance(f, ast.Name) and f.id in self.bindings:
                g, gctx = self.bindings[f.id]
                if g.is_generator:
                    self.gen_vars[tgt] = (g, gctx)
            elif isinstance(f, ast.Attribute) and isinstance(f.value, ast.Name) and f.value.id == fn.self_name and self.ctx is not None:
                m = self.ctx.find_method(mangle(fn.cls.name if fn.cls else None, f.attr)) or self.ctx.find_method(f.attr)
                if m is None:
                    names = self.summ.resolver.attr_names(self.ctx, fn, f)
                    if names:
                        self.typed_locals[tgt] = names
                if m is not None and not isinstance(m.node, ast.Lambda):
                    if m.is_generator:
                        self.gen_vars[tgt] = (m, self.ctx)
                    else:
                        names = [str(t.ref) for t in self.typer.ann_types(m.module, m.node.returns, m) if t.kind == "ext"]
                        if names:
                            self.typed_locals[tgt] = names
        return [()]

    def _attr_generator(self, cls: ClassInfo, attr: str):
        """the generator function whose generator objects class `cls` stores in `self.<attr>` (None if not exactly one)"""
        found = []
        for m in cls.methods.values():
            if isinstance(m.node, ast.Lambda) or m.self_name is None:
                continue
            local_gen = {}
            for n in own_nodes(m.node):
                tg = val = None
                if isinstance(n, ast.Assign) and len(n.targets) == 1:
                    tg, val = n.targets[0], n.value
                elif isinstance(n, (ast.AnnAssign, ast.NamedExpr)) and n.value is not None:
                    tg, val = n.target, n.value
                if tg is None:
                    continue
                if isinstance(tg, ast.Name) and isinstance(val, ast.Call):
                    gens = [t for t in self.typer.call_targets(m, val, dispatch=False) if isinstance(t, FunctionInfo) and not isinstance(t.node, ast.Lambda) and t.is_generator]
                    if len(gens) == 1:
                        local_gen[tg.id] = gens[0]
            for n in own_nodes(m.node):
                if isinstance(n, ast.Assign):
                    for tg in n.targets:
                        if isinstance(tg, ast.Attribute) and isinstance(tg.value, ast.Name) and tg.value.id == m.self_name and tg.attr == attr and isinstance(n.value, ast.Name) and n.value.id in local_gen:
                            found.append(local_gen[n.value.id])
        uniq = {g.qualname: g for g in found}
        return next(iter(uniq.values())) if len(uniq) == 1 else None

    def resolve_handler_attr(self, fn, expr):
        if self.ctx is None:
            return None
        names = self.summ.resolver.attr_names(self.ctx, fn, expr)
        if names is None:
            return None
        out = []
        for n in names:
            a = self.lattice.ancestry(n)
            if a is None:
                return None
            out.append(a[0])
        return out

    def raised_token(self, node: ast.Raise, fact):
        return None

    # ------------------------------------------------------------------ what a call may raise
    def callee_tokens(self, call: ast.Call, via_yield_from: bool = False) -> list[str]:
        fn = self.fn
        f = call.func
        # str(data, encoding, errors)
        if isinstance(f, ast.Name) and f.id == "str" and len(call.args) >= 2:
            self.external_sites.append((call, "builtins.str#decode"))
            # a codec chosen by configuration (not a literal) may be one that raises a plain UnicodeError
            extra = [] if isinstance(call.args[1], ast.Constant) else [CODEC_ERROR]
            return RAISE_TABLE["builtins.str#decode"] + extra
        if isinstance(f, ast.Attribute) and f.attr == "decode" and not isinstance(f.value, ast.Call) and not self._is_repo_recv(f.value):
            ts = self.typer.expr_types(fn, f.value)
            if not ts or all(t.kind == "ext" and str(t.ref).split(".")[-1] in ("bytes", "bytearray", "memoryview", "str") for t in ts):
                self.external_sites.append((call, "bytes.decode"))
                enc = call.args[0] if call.args else next((k.value for k in call.keywords if k.arg == "encoding"), None)
                extra = [CODEC_ERROR] if enc is not None and not isinstance(enc, ast.Constant) else []
                return RAISE_TABLE["bytes.decode"] + extra
        out: list[str] = []
        # calls of callable parameters bound to a method of the receiver (generic wrappers)
        if isinstance(f, ast.Name) and f.id in self.bindings:
            g, gctx = self.bindings[f.id]
            if g.is_generator and not via_yield_from:
                return []
            return list(self.summ.escapes(g, gctx))
        # driving a local generator object
        if isinstance(f, ast.Attribute) and isinstance(f.value, ast.Name) and f.value.id in self.gen_vars and f.attr in ("send", "throw", "close", "__next__"):
            g, gctx = self.gen_vars[f.value.id]
            return list(self.summ.escapes(g, gctx)) + (["StopIteration"] if f.attr in ("send", "throw", "__next__") else [])
        if isinstance(f, ast.Name) and f.id == "next" and call.args:
            a0 = call.args[0]
            if isinstance(a0, ast.NamedExpr):
                a0 = a0.target
            if isinstance(a0, ast.Name) and a0.id in self.gen_vars:
                g, gctx = self.gen_vars[a0.id]
                return list(self.summ.escapes(g, gctx)) + ["StopIteration"]
        # method of a local whose type comes from a factory method of the concrete receiver class
        if isinstance(f, ast.Attribute) and isinstance(f.value, ast.Name) and f.value.id in self.typed_locals:
            hit = False
            for tn in self.typed_locals[f.value.id]:
                key = f"{tn}.{f.attr}"
                if key in RAISE_TABLE:
                    hit = True
                    self.external_sites.append((call, key))
                    out += RAISE_TABLE[key]
            if hit:
                return out
        targets = self._targets_in_ctx(call)
        if not targets:
            # callable held in an attribute
            names = self.summ.resolver.attr_names(self.ctx, fn, f) if self.ctx is not None else None
            if names is None and isinstance(f, ast.Attribute) and isinstance(f.value, ast.Call):
                # self.__factory(...).method(...)
                inner = self.summ.resolver.attr_names(self.ctx, fn, f.value.func) if self.ctx is not None else None
                if inner:
                    names = [f"{n}.{f.attr}" for n in inner]
            if names:
                targets = names
        if not targets:
            self.unresolved.append(call)
        for t in targets:
            if isinstance(t, FunctionInfo):
                if t.is_generator and not via_yield_from:
                    continue  # creating a generator object runs nothing
                out += self.summ.escapes(t, self._ctx_for(t, call), self._bindings_for(t, call))
            elif isinstance(t, ClassInfo):
                continue
            elif isinstance(t, str):
                if t in RAISE_TABLE:
                    self.external_sites.append((call, t))
                    out += RAISE_TABLE[t]
                elif t.startswith("easynetwork."):
                    obj = self.db.functions.get(t)
                    if obj is not None:
                        out += self.summ.escapes(obj, None)
                else:
                    self.assumed_silent.add(t)
        return out

    def _bindings_for(self, callee: FunctionInfo, call: ast.Call) -> dict:
        """callable parameters of `callee` that receive a bound method of the receiver under analysis"""
        out = {}
        if isinstance(callee.node, ast.Lambda) or self.ctx is None:
            return out
        params = [a.arg for a in callee.node.args.posonlyargs + callee.node.args.args]
        if callee.cls is not None and callee.parent is None and not callee.has_decorator("staticmethod"):
            params = params[1:]
        pairs = list(zip(params, call.args)) + [(k.arg, k.value) for k in call.keywords if k.arg]
        for pname, a in pairs:
            if isinstance(a, ast.Attribute) and isinstance(a.value, ast.Name) and a.value.id == self.fn.self_name:
                m = self.ctx.find_method(mangle(self.fn.cls.name if self.fn.cls else None, a.attr)) or self.ctx.find_method(a.attr)
                if m is not None:
                    out[pname] = (m, self.ctx)
            elif isinstance(a, ast.Name) and a.id in self.bindings:
                out[pname] = self.bindings[a.id]
        return out

    def _is_repo_recv(self, e: ast.AST) -> bool:
        return any(t.kind == "repo" for t in self.typer.expr_types(self.fn, e))

    def _ctx_for(self, callee: FunctionInfo, call: ast.Call) -> ClassInfo | None:
        f = call.func
        if isinstance(f, ast.Attribute) and isinstance(f.value, ast.Name) and f.value.id == self.fn.self_name:
            return self.ctx
        if isinstance(f, ast.Attribute) and isinstance(f.value, ast.Call) and isinstance(f.value.func, ast.Name) and f.value.func.id == "super":
            return self.ctx
        return callee.cls

    def _targets_in_ctx(self, call: ast.Call) -> list[Any]:
        fn = self.fn
        f = call.func
        # self.m(...) dispatches on the concrete receiver class under analysis
        if isinstance(f, ast.Attribute) and isinstance(f.value, ast.Name) and f.value.id == fn.self_name and self.ctx is not None:
            name = mangle(fn.cls.name if fn.cls else None, f.attr)
            m = self.ctx.find_method(name) or self.ctx.find_method(f.attr)
            if m is not None and not m.has_decorator("property"):
                return [m]
            if m is None:
                return []
        if isinstance(f, ast.Attribute) and isinstance(f.value, ast.Call) and isinstance(f.value.func, ast.Name) and f.value.func.id == "super" and self.ctx is not None and fn.cls is not None:
            mro = self.ctx.mro()
            if fn.cls in mro:
                for c in mro[mro.index(fn.cls) + 1:]:
                    if f.attr in c.methods:
                        return [c.methods[f.attr]]
            return []
        return self.typer.call_targets(fn, call, dispatch=False)

    def may_raise(self, node: Any, fact) -> Iterable[str]:
        if isinstance(node, ast.Call):
            return _dedupe(self.callee_tokens(node))
        if isinstance(node, ast.YieldFrom) and isinstance(node.value, ast.Call):
            return _dedupe(self.callee_tokens(node.value, via_yield_from=True))
        if isinstance(node, ast.Await) and isinstance(node.value, ast.Call):
            return _dedupe(self.callee_tokens(node.value, via_yield_from=True))
        return []


def _dedupe(xs):
    out = []
    for x in xs:
        if x not in out:
            out.append(x)
    return out


class EscapeSummaries:
    def __init__(self, engine) -> None:
        self.engine = engine
        self.resolver = AttrResolver(engine)
        self._memo: dict[tuple[str, str | None], list[str]] = {}
        self._busy: set = set()
        self.sites: dict[tuple[str, str | None], list] = {}
        self.unresolved: dict[tuple[str, str | None], list[str]] = {}  # calls with no resolved target: assumed not to raise anything input-dependent
        self.witness: dict[tuple[str, str | None], dict[str, tuple]] = {}
        self.assumed_silent: set[str] = set()

    CONTRACT = {
        # abstract methods: what their contract allows (user code is held to the documented contract)
        "deserialize": [DESER],
        "incremental_deserialize": [INCR],
        "buffered_incremental_deserialize": [INCR],
        "create_from_dto_packet": [CONVERT],
        "convert_from_dto_packet": [CONVERT],
        "decompress": ["#expected_decompress_error"],
    }

    def escapes(self, fn: FunctionInfo, ctx: ClassInfo | None, bindings: dict | None = None) -> list[str]:
        from ..summary import is_abstract_body

        bkey = tuple(sorted((k, v[0].qualname, v[1].qualname if v[1] else None) for k, v in (bindings or {}).items()))
        key = (fn.qualname, ctx.qualname if ctx else None) + ((bkey,) if bkey else ())
        if key in self._memo:
            return self._memo[key]
        if key in self._busy:
            return []
        if isinstance(fn.node, ast.Lambda):
            return []
        if is_abstract_body(fn) or fn.has_decorator("abstractmethod"):
            c = self.CONTRACT.get(fn.name, [])
            self._memo[key] = list(c)
            return self._memo[key]
        self._busy.add(key)
        try:
            an = EscapeAnalysis(self.engine, self, ctx if ctx is not None else fn.cls, bindings)
            out = Interp(an, fn).run()
            toks = [t for t, m in out.exc.items() if m]
            self.witness[key] = {t: next(iter(m.values())) for t, m in out.exc.items() if m}
            self.sites[key] = an.external_sites
            self.unresolved[key] = sorted({ast.unparse(c.func) for c in an.unresolved})
            self.assumed_silent |= an.assumed_silent
        finally:
            self._busy.discard(key)
        self._memo[key] = toks
        return toks
