"""Must-pass-through typestate: has a call satisfying `pred` been executed on every path to each exit?"""
from __future__ import annotations

import ast
from typing import Any, Callable

from ..exc import CANCELLED
from ..flow import ForIter, Interp, WithEnter
from .base import RuleAnalysis


class MustCall(RuleAnalysis):
    tokens = ("Exception", CANCELLED)

    def __init__(self, engine, pred: Callable[[Any], bool], raising: Callable[[Any], bool] | None = None) -> None:
        super().__init__(engine)
        self.pred = pred
        self.raising = raising
        self.sites = 0

    def initial(self, fn):
        return ["no"]

    def may_raise(self, node, fact):
        if self.raising is not None:
            return list(self.tokens) if self.raising(node) else []
        if isinstance(node, ast.Await) or (isinstance(node, (WithEnter, ForIter)) and node.is_async):
            return list(self.tokens)
        if isinstance(node, ast.Call) and not self.pred(node):
            return ["Exception"]
        return []

    def transfer(self, node, fact):
        if self.pred(node):
            self.sites += 1
            return ["yes"]
        return [fact]


def exits_without(engine, fn, pred, raising=None, kinds=("ret", "exc")):
    """[(label, trace)] for the exits of fn reached with no call satisfying pred on the path; also the number of matching sites"""
    an = MustCall(engine, pred, raising)
    out = Interp(an, fn).run()
    bad = []
    if "ret" in kinds:
        bad += [("return", tr) for f, tr in out.ret.items() if f == "no"]
    if "exc" in kinds:
        bad += [(f"raise[{t.split('.')[-1]}]", tr) for t, m in out.exc.items() for f, tr in m.items() if f == "no"]
    return bad, an.sites
